//! C08 host: one execution = one call through one signature in one binding variant under one
//! host schedule. The async half of the mock host is `e2_async::host` (waitable sets, subtasks,
//! context slot, cancellation answers — every nondeterministic answer is an explorer choice
//! point); this module adds the generic, refabi-typed import / export / `task.return` handling
//! and the host loop for *generated* exports (the `[async-lift]` entry point and the
//! `[callback]` export instead of e2's in-process `start_task`).

use crate::c8_harness::{ARM_CALLBACK, ARM_DRIVE, BUILTINS, IDX_ASK, IDX_BUILTIN, IDX_DRIVE_RETURN, IDX_PAUSE, IDX_RES_CTOR, IDX_RES_DROP, IDX_TASK_RETURN};
use crate::c8_world::{Sig, Variant, DRIVE_CB_SYM, DRIVE_SYM, IFACE};
use crate::host::{dlsym, Dir, GuestMem, Lib};
use crate::nlower::{self, NMem, W};
use crate::wire;
use e2_async::explore::{choose, fingerprint, trace, violation};
use e2_async::host::{self as ah, with, ImportSpec, Phase, Progress, ResKind, Task, TaskStatus, EVENT_CANCEL, EVENT_NONE};
use refabi::abi::{self, CoreTy, CoreVal};
use refabi::Val;
use serde_json::{json, Value};

pub const TAG: &str = "C08";

#[derive(Clone)]
enum SubKind {
    /// async-lowered call of `hK`
    Func,
    Pause,
}

struct SubMeta {
    kind: SubKind,
    raw: Vec<u64>,
    started: bool,
    returned: bool,
}

/// Where an owned handle of the imported resource is (indices are never reused).
#[derive(Clone, Copy, Debug, PartialEq, Eq)]
enum HState {
    Guest,
    /// lifted by the host when the callee started
    Transferred,
    /// `[resource-drop]` by the guest
    Dropped,
}

#[derive(Default)]
pub struct Obs {
    /// what the host lifted from the guest: import parameters / export result
    pub host_saw: Option<String>,
    pub host_saw_count: u32,
    pub import_calls: u32,
    pub task_returns: u32,
    pub task_cancels: u32,
    pub cancelled: bool,
    /// the guest dropped the call future at a pending poll
    pub call_dropped: bool,
    pub handles_transferred: u32,
    pub handles_dropped_by_guest: u32,
}

pub struct Exec {
    pub lib: Lib,
    pub sigs: Vec<Sig>,
    pub variant: Variant,
    sig: Sig,
    dir: Dir,
    v1: Val,
    v2: Val,
    subs: Vec<SubMeta>,
    pub obs: Obs,
    /// task index of the export under test (its task.return carries the value)
    main_task: Option<usize>,
    host_allocs: usize,
    /// handle table of the imported resource `thing`: `(id, state)`, handle = index + 1
    things: Vec<(u32, HState)>,
}

static mut EXEC: Option<Exec> = None;

fn ex() -> &'static mut Exec {
    unsafe { (*(&raw mut EXEC)).as_mut().expect("C08 host not installed") }
}

pub fn install(lib: Lib, sigs: Vec<Sig>, variant: Variant) {
    unsafe {
        (lib.api.set_dispatch)(dispatch);
        (lib.api.alloc_enable)();
        let sig = sigs[0].clone();
        *(&raw mut EXEC) = Some(Exec {
            lib,
            sigs,
            variant,
            sig,
            dir: Dir::Export,
            v1: Val::Record(vec![]),
            v2: Val::Record(vec![]),
            subs: Vec::new(),
            obs: Obs::default(),
            main_task: None,
            host_allocs: 0,
            things: Vec::new(),
        });
    }
}

fn slot_to_core(t: CoreTy, bits: u64) -> CoreVal {
    match t {
        CoreTy::I32 | CoreTy::F32 => CoreVal { ty: t, bits: bits & 0xffff_ffff },
        _ => CoreVal { ty: t, bits },
    }
}

fn key(pos: &str) -> String {
    let e = ex();
    format!("{pos}:{}:{}", e.variant.name(), e.sig.label)
}

fn memory_error(e: &str) -> bool {
    e.contains("freed") || e.contains("live block") || e.contains("invalid address")
}

impl Exec {
    /// The host reads the parameters of an import call (when the callee starts).
    fn read_import_params(&mut self, raw: &[u64], async_: bool) {
        let sig = self.sig.import_sig(async_);
        let n = if sig.result_indirect { sig.params.len() - 1 } else { sig.params.len() };
        let flat: Vec<CoreVal> = raw[..n].iter().zip(&sig.params).map(|(b, t)| slot_to_core(*t, *b)).collect();
        let mem = GuestMem::new(self.lib.api);
        let max = if async_ { abi::MAX_FLAT_ASYNC_PARAMS } else { abi::MAX_FLAT_PARAMS };
        match abi::lift_flat_values(&mem, W, max, &flat, &self.sig.params) {
            Err(e) => {
                if memory_error(&e) {
                    violation(TAG, &key("params-dead-at-start"), format!("the lowered parameters of the import call are not live memory when the callee starts: {e}"));
                } else {
                    violation(TAG, &key("import-param"), format!("host cannot lift the import parameters: {e}"));
                }
            }
            Ok(vs) if self.sig.res => {
                // lift_own: every owned handle in the parameter moves to the host now
                let mut owned = Vec::new();
                let mut other = Vec::new();
                for (t, v) in self.sig.params.iter().zip(&vs) {
                    refabi::ty::handles_in(t, v, &mut owned, &mut other);
                }
                for h in &owned {
                    match self.things.get_mut((*h as usize).wrapping_sub(1)) {
                        Some((_, st)) if *st == HState::Guest => {
                            *st = HState::Transferred;
                            self.obs.handles_transferred += 1;
                        }
                        Some((id, st)) => violation(TAG, &key("own-handle:stale-in-params"), format!("handle {h} (thing {id}) is lowered as an owned parameter but is already {st:?}")),
                        None => violation(TAG, &key("own-handle:unknown-in-params"), format!("handle {h} in the parameters was never given to the guest")),
                    }
                }
                let v = self.ids_for_handles(&Val::Record(vs));
                trace(format!("host: callee starts, parameters {v} (handles shown as thing ids)"));
                self.obs.host_saw = Some(v.to_string());
                self.obs.host_saw_count += 1;
                let want = self.sig.expect.clone().unwrap_or(Val::Record(vec![]));
                if !wire::same(&v, &want) {
                    violation(TAG, &key("import-param"), format!("host received {v} but the guest built {want}"));
                }
            }
            Ok(vs) => {
                let v = Val::Record(vs);
                trace(format!("host: callee starts, parameters {v}"));
                self.obs.host_saw = Some(wire::normalize(&v).to_string());
                self.obs.host_saw_count += 1;
                if !wire::same(&v, &self.v1) {
                    violation(TAG, &key("import-param"), format!("host received {v} but the guest was told to send {}", self.v1));
                }
            }
        }
    }

    /// Replace handle indices by the ids of the things they name.
    fn ids_for_handles(&self, v: &Val) -> Val {
        match v {
            Val::Handle(h) => Val::Handle(self.things.get((*h as usize).wrapping_sub(1)).map(|t| t.0).unwrap_or(0xdead_0000 | *h)),
            Val::List(xs) => Val::List(xs.iter().map(|x| self.ids_for_handles(x)).collect()),
            Val::Record(xs) => Val::Record(xs.iter().map(|x| self.ids_for_handles(x)).collect()),
            Val::Variant(i, Some(p)) => Val::Variant(*i, Some(Box::new(self.ids_for_handles(p)))),
            o => o.clone(),
        }
    }

    /// The host delivers the result of an import call.
    fn write_import_result(&mut self, raw: &[u64], async_: bool, ret: *mut u64) {
        let Some(t) = self.sig.result.clone() else { return };
        let sig = self.sig.import_sig(async_);
        let mut mem = GuestMem::new(self.lib.api);
        if sig.result_indirect {
            let p = raw[sig.params.len() - 1];
            if p % abi::alignment(&t, W) != 0 {
                violation(TAG, &key("import-result"), format!("misaligned results pointer {p:#x}"));
                return;
            }
            nlower::store_n(&mut mem, &self.v2, &t, p);
        } else {
            let fl = nlower::lower_flat_n(&mut mem, &self.v2, &t);
            if let (Some(c), false) = (fl.first(), ret.is_null()) {
                unsafe { *ret = c.bits };
            }
        }
        if let Some(e) = mem.bad_access.take() {
            violation(TAG, &key("results-area-dead-at-return"), format!("the results area of the import call is not live memory when the callee returns: {e}"));
        }
        self.host_allocs += mem.host_allocs.len();
    }

    /// After anything that can move a subtask: perform the typed reads / writes for the
    /// transitions e2's host just made.
    fn sync_subs(&mut self) {
        let phases: Vec<(bool, Phase)> = with(|h| h.subs.iter().map(|s| (s.params_seen.is_some(), s.phase)).collect());
        for (i, (seen, phase)) in phases.into_iter().enumerate() {
            if i >= self.subs.len() {
                break;
            }
            let kind = self.subs[i].kind.clone();
            if seen && !self.subs[i].started {
                self.subs[i].started = true;
                if let SubKind::Func = kind {
                    let raw = self.subs[i].raw.clone();
                    self.read_import_params(&raw, true);
                }
            }
            if phase == Phase::Returned && !self.subs[i].returned {
                self.subs[i].returned = true;
                if let SubKind::Func = kind {
                    let raw = self.subs[i].raw.clone();
                    self.write_import_result(&raw, true, std::ptr::null_mut());
                }
            }
        }
    }

    fn async_import(&mut self, kind: SubKind, raw: Vec<u64>) -> u32 {
        if let SubKind::Func = kind {
            self.obs.import_calls += 1;
        }
        // `pause` exists to suspend the export body: its default answer is STARTING, so that the
        // cancellation of a suspended export costs one deviation less
        // resource signatures likewise start out STARTING: the cancel-before-start schedule is
        // then one deviation (the guest's decision to drop the call future) away
        let blocked = matches!(kind, SubKind::Pause) || self.sig.res;
        let rc = with(|h| {
            let old = h.prefer_blocked;
            h.prefer_blocked = blocked;
            let rc = h.import_call(0, [1, 0, 0], 0);
            h.prefer_blocked = old;
            rc
        });
        self.subs.push(SubMeta { kind, raw, started: false, returned: false });
        self.sync_subs();
        rc
    }
}

unsafe extern "C" fn dispatch(k: u32, args: *const u64, nargs: u32, ret: *mut u64) {
    // a panic of the host must not unwind into the guest's `extern "C"` frames
    if let Err(m) = vcommon::catch(|| unsafe { dispatch_inner(k, args, nargs, ret) }) {
        eprintln!("C08 host panicked: {m}");
        e2_async::engine::finish_child(&format!("machinery: host panic: {m}"));
    }
}

unsafe fn dispatch_inner(k: u32, args: *const u64, nargs: u32, ret: *mut u64) {
    let k = k as usize;
    let raw: Vec<u64> = (0..nargs as usize).map(|i| unsafe { *args.add(i) }).collect();
    let e = ex();
    if k >= IDX_BUILTIN {
        unsafe { *ret = builtin(k - IDX_BUILTIN, &raw) };
        e.sync_subs();
        return;
    }
    if k == IDX_PAUSE {
        trace("guest: pause()".to_string());
        unsafe { *ret = e.async_import(SubKind::Pause, raw) as u64 };
        return;
    }
    if k == IDX_DRIVE_RETURN {
        task_return_seen(false, &[]);
        return;
    }
    if k == IDX_ASK {
        let c = choose("drop-call-future", raw[0] as usize);
        if c == 1 {
            trace("guest: drops the call future at a pending poll".to_string());
            e.obs.call_dropped = true;
        }
        unsafe { *ret = c as u64 };
        return;
    }
    if k == IDX_RES_CTOR {
        e.things.push((raw[0] as u32, HState::Guest));
        unsafe { *ret = e.things.len() as u64 };
        return;
    }
    if k == IDX_RES_DROP {
        let h = raw[0] as u32;
        match e.things.get_mut((h as usize).wrapping_sub(1)) {
            Some((id, st)) if *st == HState::Guest => {
                trace(format!("guest: [resource-drop]thing({h}) (thing {id})"));
                *st = HState::Dropped;
                e.obs.handles_dropped_by_guest += 1;
            }
            Some((id, HState::Transferred)) => violation(TAG, &key("own-handle:dropped-after-transfer"), format!("the guest dropped handle {h} (thing {id}) although the callee had started and taken it")),
            Some((id, _)) => violation(TAG, &key("own-handle:double-drop"), format!("the guest dropped handle {h} (thing {id}) twice")),
            None => violation(TAG, &key("own-handle:unknown-drop"), format!("the guest dropped handle {h}, which it never had")),
        }
        return;
    }
    if k >= IDX_TASK_RETURN {
        let fk = k - IDX_TASK_RETURN;
        if fk != e.sig.k {
            violation(TAG, &key("task-return:wrong-function"), format!("task.return of h{fk} while h{} is under test", e.sig.k));
            return;
        }
        task_return_seen(true, &raw);
        return;
    }
    // import hK
    if k != e.sig.k || e.dir != Dir::Import {
        violation(TAG, &key("import-call:unexpected"), format!("import h{k} called (function under test: h{}, direction {:?})", e.sig.k, e.dir));
        return;
    }
    if e.variant.async_import() {
        let sig = e.sig.import_sig(true);
        if raw.len() != sig.params.len() {
            eprintln!("E3-HARNESS-BUG: async import shim passed {} args", raw.len());
            std::process::exit(97)
        }
        trace(format!("guest: [async-lower]h{k}(..)"));
        unsafe { *ret = e.async_import(SubKind::Func, raw) as u64 };
    } else {
        e.obs.import_calls += 1;
        trace(format!("guest: h{k}(..) (sync import)"));
        e.read_import_params(&raw, false);
        e.write_import_result(&raw, false, ret);
    }
}

/// `task.return`: exactly once per task, with the result flattened as the reference says.
fn task_return_seen(main: bool, raw: &[u64]) {
    let e = ex();
    let cur = with(|h| match h.cur_task {
        Some(t) => {
            h.tasks[t].returns += 1;
            Some(t)
        }
        None => None,
    });
    let Some(t) = cur else {
        violation(TAG, &key("task-return:no-task"), "task.return outside any task");
        return;
    };
    trace(format!("task.return (task {t})"));
    if !main {
        return;
    }
    if Some(t) != e.main_task {
        violation(TAG, &key("task-return:wrong-task"), format!("task.return of the export under test from task {t}"));
    }
    e.obs.task_returns += 1;
    let sig = e.sig.task_return_sig();
    if raw.len() != sig.params.len() {
        eprintln!("E3-HARNESS-BUG: task.return shim passed {} args, reference says {}", raw.len(), sig.params.len());
        std::process::exit(97)
    }
    let Some(rt) = e.sig.result.clone() else {
        e.obs.host_saw = Some("()".into());
        e.obs.host_saw_count += 1;
        return;
    };
    let flat: Vec<CoreVal> = raw.iter().zip(&sig.params).map(|(b, t)| slot_to_core(*t, *b)).collect();
    let mem = GuestMem::new(e.lib.api);
    match abi::lift_flat_values(&mem, W, abi::MAX_FLAT_PARAMS, &flat, std::slice::from_ref(&rt)) {
        Err(err) => violation(TAG, &key("export-result"), format!("host cannot lift the arguments of task.return: {err}")),
        Ok(vs) => {
            let v = vs[0].clone();
            e.obs.host_saw = Some(wire::normalize(&v).to_string());
            e.obs.host_saw_count += 1;
            if !wire::same(&v, &e.v2) {
                violation(TAG, &key("export-result"), format!("task.return delivered {v} but the guest returned {}", e.v2));
            }
        }
    }
}

/// Canonical built-ins, answered by e2's mock host.
fn builtin(i: usize, a: &[u64]) -> u64 {
    let name = BUILTINS[i].0;
    match name {
        "[waitable-set-new]" => with(|h| {
            let s = h.set_new();
            if let Some(t) = h.cur_task {
                if !h.tasks[t].sets_created.contains(&s) {
                    h.tasks[t].sets_created.push(s);
                }
            }
            s as u64
        }),
        "[waitable-set-drop]" => {
            with(|h| h.set_drop(a[0] as u32));
            0
        }
        "[waitable-join]" => {
            with(|h| h.join(a[0] as u32, a[1] as u32));
            0
        }
        "[waitable-set-wait]" | "[waitable-set-poll]" => {
            let (x, b, c) = with(|h| if name.ends_with("wait]") { h.set_wait(a[0] as u32) } else { h.set_poll(a[0] as u32) });
            unsafe { *(a[1] as *mut [u32; 2]) = [b, c] };
            x as u64
        }
        "[context-get-0]" => with(|h| match h.cur_task {
            Some(t) => h.tasks[t].ctx as u64,
            None => h.root_ctx as u64,
        }),
        "[context-set-0]" => {
            with(|h| match h.cur_task {
                Some(t) => h.tasks[t].ctx = a[0] as usize,
                None => h.root_ctx = a[0] as usize,
            });
            0
        }
        "[thread-yield]" => 0,
        "[backpressure-inc]" | "[backpressure-dec]" => 0,
        "[task-cancel]" => {
            let main = ex().main_task;
            with(|h| {
                if let Some(t) = h.cur_task {
                    h.tasks[t].cancels += 1;
                    if !h.tasks[t].cancel_sent {
                        violation(TAG, &key("task-cancel:without-request"), "task.cancel called although the host never requested cancellation");
                    }
                    trace(format!("task.cancel (task {t})"));
                    if Some(t) == main {
                        ex().obs.task_cancels += 1;
                    }
                } else {
                    violation(TAG, &key("task-cancel:no-task"), "task.cancel outside any task");
                }
            });
            0
        }
        "[subtask-cancel]" => with(|h| h.subtask_cancel(a[0] as u32)) as u64,
        "[subtask-drop]" => {
            with(|h| h.subtask_drop(a[0] as u32));
            0
        }
        "wasip3_task_set" => with(|h| std::mem::replace(&mut h.p3_task, a[0] as *mut std::ffi::c_void)) as u64,
        _ => 0,
    }
}

// ---------------------------------------------------------------------------------------------
// host loop for generated exports (after e2_async::driver::run)

fn interpret(t: usize, code: u32) {
    with(|h| {
        let st = match code & 0xf {
            0 => TaskStatus::Exited,
            1 => TaskStatus::Yielded,
            2 => TaskStatus::Waiting(code >> 4),
            x => {
                violation(TAG, &key("callback-code:unknown"), format!("callback returned unknown code {x}"));
                TaskStatus::Exited
            }
        };
        trace(format!("task {t} -> {st:?}"));
        h.tasks[t].status = st;
        if let TaskStatus::Waiting(s) = st {
            let live = matches!(h.entry(s), Some(ah::Entry { kind: ah::Kind::Set { .. }, .. }));
            if !live {
                violation(TAG, &key("wait:dead-set"), format!("task {t} asked to wait on {s}, which is not a live waitable set"));
            }
        }
    });
}

fn call_raw(arm: usize, sym: &str, args: &[u64]) -> Option<u64> {
    let e = ex();
    let fp = dlsym(e.lib.handle, sym);
    if fp.is_null() {
        violation(TAG, &key("export-symbol"), format!("no export named `{sym}`"));
        return None;
    }
    let mut ret = 0u64;
    unsafe { (e.lib.api.call_export)(arm as u32, fp as *const (), args.as_ptr(), &mut ret) };
    Some(ret)
}

fn start_task(arm: usize, sym: &str, args: &[u64]) -> Option<usize> {
    let t = with(|h| {
        h.tasks.push(Task { ctx: 0, status: TaskStatus::Running, cancel_sent: false, returns: 0, cancels: 0, sets_created: vec![] });
        let t = h.tasks.len() - 1;
        h.cur_task = Some(t);
        t
    });
    trace(format!("host: start task {t} through {sym}"));
    let code = call_raw(arm, sym, args);
    with(|h| h.cur_task = None);
    ex().sync_subs();
    interpret(t, code? as u32);
    Some(t)
}

fn callback(t: usize, sym: &str, e0: u32, e1: u32, e2: u32) {
    with(|h| {
        h.cur_task = Some(t);
        h.tasks[t].status = TaskStatus::Running;
    });
    trace(format!("host: callback(task {t}, {e0}, {e1}, {e2})"));
    let code = call_raw(ARM_CALLBACK, sym, &[e0 as u64, e1 as u64, e2 as u64]);
    with(|h| h.cur_task = None);
    ex().sync_subs();
    match code {
        Some(c) => interpret(t, c as u32),
        None => with(|h| h.tasks[t].status = TaskStatus::Exited),
    }
}

#[derive(Clone, Copy)]
enum Action {
    Deliver(usize, u32),
    Host(Progress),
    Resume(usize),
    Cancel(usize),
}

/// Returns "done" / "deadlock" / "horizon".
fn run_loop(cb_sym: &str, allow_cancel: bool) -> &'static str {
    for _turn in 0..24 {
        fingerprint(with(|h| h.fingerprint()));
        let mut acts: Vec<Action> = Vec::new();
        with(|h| {
            for t in 0..h.tasks.len() {
                if let TaskStatus::Waiting(s) = h.tasks[t].status {
                    for w in h.ready(s) {
                        acts.push(Action::Deliver(t, w));
                    }
                }
            }
            for p in h.progress_actions() {
                acts.push(Action::Host(p));
            }
            for t in 0..h.tasks.len() {
                if h.tasks[t].status == TaskStatus::Yielded {
                    acts.push(Action::Resume(t));
                }
            }
            if allow_cancel {
                for t in 0..h.tasks.len() {
                    if matches!(h.tasks[t].status, TaskStatus::Waiting(_) | TaskStatus::Yielded) && !h.tasks[t].cancel_sent && h.tasks[t].returns == 0 {
                        acts.push(Action::Cancel(t));
                    }
                }
            }
        });
        let all_exited = with(|h| h.tasks.iter().all(|t| t.status == TaskStatus::Exited));
        if all_exited && acts.is_empty() {
            return "done";
        }
        if acts.is_empty() {
            violation(TAG, &key("deadlock"), "a task is suspended but the host has no event to deliver and nothing in flight");
            return "deadlock";
        }
        match acts[choose("turn", acts.len())] {
            Action::Deliver(t, w) => {
                let (e0, e1, e2) = with(|h| h.take_event(w));
                callback(t, cb_sym, e0, e1, e2);
            }
            Action::Host(p) => {
                trace(format!("host: {p:?}"));
                with(|h| h.apply_progress(p));
                ex().sync_subs();
            }
            Action::Resume(t) => callback(t, cb_sym, EVENT_NONE, 0, 0),
            Action::Cancel(t) => {
                with(|h| h.tasks[t].cancel_sent = true);
                ex().obs.cancelled = true;
                callback(t, cb_sym, EVENT_CANCEL, 0, 0);
            }
        }
    }
    "horizon"
}

// ---------------------------------------------------------------------------------------------
// one execution

pub struct Case<'a> {
    pub sig: &'a Sig,
    pub dir: Dir,
    pub v1: &'a Val,
    pub v2: &'a Val,
}

/// Run one execution in this process (a forked child) and return its report.
pub fn run(case: &Case, prefix: Vec<usize>) -> Value {
    e2_async::explore::reset(prefix);
    with(|h| {
        *h = ah::Host::new();
        h.prop = TAG.to_string();
        h.imports.push(ImportSpec { indirect: false, result: ResKind::None, result_item: vec![] });
    });
    let e = ex();
    e.sig = case.sig.clone();
    e.dir = case.dir.clone();
    e.v1 = case.v1.clone();
    e.v2 = case.v2.clone();
    e.subs.clear();
    e.obs = Obs::default();
    e.main_task = None;
    e.host_allocs = 0;
    e.things.clear();
    let api = e.lib.api;
    let variant = e.variant;
    let sig = case.sig.clone();
    // resource signatures: the guest builds the parameter itself, the channel carries `()`
    let chan_params_ty = if sig.res { refabi::Ty::Tuple(vec![]) } else { sig.params_ty() };
    for (t, v) in [(chan_params_ty.clone(), case.v1), (sig.result_ty(), case.v2)] {
        if let Err(err) = nlower::self_check(&t, v) {
            vcommon::machinery(&format!("native lowering self-check failed: {err}"));
        }
    }
    let mut b1 = Vec::new();
    let mut b2 = Vec::new();
    wire::encode(case.v1, &chan_params_ty, &mut b1);
    wire::encode(case.v2, &sig.result_ty(), &mut b2);
    let mut obs_buf = vec![0u8; 1 << 16];
    unsafe {
        (api.purge)();
        (api.set_case)(b1.as_ptr(), b1.len(), b2.as_ptr(), b2.len(), obs_buf.as_mut_ptr(), obs_buf.len());
    }
    let set_flags: unsafe extern "C" fn(u32) = unsafe { std::mem::transmute(dlsym(e.lib.handle, "verif_set_flags")) };
    // ---- measured window
    let serial0 = unsafe { (api.serial)() };
    let count0 = unsafe { (api.live_count)() };
    let digest0 = unsafe { (api.live_digest)() };
    let mut outcome = "done";
    let observed_ty;
    let expected_obs;
    match case.dir {
        Dir::Export => {
            observed_ty = sig.params_ty();
            expected_obs = case.v1.clone();
            let async_ = variant.async_export();
            let flags = if async_ { choose("export-body", 2) as u32 } else { 0 };
            unsafe { set_flags(flags) };
            let es = sig.export_sig(async_);
            let mut mem = GuestMem::new(api);
            let vals = match case.v1 {
                Val::Record(v) => v.clone(),
                _ => vec![],
            };
            let args: Vec<u64> = if es.params_indirect {
                let (offs, sz, al) = abi::record_layout(&sig.params, W);
                let p = mem.alloc(sz, al);
                for ((t, v), o) in sig.params.iter().zip(&vals).zip(offs) {
                    nlower::store_n(&mut mem, v, t, p + o);
                }
                vec![p]
            } else {
                sig.params.iter().zip(&vals).flat_map(|(t, v)| nlower::lower_flat_n(&mut mem, v, t)).map(|c| c.bits).collect()
            };
            e.host_allocs += mem.host_allocs.len();
            let sym = if async_ { format!("[async-lift]{IFACE}#{}", sig.name) } else { format!("{IFACE}#{}", sig.name) };
            if async_ {
                let cb = format!("[callback][async-lift]{IFACE}#{}", sig.name);
                e.main_task = Some(0);
                if start_task(sig.k, &sym, &args).is_some() {
                    outcome = run_loop(&cb, true);
                }
            } else if let Some(ret) = call_raw(sig.k, &sym, &args) {
                // synchronous export: lift the result, then post-return
                if let Some(rt) = &sig.result {
                    let lifted = if es.result_indirect {
                        abi::load(&mem, W, ret, rt)
                    } else {
                        let flat: Vec<CoreVal> = es.results.iter().map(|t| slot_to_core(*t, ret)).collect();
                        let mut it = abi::FlatIter { vals: &flat, pos: 0 };
                        abi::lift_flat(&mem, W, &mut it, rt)
                    };
                    match lifted {
                        Err(err) => violation(TAG, &key("export-result"), format!("host cannot lift the export result: {err}")),
                        Ok(v) => {
                            e.obs.host_saw = Some(wire::normalize(&v).to_string());
                            e.obs.host_saw_count += 1;
                            if !wire::same(&v, case.v2) {
                                violation(TAG, &key("export-result"), format!("host received {v} but the guest returned {}", case.v2));
                            }
                        }
                    }
                } else {
                    e.obs.host_saw = Some("()".into());
                    e.obs.host_saw_count += 1;
                }
                let post = dlsym(e.lib.handle, &format!("cabi_post_{sym}"));
                if !post.is_null() {
                    unsafe {
                        match es.results.first() {
                            Some(CoreTy::I32) => (std::mem::transmute::<_, unsafe extern "C" fn(i32)>(post))(ret as i32),
                            Some(CoreTy::I64) => (std::mem::transmute::<_, unsafe extern "C" fn(i64)>(post))(ret as i64),
                            _ => {}
                        }
                    }
                }
            }
        }
        Dir::Import => {
            observed_ty = sig.result_ty();
            expected_obs = case.v2.clone();
            unsafe { set_flags(0) };
            // the guest's import call runs inside the always-async `drive` export
            if start_task(ARM_DRIVE, DRIVE_SYM, &[sig.k as u64]).is_some() {
                outcome = run_loop(DRIVE_CB_SYM, true);
            }
        }
    }
    // exactly one report per task
    if outcome == "done" {
        with(|h| {
            for (t, task) in h.tasks.iter().enumerate() {
                if task.returns + task.cancels != 1 {
                    violation(
                        TAG,
                        &key(&format!("task-result:{}-returns-{}-cancels", task.returns, task.cancels)),
                        format!("task {t} exited having called task.return {} time(s) and task.cancel {} time(s) (exactly one report is required)", task.returns, task.cancels),
                    );
                }
            }
            for (i, s) in h.subs.iter().enumerate() {
                if s.handle != 0 && !s.dropped {
                    violation(TAG, &key("subtask-not-dropped"), format!("subtask {i} (handle {}) was never dropped", s.handle));
                }
            }
        });
    }
    // owned handles: cancelled before the callee started => the guest re-owns and drops every
    // lowered handle exactly once; started / returned => the callee took them, the guest drops none
    if outcome == "done" {
        let e = ex();
        for (i, (id, st)) in e.things.iter().enumerate() {
            if *st == HState::Guest {
                violation(TAG, &key("own-handle:leaked"), format!("handle {} (thing {id}) was neither taken by the callee nor dropped by the guest", i + 1));
            }
        }
    }
    // ledger
    let mut ledger: Vec<String> = Vec::new();
    unsafe { (api.audit)() };
    let mut fb = [0u8; 256];
    let n = unsafe { (api.take_fault)(fb.as_mut_ptr(), fb.len()) };
    if n > 0 {
        let f = String::from_utf8_lossy(&fb[..n]).into_owned();
        violation(TAG, &key(&format!("heap:{f}")), format!("checking allocator: {f}"));
        ledger.push(f);
    }
    if outcome == "done" {
        let mut buf = [0usize; 3 * 16];
        let n = unsafe { (api.live_since)(serial0, buf.as_mut_ptr(), 16) };
        if n > 0 {
            let list: Vec<String> = (0..n.min(16)).map(|i| format!("{}B align {}", buf[3 * i + 1], buf[3 * i + 2])).collect();
            violation(TAG, &key("leak"), format!("{n} block(s) allocated during the call are still live after it completed: {}", list.join(", ")));
            ledger.push(format!("leak {}", list.join(",")));
        } else if unsafe { (api.live_count)() } != count0 || unsafe { (api.live_digest)() } != digest0 {
            violation(TAG, &key("foreign-free"), "the call freed blocks that were live before it");
            ledger.push("foreign-free".into());
        }
    }
    // ---- window ends; what user code observed
    let mut export_calls = 0u32;
    let n = unsafe { (api.clear_case)(&mut export_calls) };
    let mut user_saw: Option<String> = None;
    let mut user_count = 0u32;
    if n != 0 && n != usize::MAX {
        let mut p = 0;
        while p < n {
            match wire::decode(&obs_buf[..n], &mut p, &observed_ty) {
                Ok(v) => {
                    user_count += 1;
                    if !wire::same(&v, &expected_obs) {
                        violation(TAG, &key(if case.dir == Dir::Export { "export-param" } else { "import-result" }), format!("user code saw {v} but the host sent {expected_obs}"));
                    }
                    user_saw = Some(wire::normalize(&v).to_string());
                }
                Err(err) => {
                    violation(TAG, &key("user-observation"), format!("user code saw an ill-formed value: {err}"));
                    break;
                }
            }
        }
    }
    if user_count > 1 {
        violation(TAG, &key("lifted-more-than-once"), format!("user code observed the value {user_count} times"));
    }
    let e = ex();
    let log = e2_async::explore::take();
    json!({
        "outcome": outcome,
        "choices": log.choices.iter().map(|(l, n, c)| json!([l, n, c])).collect::<Vec<_>>(),
        "violations": log.violations.iter().map(|(t, k, w)| json!([t, k, w])).collect::<Vec<_>>(),
        "fps": log.fingerprints,
        "edges": log.edges,
        "trace": log.trace,
        "diverged": log.diverged,
        "obs": {
            "user_saw": user_saw, "user_count": user_count, "export_calls": export_calls,
            "host_saw": e.obs.host_saw, "host_saw_count": e.obs.host_saw_count,
            "import_calls": e.obs.import_calls, "task_returns": e.obs.task_returns, "task_cancels": e.obs.task_cancels,
            "cancelled": e.obs.cancelled || e.obs.call_dropped, "call_dropped": e.obs.call_dropped,
            "handles_transferred": e.obs.handles_transferred, "handles_dropped_by_guest": e.obs.handles_dropped_by_guest, "ledger": ledger,
        },
    })
}
