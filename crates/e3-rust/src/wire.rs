//! Host side of the guest observation channel: `refabi::Val` ↔ bytes (the format of
//! `guest/rt.rs`). Types are needed to decode because `Val` shares representations.

use refabi::{Ty, Val};

pub fn encode(v: &Val, t: &Ty, out: &mut Vec<u8>) {
    match (t, v) {
        (Ty::Bool, Val::Bool(b)) => out.extend([0, *b as u8]),
        (_, Val::U(x)) => {
            out.push(1);
            out.extend(x.to_le_bytes())
        }
        (_, Val::S(x)) => {
            out.push(2);
            out.extend(x.to_le_bytes())
        }
        (_, Val::F32(x)) => {
            out.push(3);
            out.extend(x.to_le_bytes())
        }
        (_, Val::F64(x)) => {
            out.push(4);
            out.extend(x.to_le_bytes())
        }
        (_, Val::Char(x)) => {
            out.push(5);
            out.extend(x.to_le_bytes())
        }
        (_, Val::Str(s)) => {
            out.push(6);
            out.extend((s.len() as u32).to_le_bytes());
            out.extend(s.as_bytes())
        }
        (Ty::List(e) | Ty::FixedList(e, _), Val::List(xs)) => {
            out.push(7);
            out.extend((xs.len() as u32).to_le_bytes());
            for x in xs {
                encode(x, e, out)
            }
        }
        (Ty::Map(k, w), Val::Map(es)) => {
            out.push(8);
            out.extend((es.len() as u32).to_le_bytes());
            for (a, b) in es {
                encode(a, k, out);
                encode(b, w, out)
            }
        }
        (Ty::Record(f) | Ty::Tuple(f), Val::Record(xs)) => {
            out.push(9);
            out.extend((xs.len() as u32).to_le_bytes());
            for (x, ft) in xs.iter().zip(f) {
                encode(x, ft, out)
            }
        }
        (_, Val::Variant(i, p)) => {
            out.push(10);
            out.extend(i.to_le_bytes());
            match p {
                None => out.push(0),
                Some(p) => {
                    out.push(1);
                    let ct = t.cases().and_then(|c| c.get(*i as usize).cloned()).flatten().expect("ill-typed variant");
                    encode(p, &ct, out)
                }
            }
        }
        (_, Val::Flags(b)) => {
            out.push(11);
            out.extend((b.len() as u32).to_le_bytes());
            out.extend(b.iter().map(|x| *x as u8))
        }
        (_, Val::Handle(h)) => {
            out.push(12);
            out.extend(h.to_le_bytes())
        }
        _ => panic!("wire::encode: ill-typed {v} for {t}"),
    }
}

fn u32_at(b: &[u8], p: &mut usize) -> Result<u32, String> {
    let s = b.get(*p..*p + 4).ok_or("wire: truncated")?;
    *p += 4;
    Ok(u32::from_le_bytes(s.try_into().unwrap()))
}
fn u64_at(b: &[u8], p: &mut usize) -> Result<u64, String> {
    let s = b.get(*p..*p + 8).ok_or("wire: truncated")?;
    *p += 8;
    Ok(u64::from_le_bytes(s.try_into().unwrap()))
}

/// Decode what the guest observed. `Err` = the guest saw something that is not a value of `t`
/// (e.g. bytes that are not utf-8 where a string was expected) or the harness disagrees on shape.
pub fn decode(b: &[u8], p: &mut usize, t: &Ty) -> Result<Val, String> {
    let tag = *b.get(*p).ok_or("wire: truncated")?;
    *p += 1;
    Ok(match (tag, t) {
        (0, Ty::Bool) => {
            *p += 1;
            Val::Bool(b[*p - 1] != 0)
        }
        (1, Ty::U8 | Ty::U16 | Ty::U32 | Ty::U64) => Val::U(u64_at(b, p)?),
        (2, Ty::S8 | Ty::S16 | Ty::S32 | Ty::S64) => Val::S(u64_at(b, p)? as i64),
        (3, Ty::F32) => Val::F32(u32_at(b, p)?),
        (4, Ty::F64) => Val::F64(u64_at(b, p)?),
        (5, Ty::Char) => Val::Char(u32_at(b, p)?),
        (6, Ty::String) => {
            let n = u32_at(b, p)? as usize;
            let s = b.get(*p..*p + n).ok_or("wire: truncated")?;
            *p += n;
            Val::Str(String::from_utf8(s.to_vec()).map_err(|_| "wire: utf-8")?)
        }
        (13, Ty::String) => {
            let n = u32_at(b, p)? as usize;
            let s = b.get(*p..*p + n).ok_or("wire: truncated")?;
            *p += n;
            return Err(format!("guest saw bytes that are not utf-8 for a string: {s:02x?}"));
        }
        (7, Ty::List(e) | Ty::FixedList(e, _)) => {
            let n = u32_at(b, p)? as usize;
            let mut v = Vec::new();
            for _ in 0..n {
                v.push(decode(b, p, e)?);
            }
            Val::List(v)
        }
        (8, Ty::Map(k, w)) => {
            let n = u32_at(b, p)? as usize;
            let mut v = Vec::new();
            for _ in 0..n {
                let a = decode(b, p, k)?;
                let x = decode(b, p, w)?;
                v.push((a, x));
            }
            Val::Map(v)
        }
        (9, Ty::Record(f) | Ty::Tuple(f)) => {
            let n = u32_at(b, p)? as usize;
            if n != f.len() {
                return Err(format!("wire: record arity {n} for {t}"));
            }
            let mut v = Vec::new();
            for ft in f {
                v.push(decode(b, p, ft)?);
            }
            Val::Record(v)
        }
        (10, Ty::Variant(_) | Ty::Enum(_) | Ty::Option(_) | Ty::Result(..)) => {
            let i = u32_at(b, p)?;
            let has = *b.get(*p).ok_or("wire: truncated")?;
            *p += 1;
            let cases = t.cases().unwrap();
            let ct = cases.get(i as usize).ok_or_else(|| format!("wire: case {i} for {t}"))?;
            match (has, ct) {
                (0, None) => Val::Variant(i, None),
                (1, Some(ct)) => Val::Variant(i, Some(Box::new(decode(b, p, ct)?))),
                _ => return Err(format!("wire: payload presence mismatch in case {i} of {t}")),
            }
        }
        (11, Ty::Flags(n)) => {
            let m = u32_at(b, p)? as usize;
            if m != *n as usize {
                return Err(format!("wire: {m} flags for {t}"));
            }
            let s = b.get(*p..*p + m).ok_or("wire: truncated")?;
            *p += m;
            Val::Flags(s.iter().map(|x| *x != 0).collect())
        }
        (12, _) => Val::Handle(u32_at(b, p)?),
        (tag, _) => return Err(format!("wire: tag {tag} for {t}")),
    })
}

/// Canonical form for comparison: map entries sorted by key (a `map` is unordered; the guest's
/// `HashMap` iterates in arbitrary order).
pub fn normalize(v: &Val) -> Val {
    match v {
        Val::List(xs) => Val::List(xs.iter().map(normalize).collect()),
        Val::Record(xs) => Val::Record(xs.iter().map(normalize).collect()),
        Val::Variant(i, p) => Val::Variant(*i, p.as_ref().map(|p| Box::new(normalize(p)))),
        Val::Map(es) => {
            let mut es: Vec<(Val, Val)> = es.iter().map(|(a, b)| (normalize(a), normalize(b))).collect();
            es.sort_by(|a, b| a.0.cmp(&b.0));
            Val::Map(es)
        }
        o => o.clone(),
    }
}

pub fn same(a: &Val, b: &Val) -> bool {
    refabi::val_eq(&normalize(a), &normalize(b))
}
