//! C08 world family: one interface `t:t/i` (imported and exported) with one `async func` per
//! signature of the reduced alphabet, an always-async import `t:t/p#pause` (lets an export body
//! suspend) and an always-async export `t:t/d#drive` (runs the guest's import calls inside a
//! task). The four binding variants of the same WIT are selected with `--async` directives.

use refabi::abi::{flatten_functype, task_return_params, CanonOpts, Context, CoreSig, CoreTy};
use refabi::{Ty, Val};
use std::fmt::Write;

use crate::nlower::W;

#[derive(Clone, Copy, Debug, PartialEq, Eq, PartialOrd, Ord, Hash)]
pub enum Variant {
    /// imports and exports bound synchronously (the reference run)
    Sync,
    /// `hK` async-lowered imports, sync exports
    AsyncImport,
    /// sync imports, async-lifted exports
    AsyncExport,
    Both,
}

pub const VARIANTS: [Variant; 4] = [Variant::Sync, Variant::AsyncImport, Variant::AsyncExport, Variant::Both];

impl Variant {
    pub fn name(self) -> &'static str {
        match self {
            Variant::Sync => "sync",
            Variant::AsyncImport => "async-import",
            Variant::AsyncExport => "async-export",
            Variant::Both => "async-both",
        }
    }
    pub fn parse(s: &str) -> Option<Variant> {
        VARIANTS.iter().copied().find(|v| v.name() == s)
    }
    pub fn async_import(self) -> bool {
        matches!(self, Variant::AsyncImport | Variant::Both)
    }
    pub fn async_export(self) -> bool {
        matches!(self, Variant::AsyncExport | Variant::Both)
    }
}

#[derive(Clone, Debug)]
pub struct Sig {
    pub k: usize,
    pub name: String,
    pub params: Vec<Ty>,
    pub result: Option<Ty>,
    /// short description, used in violation keys
    pub label: String,
    /// resource signature: import-only function `oJ` of interface `t:t/r` whose parameter carries
    /// owned handles of the imported resource `thing`; `expect` is the parameter the guest builds,
    /// with `Val::Handle(id)` naming the thing created with that id
    pub res: bool,
    pub expect: Option<Val>,
    /// Rust expression (in terms of `R` = the bindings module of `t:t/r`) building the parameter
    pub build: String,
}

impl Sig {
    pub fn opts(async_: bool) -> CanonOpts {
        CanonOpts { async_, callback: async_ }
    }
    pub fn export_sig(&self, async_: bool) -> CoreSig {
        flatten_functype(Self::opts(async_), &self.params, self.result.as_ref(), Context::Lift, W)
    }
    pub fn import_sig(&self, async_: bool) -> CoreSig {
        flatten_functype(Self::opts(async_), &self.params, self.result.as_ref(), Context::Lower, W)
    }
    /// core signature of `[task-return]hK`
    pub fn task_return_sig(&self) -> CoreSig {
        let (params, indirect) = task_return_params(self.result.as_ref(), W);
        CoreSig { params, results: vec![], params_indirect: indirect, result_indirect: false }
    }
    pub fn params_ty(&self) -> Ty {
        Ty::Tuple(self.params.clone())
    }
    pub fn result_ty(&self) -> Ty {
        match &self.result {
            Some(t) => t.clone(),
            None => Ty::Tuple(vec![]),
        }
    }
}

pub fn callback_sig() -> CoreSig {
    CoreSig { params: vec![CoreTy::I32; 3], results: vec![CoreTy::I32], params_indirect: false, result_indirect: false }
}

pub const IFACE: &str = "t:t/i";
pub const DRIVE_SYM: &str = "[async-lift]t:t/d#drive";
pub const DRIVE_CB_SYM: &str = "[callback][async-lift]t:t/d#drive";

/// The reduced signature alphabet (params x results).
pub fn alphabet() -> Vec<Sig> {
    let rec = Ty::Record(vec![Ty::U8, Ty::U64]);
    let params: Vec<(&str, Vec<Ty>)> = vec![
        ("none", vec![]),
        ("u32", vec![Ty::U32]),
        ("string", vec![Ty::String]),
        ("list<u8>", vec![Ty::List(Box::new(Ty::U8))]),
        ("record{u8,u64}", vec![rec.clone()]),
        ("5xu32", vec![Ty::U32; 5]),
        ("17xu32", vec![Ty::U32; 17]),
        ("string+record", vec![Ty::String, rec.clone()]),
    ];
    let results: Vec<(&str, Option<Ty>)> = vec![
        ("none", None),
        ("u32", Some(Ty::U32)),
        ("string", Some(Ty::String)),
        ("tuple<u32,u32>", Some(Ty::Tuple(vec![Ty::U32, Ty::U32]))),
        ("result<string,u8>", Some(Ty::Result(Some(Box::new(Ty::String)), Some(Box::new(Ty::U8))))),
        ("option<u64>", Some(Ty::Option(Box::new(Ty::U64)))),
        ("list<string>", Some(Ty::List(Box::new(Ty::String)))),
    ];
    let mut out = Vec::new();
    for (pn, p) in &params {
        for (rn, r) in &results {
            let k = out.len();
            out.push(Sig { k, name: format!("h{k}"), params: p.clone(), result: r.clone(), label: format!("({pn})->{rn}"), res: false, expect: None, build: String::new() });
        }
    }
    out
}

pub const RES_IFACE: &str = "t:t/r";

/// Async-import signatures whose parameter carries owned handles of an imported resource:
/// direct, in a record, and inside list elements without and with a string next to them.
pub fn res_alphabet(first_k: usize) -> Vec<Sig> {
    let own = Ty::Own(0);
    let h = |id: u32| Val::Handle(id);
    let shapes: Vec<(&str, Ty, Val, &str)> = vec![
        ("own", own.clone(), h(101), "R::Thing::new(101)"),
        ("record{u32,own}", Ty::Record(vec![Ty::U32, own.clone()]), Val::Record(vec![Val::U(7), h(101)]), "R::RecThing { a: 7, h: R::Thing::new(101) }"),
        ("list<own>", Ty::List(Box::new(own.clone())), Val::List(vec![h(101), h(102)]), "vec![R::Thing::new(101), R::Thing::new(102)]"),
        (
            "list<tuple<own,u32>>",
            Ty::List(Box::new(Ty::Tuple(vec![own.clone(), Ty::U32]))),
            Val::List(vec![Val::Record(vec![h(101), Val::U(1)]), Val::Record(vec![h(102), Val::U(2)])]),
            "vec![(R::Thing::new(101), 1u32), (R::Thing::new(102), 2u32)]",
        ),
        (
            "list<tuple<own,string>>",
            Ty::List(Box::new(Ty::Tuple(vec![own.clone(), Ty::String]))),
            Val::List(vec![Val::Record(vec![h(101), Val::Str("a".into())]), Val::Record(vec![h(102), Val::Str("bb".into())])]),
            "vec![(R::Thing::new(101), \"a\".to_string()), (R::Thing::new(102), \"bb\".to_string())]",
        ),
        (
            "list<record{u32,own}>",
            Ty::List(Box::new(Ty::Record(vec![Ty::U32, own.clone()]))),
            Val::List(vec![Val::Record(vec![Val::U(7), h(101)]), Val::Record(vec![Val::U(8), h(102)])]),
            "vec![R::RecThing { a: 7, h: R::Thing::new(101) }, R::RecThing { a: 8, h: R::Thing::new(102) }]",
        ),
    ];
    shapes
        .into_iter()
        .enumerate()
        .map(|(j, (label, t, v, build))| Sig {
            k: first_k + j,
            name: format!("o{j}"),
            params: vec![t],
            result: Some(Ty::U32),
            label: format!("({label})->u32"),
            res: true,
            expect: Some(Val::Record(vec![v])),
            build: build.to_string(),
        })
        .collect()
}

fn res_wit(t: &Ty) -> String {
    match t {
        Ty::Own(_) => "thing".into(),
        Ty::U32 => "u32".into(),
        Ty::String => "string".into(),
        Ty::Record(_) => "rec-thing".into(),
        Ty::List(e) => format!("list<{}>", res_wit(e)),
        Ty::Tuple(f) => format!("tuple<{}>", f.iter().map(res_wit).collect::<Vec<_>>().join(", ")),
        o => panic!("res_wit {o}"),
    }
}

pub struct World {
    pub wit: String,
    pub sigs: Vec<Sig>,
}

pub fn world(sigs: Vec<Sig>) -> World {
    let mut doc = refabi::wit::WitDoc::new();
    let mut lines = String::new();
    let mut rlines = String::new();
    for s in sigs.iter().filter(|s| s.res) {
        writeln!(rlines, "  {}: async func(x: {}) -> u32;", s.name, res_wit(&s.params[0])).unwrap();
    }
    for s in sigs.iter().filter(|s| !s.res) {
        let ps: Vec<String> = s.params.iter().enumerate().map(|(i, t)| format!("a{i}: {}", doc.expr(t))).collect();
        let r = s.result.as_ref().map(|t| format!(" -> {}", doc.expr(t))).unwrap_or_default();
        writeln!(lines, "  {}: async func({}){r};", s.name, ps.join(", ")).unwrap();
    }
    // type definitions come out of WitDoc's text (interface `i` up to its first function)
    let text = doc.text();
    let start = text.find("interface i {\n").expect("WitDoc layout") + "interface i {\n".len();
    let end = text.find("}\n\nworld w {").expect("WitDoc layout");
    let defs = &text[start..end];
    let wit = format!(
        "package t:t;\n\ninterface i {{\n{defs}{lines}}}\n\ninterface p {{\n  pause: async func();\n}}\n\ninterface d {{\n  drive: async func(k: u32);\n}}\n\ninterface r {{\n  resource thing {{\n    constructor(id: u32);\n  }}\n  record rec-thing {{ a: u32, h: thing }}\n{rlines}}}\n\nworld w {{\n  import i;\n  import p;\n  import r;\n  export i;\n  export d;\n}}\n"
    );
    World { wit, sigs }
}

/// `--async` directives of a variant (first match wins; everything not named is sync).
pub fn directives(v: Variant, sigs: &[Sig]) -> Vec<String> {
    let mut d = vec!["t:t/p#pause".to_string(), "t:t/d#drive".to_string()];
    for s in sigs {
        if s.res {
            if v.async_import() {
                d.push(format!("import:{RES_IFACE}#{}", s.name));
            }
            continue;
        }
        if v.async_import() {
            d.push(format!("import:{IFACE}#{}", s.name));
        }
        if v.async_export() {
            d.push(format!("export:{IFACE}#{}", s.name));
        }
    }
    d.push("-all".to_string());
    d
}

/// Values of a signature: parameter tuples and results paired index-wise (each-choice), at most
/// `cap` cases; every value of every position's alphabet (up to the cap) appears.
pub fn cases(s: &Sig, cap: usize) -> Vec<(Val, Val)> {
    if s.res {
        // one case: the parameter is built by the guest (`expect`), the reply is fixed
        return vec![(Val::Record(vec![]), Val::U(4242))];
    }
    let pvals: Vec<Vec<Val>> = s.params.iter().map(|t| spread(refabi::universe::values(t), cap)).collect();
    let rvals: Vec<Val> = match &s.result {
        Some(t) => spread(refabi::universe::values(t), cap),
        None => vec![Val::Record(vec![])],
    };
    let n = pvals.iter().map(|v| v.len()).chain([rvals.len()]).max().unwrap_or(1).min(cap).max(1);
    (0..n)
        .map(|i| {
            let p = Val::Record(pvals.iter().enumerate().map(|(j, v)| v[(i + j) % v.len()].clone()).collect());
            (p, rvals[i % rvals.len()].clone())
        })
        .collect()
}

/// At most `cap` values spread over the alphabet, the *last* (largest: 300-byte string, longest
/// list, alternating bit pattern) first, so that a single case is never the degenerate one.
fn spread(mut v: Vec<Val>, cap: usize) -> Vec<Val> {
    v.reverse();
    if v.len() <= cap {
        return v;
    }
    let n = v.len();
    (0..cap).map(|i| v[i * (n - 1) / (cap - 1).max(1)].clone()).collect()
}
