fn main() { e3_rust::check7::main() }
