fn main() {}
