fn main() { e3_rust::check56::main("C05") }
