fn main() { e3_rust::check8::main() }
