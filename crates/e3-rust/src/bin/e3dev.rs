//! Development helper: `e3dev gen <file.wit> [cfg]` prints generated bindings; `e3dev count` prints universe sizes.
use e3_rust::{gen, world};

fn main() {
    let a: Vec<String> = std::env::args().skip(1).collect();
    match a.first().map(|s| s.as_str()) {
        Some("count") => {
            for u in ["u1", "pairs", "quick", "u2", "u3r", "thorough"] {
                let t = refabi::universe::universe(u);
                let s = t.iter().filter(|t| world::supported(t)).count();
                let cases: usize = t.iter().filter(|t| world::supported(t)).map(|t| 2 * refabi::universe::values(t).len()).sum();
                println!("{u}: {} types, {s} supported, {cases} cases per configuration", t.len());
            }
        }
        Some("gen") => {
            let cfg = gen::Config::parse(a.get(2).map(|s| s.as_str()).unwrap_or("owning-std-nomerge-btreemap-str")).expect("cfg");
            let wit = std::fs::read_to_string(&a[1]).expect("wit file");
            let dirs: Vec<String> = a.iter().skip(3).cloned().collect();
            match gen::generate_async(&wit, &cfg, &dirs) {
                Ok(s) => println!("{s}"),
                Err(e) => {
                    eprintln!("{e}");
                    std::process::exit(1)
                }
            }
        }
        _ => eprintln!("usage: e3dev count | gen <file.wit> [cfg]"),
    }
}
