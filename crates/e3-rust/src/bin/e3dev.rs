//! Development helper: print the WIT / generated bindings of a small world.
use e3_rust::{gen, world};
use refabi::Ty;

fn main() {
    let a: Vec<String> = std::env::args().skip(1).collect();
    let cfg = gen::Config::parse(a.get(1).map(|s| s.as_str()).unwrap_or("owning-std-nomerge-btreemap-str")).expect("cfg");
    let types: Vec<Ty> = match a.get(2).map(|s| s.as_str()) {
        Some("sample") | None => vec![
            Ty::U8,
            Ty::String,
            Ty::List(Box::new(Ty::String)),
            Ty::Record(vec![Ty::U8, Ty::String]),
            Ty::Variant(vec![Some(Ty::F32), Some(Ty::U64), None]),
            Ty::Flags(33),
            Ty::Enum(3),
            Ty::Map(Box::new(Ty::String), Box::new(Ty::U32)),
            Ty::FixedList(Box::new(Ty::String), 2),
            Ty::Option(Box::new(Ty::Record(vec![Ty::U8, Ty::String]))),
            Ty::Tuple(vec![Ty::U8, Ty::List(Box::new(Ty::U8))]),
            Ty::List(Box::new(Ty::Record(vec![Ty::U8, Ty::String]))),
            Ty::Result(Some(Box::new(Ty::String)), Some(Box::new(Ty::Enum(3)))),
            Ty::Tuple(vec![Ty::U64; 9]),
        ],
        Some(u) => refabi::universe::universe(u),
    };
    let (chunks, _) = world::chunks(&types, 200);
    let c = &chunks[0];
    match a.first().map(|s| s.as_str()) {
        Some("wit") => println!("{}", c.wit),
        Some("gen") => match gen::generate(&c.wit, &cfg) {
            Ok(s) => println!("{s}"),
            Err(e) => {
                eprintln!("{e}");
                std::process::exit(1)
            }
        },
        _ => eprintln!("usage: e3dev wit|gen <cfg> <universe|sample>"),
    }
}
