//! Development helper: print the generated bindings of a WIT file (`e3dev <file.wit> [cfg]`).
use e3_rust::gen;

fn main() {
    let a: Vec<String> = std::env::args().skip(1).collect();
    let cfg = gen::Config::parse(a.get(1).map(|s| s.as_str()).unwrap_or("owning-std-nomerge-btreemap-str")).expect("cfg");
    let wit = std::fs::read_to_string(&a[0]).expect("wit file");
    match gen::generate(&wit, &cfg) {
        Ok(s) => println!("{s}"),
        Err(e) => {
            eprintln!("{e}");
            std::process::exit(1)
        }
    }
}
