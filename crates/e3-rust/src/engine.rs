//! Shared driver of C05 / C06: universe → chunk worlds → real generator → shim rewrite → harness →
//! cargo build → link → run every case in runner processes → per-case reports.

use crate::build::{self, CrateSpec, Workspace};
use crate::gen::{self, Config};
use crate::harness;
use crate::rewrite;
use crate::rsindex::Index;
use crate::runner::{self, CaseOutcome, SpecFunc};
use crate::world::{self, Chunk, Func};
use refabi::Ty;
use serde_json::{json, Value};
use std::collections::{BTreeMap, BTreeSet};
use std::path::PathBuf;
use std::sync::Mutex;

#[derive(Clone, Debug)]
pub struct Excluded {
    pub ty: Ty,
    pub cfg: String,
    /// `unsupported` (handles), `generator` (generator error), `harness` (Rust form not understood),
    /// `compile` (generated bindings do not compile)
    pub why: String,
    pub detail: String,
}

pub struct Prepared {
    pub cfg: Config,
    pub chunk_id: usize,
    pub member: String,
    pub funcs: Vec<Func>,
    pub so: PathBuf,
    pub spec_path: PathBuf,
    /// per function: expected core import missing from the generated text
    pub missing_imports: Vec<(usize, String)>,
}

pub struct Plan {
    pub tag: String,
    pub cfgs: Vec<Config>,
    pub types: Vec<Ty>,
    pub per_chunk: usize,
    pub jobs: usize,
}

struct Draft {
    cfg: Config,
    chunk_id: usize,
    member: String,
    types: Vec<Ty>,
    chunk: Option<Chunk>,
    bindings: String,
    user: String,
    missing_imports: Vec<(usize, String)>,
}

fn single_type_generates(t: &Ty, cfg: &Config) -> Result<(), String> {
    let c = world::build_chunk(0, std::slice::from_ref(t));
    gen::generate(&c.wit, cfg).map(|_| ())
}

/// Generate bindings + harness for a draft, excluding types until everything binds.
fn draft_generate(d: &mut Draft, excluded: &mut Vec<Excluded>) {
    loop {
        if d.types.is_empty() {
            d.chunk = None;
            return;
        }
        let chunk = world::build_chunk(d.chunk_id, &d.types);
        let bindings = match gen::generate(&chunk.wit, &d.cfg) {
            Ok(b) => b,
            Err(e) => {
                // find the offending types one by one
                let mut bad = Vec::new();
                for t in &d.types {
                    if let Err(e1) = single_type_generates(t, &d.cfg) {
                        bad.push((t.clone(), e1));
                    }
                }
                if bad.is_empty() {
                    vcommon::machinery(&format!(
                        "generator fails on chunk {} ({}) but on none of its types alone: {e}",
                        d.chunk_id,
                        d.cfg.name()
                    ));
                }
                for (t, e1) in bad {
                    d.types.retain(|x| *x != t);
                    excluded.push(Excluded { ty: t, cfg: d.cfg.name(), why: "generator".into(), detail: first_line(&e1) });
                }
                continue;
            }
        };
        let (rewritten, list) = rewrite::rewrite(&bindings).unwrap_or_else(|e| vcommon::machinery(&format!("shim rewrite: {e}")));
        // expected core imports (reference naming) vs what the generator declared
        let declared: BTreeSet<(String, String)> = list.iter().map(|r| (r.module.clone(), r.name.clone())).collect();
        let expected: BTreeSet<(String, String)> =
            chunk.funcs.iter().map(|f| (f.imp_module.clone(), f.imp_name.clone())).collect();
        let extra: Vec<_> = declared.difference(&expected).collect();
        if !extra.is_empty() {
            vcommon::machinery(&format!("generated bindings import {extra:?}, which the chunk world does not declare"));
        }
        d.missing_imports = chunk
            .funcs
            .iter()
            .filter(|f| !declared.contains(&(f.imp_module.clone(), f.imp_name.clone())))
            .map(|f| (f.k, format!("{}::{}", f.imp_module, f.imp_name)))
            .collect();
        let ix = Index::parse(&rewritten).unwrap_or_else(|e| vcommon::machinery(&e));
        let h = harness::generate(&ix, d.cfg, &chunk.funcs);
        if !h.skipped.is_empty() {
            let mut ks: BTreeMap<usize, String> = BTreeMap::new();
            for (k, why) in &h.skipped {
                ks.entry(*k).or_insert(why.clone());
            }
            for (k, why) in ks.iter().rev() {
                let t = chunk.funcs[*k].ty.clone();
                d.types.retain(|x| *x != t);
                excluded.push(Excluded { ty: t, cfg: d.cfg.name(), why: "harness".into(), detail: why.clone() });
            }
            continue;
        }
        d.bindings = rewritten;
        d.user = h.user_rs;
        d.chunk = Some(chunk);
        return;
    }
}

fn first_line(s: &str) -> String {
    s.lines().next().unwrap_or("").chars().take(300).collect()
}

/// Which function of the chunk does line `line` of `file` belong to?
fn func_at(d: &Draft, file: &str, line: usize) -> Option<usize> {
    let chunk = d.chunk.as_ref()?;
    let text = if file == "bindings.rs" { &d.bindings } else { &d.user };
    let lines: Vec<&str> = text.lines().collect();
    let mut i = line.min(lines.len()).saturating_sub(1);
    loop {
        let l = lines.get(i)?;
        for f in &chunk.funcs {
            let imp = f.imp_wit.replace('-', "_");
            let exp = f.exp_wit.replace('-', "_");
            let hits = [
                format!("pub fn {imp}("),
                format!("fn _export_{exp}_cabi"),
                format!("fn __post_return_{exp}<"),
                format!("fn run_imp_{}<", f.k),
                format!("    fn {exp}(x:"),
                format!("fn imp_shim_{}(", f.k),
            ];
            if hits.iter().any(|h| l.contains(h.as_str())) {
                return Some(f.k);
            }
        }
        if l.contains("fn tov_") || l.contains("fn fromv_") || l.contains("pub struct ") || l.contains("pub enum ") {
            return None;
        }
        if i == 0 {
            return None;
        }
        i -= 1;
    }
}

pub struct PrepareResult {
    pub prepared: Vec<Prepared>,
    pub excluded: Vec<Excluded>,
    pub build_secs: f64,
    pub gen_secs: f64,
}

pub fn prepare(plan: &Plan, known_uncompilable: &dyn Fn(&Ty, &Config) -> Option<&'static str>) -> PrepareResult {
    let t0 = std::time::Instant::now();
    let mut excluded: Vec<Excluded> = Vec::new();
    let mut drafts: Vec<Draft> = Vec::new();
    for cfg in &plan.cfgs {
        let mut ok: Vec<Ty> = Vec::new();
        for t in &plan.types {
            if !world::supported(t) {
                if *cfg == plan.cfgs[0] {
                    excluded.push(Excluded { ty: t.clone(), cfg: "*".into(), why: "unsupported".into(), detail: "handle types are decided by C07 / C08 / C19 / C20".into() });
                }
            } else if let Some(why) = known_uncompilable(t, cfg) {
                excluded.push(Excluded { ty: t.clone(), cfg: cfg.name(), why: "compile-known".into(), detail: why.into() });
            } else {
                ok.push(t.clone());
            }
        }
        let n = ok.len().div_ceil(plan.per_chunk).max(1);
        let mut parts: Vec<Vec<Ty>> = vec![Vec::new(); n];
        for (i, t) in ok.into_iter().enumerate() {
            parts[i % n].push(t);
        }
        for (i, p) in parts.into_iter().enumerate() {
            drafts.push(Draft {
                cfg: *cfg,
                chunk_id: i,
                member: format!("e3c_{}_{}_{}", plan.tag, cfg.short(), i),
                types: p,
                chunk: None,
                bindings: String::new(),
                user: String::new(),
                missing_imports: vec![],
            });
        }
    }
    for d in &mut drafts {
        draft_generate(d, &mut excluded);
    }
    let gen_secs = t0.elapsed().as_secs_f64();
    let t1 = std::time::Instant::now();
    let mut ws = Workspace::new(&plan.tag);
    let write = |ws: &mut Workspace, d: &Draft| {
        ws.add(&CrateSpec {
            name: d.member.clone(),
            bindings: d.bindings.clone(),
            user: d.user.clone(),
            extra_files: vec![],
            wit_bindgen_features: vec!["std", "bitflags"],
        });
    };
    for d in &drafts {
        if d.chunk.is_some() {
            write(&mut ws, d);
        }
    }
    ws.finish_manifest();
    // build, excluding functions whose generated code does not compile (at most 4 rounds)
    for round in 0.. {
        match ws.build(&[], plan.jobs) {
            Ok(()) => break,
            Err(stderr) => {
                if round >= 4 {
                    vcommon::machinery(&format!("chunk crates still do not compile after 4 exclusion rounds:\n{}", tail(&stderr, 3000)));
                }
                let locs = build::error_locations(&stderr);
                if locs.is_empty() {
                    vcommon::machinery(&format!("cargo build of the chunk crates failed:\n{}", tail(&stderr, 3000)));
                }
                let mut touched: BTreeSet<usize> = BTreeSet::new();
                for (member, file, line, msg) in locs {
                    let Some(di) = drafts.iter().position(|d| d.member == member) else {
                        vcommon::machinery(&format!("compile error outside the chunk crates: {msg}"));
                    };
                    match func_at(&drafts[di], &file, line) {
                        Some(k) => {
                            let t = drafts[di].chunk.as_ref().unwrap().funcs[k].ty.clone();
                            if drafts[di].types.contains(&t) {
                                drafts[di].types.retain(|x| *x != t);
                                excluded.push(Excluded { ty: t, cfg: drafts[di].cfg.name(), why: "compile".into(), detail: msg.chars().take(400).collect() });
                                touched.insert(di);
                            }
                        }
                        None => vcommon::machinery(&format!("compile error that cannot be attributed to one function of the chunk: {msg}\n{}", tail(&stderr, 2500))),
                    }
                }
                for di in touched {
                    draft_generate(&mut drafts[di], &mut excluded);
                    if drafts[di].chunk.is_some() {
                        // re-add overwrites the files
                        let d = &drafts[di];
                        let mut tmp = Workspace { root: ws.root.clone(), members: vec![] };
                        write(&mut tmp, d);
                    }
                }
            }
        }
    }
    // link
    let mut prepared = Vec::new();
    let results: Mutex<Vec<(usize, Result<PathBuf, String>)>> = Mutex::new(Vec::new());
    let idx: Vec<usize> = (0..drafts.len()).filter(|i| drafts[*i].chunk.is_some()).collect();
    let next = std::sync::atomic::AtomicUsize::new(0);
    std::thread::scope(|s| {
        let (idx, next, results, ws, drafts) = (&idx, &next, &results, &ws, &drafts);
        for _ in 0..plan.jobs.min(idx.len()).max(1) {
            s.spawn(move || loop {
                let n = next.fetch_add(1, std::sync::atomic::Ordering::Relaxed);
                if n >= idx.len() {
                    break;
                }
                let di = idx[n];
                let r = ws.link(&drafts[di].member);
                results.lock().unwrap().push((di, r));
            });
        }
    });
    let mut linked: BTreeMap<usize, PathBuf> = BTreeMap::new();
    for (di, r) in results.into_inner().unwrap() {
        match r {
            Ok(p) => {
                linked.insert(di, p);
            }
            Err(e) => vcommon::machinery(&e),
        }
    }
    for (di, d) in drafts.iter().enumerate() {
        let Some(chunk) = &d.chunk else { continue };
        let so = linked[&di].clone();
        let spec: Vec<SpecFunc> = chunk
            .funcs
            .iter()
            .map(|f| SpecFunc { k: f.k, ty: f.ty.clone(), exp_sym: f.exp_sym.clone(), post_sym: f.post_sym.clone() })
            .collect();
        let spec_path = ws.root.join(&d.member).join("spec.json");
        build::write_if_different(&spec_path, &serde_json::to_string(&runner::spec_json(&spec)).unwrap());
        prepared.push(Prepared {
            cfg: d.cfg,
            chunk_id: d.chunk_id,
            member: d.member.clone(),
            funcs: chunk.funcs.clone(),
            so,
            spec_path,
            missing_imports: d.missing_imports.clone(),
        });
    }
    PrepareResult { prepared, excluded, build_secs: t1.elapsed().as_secs_f64(), gen_secs }
}

fn tail(s: &str, n: usize) -> String {
    if s.len() <= n {
        return s.to_string();
    }
    let mut at = s.len() - n;
    while !s.is_char_boundary(at) {
        at += 1;
    }
    s[at..].to_string()
}

pub struct ChunkResult {
    pub pi: usize,
    pub cases: Vec<runner::Case>,
    pub outcomes: Vec<CaseOutcome>,
}

/// Run every prepared chunk (in parallel runner processes).
pub fn run_all(prepared: &[Prepared], workers: usize) -> Vec<ChunkResult> {
    let results: Mutex<Vec<ChunkResult>> = Mutex::new(Vec::new());
    let next = std::sync::atomic::AtomicUsize::new(0);
    std::thread::scope(|s| {
        let (next, results) = (&next, &results);
        for _ in 0..workers.min(prepared.len()).max(1) {
            s.spawn(move || loop {
                let pi = next.fetch_add(1, std::sync::atomic::Ordering::Relaxed);
                if pi >= prepared.len() {
                    break;
                }
                let p = &prepared[pi];
                let spec: Vec<SpecFunc> = p
                    .funcs
                    .iter()
                    .map(|f| SpecFunc { k: f.k, ty: f.ty.clone(), exp_sym: f.exp_sym.clone(), post_sym: f.post_sym.clone() })
                    .collect();
                let cases = runner::cases(&spec);
                let outcomes = runner::run_chunk(&p.so.to_string_lossy(), &p.spec_path.to_string_lossy(), cases.len())
                    .unwrap_or_else(|e| vcommon::machinery(&format!("chunk {} ({}): {e}", p.member, p.cfg.name())));
                results.lock().unwrap().push(ChunkResult { pi, cases, outcomes });
            });
        }
    });
    let mut v = results.into_inner().unwrap();
    v.sort_by_key(|r| r.pi);
    v
}

/// Coarse value class for violation keys: the case of a variant-like value, the length of a
/// list / string / map, the value itself for scalars, `_` otherwise.
pub fn val_class(t: &Ty, v: &refabi::Val) -> String {
    use refabi::Val;
    match (t, v) {
        (Ty::Variant(_) | Ty::Option(_) | Ty::Result(..) | Ty::Enum(_), Val::Variant(i, _)) => format!("case{i}"),
        (_, Val::List(xs)) => format!("len{}", xs.len()),
        (_, Val::Map(xs)) => format!("len{}", xs.len()),
        (_, Val::Str(s)) => format!("len{}", s.len()),
        (_, Val::Record(_)) => "_".to_string(),
        (_, Val::Flags(b)) => {
            let set: Vec<usize> = b.iter().enumerate().filter(|(_, x)| **x).map(|(i, _)| i).collect();
            match set.len() {
                0 => "none".to_string(),
                1 => format!("bit{}", set[0]),
                n if n == b.len() => "all".to_string(),
                n => format!("bits{n}"),
            }
        }
        (_, v) => v.to_string(),
    }
}

pub fn excluded_json(ex: &[Excluded]) -> Value {
    let mut by: BTreeMap<String, Vec<Value>> = BTreeMap::new();
    for e in ex {
        by.entry(e.why.clone()).or_default().push(json!({"type": e.ty.to_string(), "cfg": e.cfg, "detail": e.detail}));
    }
    let mut o = serde_json::Map::new();
    for (k, v) in by {
        let n = v.len();
        let mut types: BTreeSet<String> = BTreeSet::new();
        for x in &v {
            types.insert(x["type"].as_str().unwrap().to_string());
        }
        o.insert(k, json!({"count": n, "distinct_types": types.len(), "first": v.into_iter().take(40).collect::<Vec<_>>()}));
    }
    Value::Object(o)
}
