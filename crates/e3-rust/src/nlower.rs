//! Lowering a `Val` into memory whose blocks come from an external allocator (the guest's global
//! allocator, standing in for `cabi_realloc`). `refabi::abi::store` / `lower_flat` work on a
//! bump-allocated `RefMem` and cannot be used directly because the receiver frees every heap
//! buffer individually; `store_n` / `lower_flat_n` are written from the same `CanonicalABI.md`
//! definitions, and [`self_check`] compares them with the reference functions
//! (`abi::canon_mem` on both memories, flat values modulo pointer slots) on every (type, value)
//! the engine sends — a disagreement is a machinery error.
//!
//! Lifting needs nothing new: `abi::load` / `abi::lift_flat` run on any `MemRead`.
//!
//! Zero-sized buffers are not allocated: the pointer is `align` (what
//! `cabi_realloc(0, 0, align, 0)` returns in crates/guest-rust/src/rt/mod.rs).

use refabi::abi::{
    self, alignment, discriminant_size, flatten_variant_payload, map_entry, payload_offset, record_layout, size,
    CoreTy, CoreVal, MemRead, Width,
};
use refabi::{Ty, Val};

pub const W: Width = Width::W8;

pub trait NMem: MemRead {
    /// fresh block, `size > 0`
    fn alloc(&mut self, size: u64, align: u64) -> u64;
    fn write(&mut self, addr: u64, data: &[u8]);
}

fn le(x: u64, n: u64) -> Vec<u8> {
    x.to_le_bytes()[..n as usize].to_vec()
}

fn alloc_or_dangling(m: &mut dyn NMem, size: u64, align: u64) -> u64 {
    if size == 0 {
        align
    } else {
        m.alloc(size, align)
    }
}

fn store_array_n(m: &mut dyn NMem, xs: &[Val], e: &Ty) -> u64 {
    let es = size(e, W);
    let p = alloc_or_dangling(m, xs.len() as u64 * es, alignment(e, W));
    for (i, x) in xs.iter().enumerate() {
        store_n(m, x, e, p + i as u64 * es);
    }
    p
}

fn map_as_list(es: &[(Val, Val)]) -> Vec<Val> {
    es.iter().map(|(a, b)| Val::Record(vec![a.clone(), b.clone()])).collect()
}

pub fn store_n(m: &mut dyn NMem, v: &Val, t: &Ty, ptr: u64) {
    let pw = W.bytes();
    assert_eq!(ptr % alignment(t, W), 0, "store_n: misaligned {t}");
    match (t, v) {
        (Ty::Bool, Val::Bool(b)) => m.write(ptr, &[*b as u8]),
        (Ty::U8 | Ty::U16 | Ty::U32 | Ty::U64, Val::U(x)) => m.write(ptr, &le(*x, size(t, W))),
        (Ty::S8 | Ty::S16 | Ty::S32 | Ty::S64, Val::S(x)) => m.write(ptr, &le(*x as u64, size(t, W))),
        (Ty::F32, Val::F32(b)) => m.write(ptr, &le(*b as u64, 4)),
        (Ty::F64, Val::F64(b)) => m.write(ptr, &le(*b, 8)),
        (Ty::Char, Val::Char(c)) => m.write(ptr, &le(*c as u64, 4)),
        (Ty::String, Val::Str(s)) => {
            let p = alloc_or_dangling(m, s.len() as u64, 1);
            m.write(p, s.as_bytes());
            m.write(ptr, &le(p, pw));
            m.write(ptr + pw, &le(s.len() as u64, pw));
        }
        (Ty::List(e), Val::List(xs)) => {
            let p = store_array_n(m, xs, e);
            m.write(ptr, &le(p, pw));
            m.write(ptr + pw, &le(xs.len() as u64, pw));
        }
        (Ty::Map(k, x), Val::Map(es)) => {
            let p = store_array_n(m, &map_as_list(es), &map_entry(k, x));
            m.write(ptr, &le(p, pw));
            m.write(ptr + pw, &le(es.len() as u64, pw));
        }
        (Ty::FixedList(e, n), Val::List(xs)) => {
            assert_eq!(xs.len(), *n as usize);
            let es = size(e, W);
            for (i, x) in xs.iter().enumerate() {
                store_n(m, x, e, ptr + i as u64 * es);
            }
        }
        (Ty::Record(f) | Ty::Tuple(f), Val::Record(xs)) => {
            let (offs, _, _) = record_layout(f, W);
            for ((ft, x), o) in f.iter().zip(xs).zip(offs) {
                store_n(m, x, ft, ptr + o);
            }
        }
        (Ty::Variant(_) | Ty::Enum(_) | Ty::Option(_) | Ty::Result(..), Val::Variant(i, p)) => {
            let cases = t.cases().unwrap();
            m.write(ptr, &le(*i as u64, discriminant_size(cases.len())));
            if let (Some(ct), Some(p)) = (&cases[*i as usize], p) {
                store_n(m, p, ct, ptr + payload_offset(t, W));
            }
        }
        (Ty::Flags(n), Val::Flags(bits)) => {
            assert_eq!(bits.len(), *n as usize);
            let mut i = 0u128;
            for (k, b) in bits.iter().enumerate() {
                if *b {
                    i |= 1 << k;
                }
            }
            m.write(ptr, &i.to_le_bytes()[..size(t, W) as usize]);
        }
        (Ty::Own(_) | Ty::Borrow(_) | Ty::Future(_) | Ty::Stream(_) | Ty::ErrorContext, Val::Handle(h)) => {
            m.write(ptr, &le(*h as u64, 4))
        }
        _ => panic!("store_n: ill-typed {v} for {t}"),
    }
}

pub fn lower_flat_n(m: &mut dyn NMem, v: &Val, t: &Ty) -> Vec<CoreVal> {
    match (t, v) {
        (Ty::String, Val::Str(s)) => {
            let p = alloc_or_dangling(m, s.len() as u64, 1);
            m.write(p, s.as_bytes());
            vec![CoreVal::ptr(W, p), CoreVal::ptr(W, s.len() as u64)]
        }
        (Ty::List(e), Val::List(xs)) => {
            let p = store_array_n(m, xs, e);
            vec![CoreVal::ptr(W, p), CoreVal::ptr(W, xs.len() as u64)]
        }
        (Ty::Map(k, x), Val::Map(es)) => {
            let p = store_array_n(m, &map_as_list(es), &map_entry(k, x));
            vec![CoreVal::ptr(W, p), CoreVal::ptr(W, es.len() as u64)]
        }
        (Ty::FixedList(e, _), Val::List(xs)) => xs.iter().flat_map(|x| lower_flat_n(m, x, e)).collect(),
        (Ty::Record(f) | Ty::Tuple(f), Val::Record(xs)) => {
            f.iter().zip(xs).flat_map(|(t, x)| lower_flat_n(m, x, t)).collect()
        }
        (Ty::Variant(_) | Ty::Enum(_) | Ty::Option(_) | Ty::Result(..), Val::Variant(i, p)) => {
            let cases = t.cases().unwrap();
            let joined = flatten_variant_payload(&cases, W);
            let mut out = vec![CoreVal::i32(*i)];
            let mut k = 0;
            if let (Some(ct), Some(p)) = (&cases[*i as usize], p) {
                for fv in lower_flat_n(m, p, ct) {
                    // join casts are the identity on bit patterns (i32→i64 zero-extends)
                    out.push(CoreVal { ty: joined[k], bits: fv.bits });
                    k += 1;
                }
            }
            for want in &joined[k..] {
                out.push(CoreVal { ty: *want, bits: 0 });
            }
            out
        }
        // everything without heap data: the reference function itself (it never touches memory)
        _ => {
            let mut scratch = abi::RefMem::new(W, 0x1000, 0);
            abi::lower_flat(&mut scratch, v, t)
        }
    }
}

/// A trivial `NMem` over a private byte array, used by the self check only.
struct ArrMem {
    base: u64,
    bytes: Vec<u8>,
}
impl MemRead for ArrMem {
    fn read(&self, addr: u64, len: u64) -> Result<Vec<u8>, String> {
        if len == 0 {
            return Ok(vec![]);
        }
        if addr < self.base || addr + len > self.base + self.bytes.len() as u64 {
            return Err("oob".into());
        }
        let o = (addr - self.base) as usize;
        Ok(self.bytes[o..o + len as usize].to_vec())
    }
}
impl NMem for ArrMem {
    fn alloc(&mut self, size: u64, align: u64) -> u64 {
        let end = self.base + self.bytes.len() as u64;
        let start = abi::align_to(end + 1, align);
        self.bytes.resize((start + size - self.base) as usize, 0xEE);
        start
    }
    fn write(&mut self, addr: u64, data: &[u8]) {
        if data.is_empty() {
            return;
        }
        let o = (addr - self.base) as usize;
        self.bytes[o..o + data.len()].copy_from_slice(data);
    }
}

/// `store_n` / `lower_flat_n` must produce the same encoding as the reference `abi::store` /
/// `abi::lower_flat` (pointer values abstracted).
pub fn self_check(t: &Ty, v: &Val) -> Result<(), String> {
    // memory form
    let mut r = abi::RefMem::new(W, 0x10000, 0xAA);
    let rp = r.alloc(size(t, W), alignment(t, W));
    abi::store(&mut r, v, t, rp);
    let mut n = ArrMem { base: 0x20000, bytes: vec![] };
    let np = alloc_or_dangling(&mut n, size(t, W).max(1), alignment(t, W).max(1));
    store_n(&mut n, v, t, np);
    let a = abi::canon_mem(&r, W, rp, t)?;
    let b = abi::canon_mem(&n, W, np, t)?;
    if a != b {
        return Err(format!("store_n disagrees with abi::store on {t} / {v}"));
    }
    // flat form
    let mut r = abi::RefMem::new(W, 0x10000, 0xAA);
    let rf = abi::lower_flat(&mut r, v, t);
    let mut n = ArrMem { base: 0x20000, bytes: vec![] };
    let nf = lower_flat_n(&mut n, v, t);
    if rf.len() != nf.len() {
        return Err(format!("lower_flat_n arity differs on {t} / {v}"));
    }
    let ptrs: Vec<usize> = abi::flat_pointer_slots(t, v, W).iter().map(|s| s.0).collect();
    for (i, (x, y)) in rf.iter().zip(&nf).enumerate() {
        if x.ty != y.ty || (!ptrs.contains(&i) && x.bits != y.bits) {
            return Err(format!("lower_flat_n slot {i} differs on {t} / {v}"));
        }
    }
    let mut it = abi::FlatIter { vals: &nf, pos: 0 };
    let back = abi::lift_flat(&n, W, &mut it, t)?;
    if !refabi::val_eq(&back, v) {
        return Err(format!("lower_flat_n does not lift back on {t} / {v}"));
    }
    Ok(())
}

pub fn core_ty_name(t: CoreTy) -> &'static str {
    match t {
        CoreTy::I32 => "i32",
        CoreTy::I64 => "i64",
        CoreTy::F32 => "f32",
        CoreTy::F64 => "f64",
    }
}
