//! C08 guest user code for one binding variant: `Guest` impls (sync or async per variant), the
//! driver export that performs the guest's import calls inside a task, trampolines and import
//! symbol definitions with the reference core signatures, and forwarding definitions of the
//! canonical built-ins the async runtime links against (hook H1 turns them into C symbols).

use crate::c8_world::{callback_sig, Sig, Variant, IFACE, RES_IFACE};
use crate::gen::Config;
use crate::harness::{shim_def, tramp_arm, Gen};
use crate::rsindex::{Index, ModPath};
use refabi::abi::{CoreSig, CoreTy};
use std::fmt::Write;

pub const IDX_TASK_RETURN: usize = 1000;
pub const IDX_PAUSE: usize = 2000;
pub const IDX_DRIVE_RETURN: usize = 2001;
pub const IDX_ASK: usize = 2002;
pub const IDX_RES_CTOR: usize = 2003;
pub const IDX_RES_DROP: usize = 2004;
pub const IDX_BUILTIN: usize = 3000;
pub const ARM_CALLBACK: usize = 9000;
pub const ARM_DRIVE: usize = 9001;

/// Canonical built-ins of the async runtime: `(symbol, parameter count, returns a value)`; all
/// arguments and results fit a `u64` slot (integers and pointers).
pub const BUILTINS: &[(&str, usize, bool)] = &[
    ("[waitable-set-new]", 0, true),
    ("[waitable-set-drop]", 1, false),
    ("[waitable-join]", 2, false),
    ("[waitable-set-wait]", 2, true),
    ("[waitable-set-poll]", 2, true),
    ("[context-get-0]", 0, true),
    ("[context-set-0]", 1, false),
    ("[thread-yield]", 0, true),
    ("[backpressure-inc]", 0, false),
    ("[backpressure-dec]", 0, false),
    ("[task-cancel]", 0, false),
    ("[subtask-cancel]", 1, true),
    ("[subtask-drop]", 1, false),
    ("wasip3_task_set", 1, true),
    ("[error-context-new-utf8]", 2, true),
    ("[error-context-drop]", 1, false),
    ("[error-context-debug-message-utf8]", 2, false),
];

fn builtin_shims() -> String {
    let mut s = String::new();
    for (i, (name, n, ret)) in BUILTINS.iter().enumerate() {
        let params: Vec<String> = (0..*n).map(|k| format!("a{k}: usize")).collect();
        let args: Vec<String> = (0..*n).map(|k| format!("a{k} as u64")).collect();
        // `[thread-yield]` returns a bool, `[context-get-0]` a pointer, the rest u32: all are
        // returned in the integer return register; usize covers them
        let (rt, re) = if *ret { (" -> usize", "r as usize") } else { ("", "let _ = r;") };
        writeln!(
            s,
            "#[unsafe(export_name = \"{name}\")]\nunsafe extern \"C\" fn builtin_{i}({}){rt} {{\n    let args: [u64; {n}] = [{}];\n    let r = rt::dispatch({}, &args);\n    {re}\n}}",
            params.join(", "),
            args.join(", "),
            IDX_BUILTIN + i
        )
        .unwrap();
    }
    s
}

pub fn generate(ix: &Index, cfg: Config, v: Variant, sigs: &[Sig]) -> Result<String, String> {
    let mut g = Gen::new(ix, cfg);
    let imp_mod: ModPath = vec!["t".into(), "t".into(), "i".into()];
    let exp_mod: ModPath = vec!["exports".into(), "t".into(), "t".into(), "i".into()];
    let mut methods = String::new();
    let mut drivers = String::new();
    let mut drive_arms = String::new();
    let mut arms = String::new();
    let mut shims = String::new();
    let unit: syn::Type = syn::parse_str("()").unwrap();
    for s in sigs.iter().filter(|s| s.res) {
        // owned handles of the imported resource in the parameter of an (async) import: the
        // guest builds the value itself; at every pending poll of the call future the host's
        // explorer decides whether the guest drops the future (cancel before / after start)
        let name = &s.name;
        let isig = ix.fns.get(&(vec!["t".to_string(), "t".to_string(), "r".to_string()], name.clone())).ok_or_else(|| format!("import {name}: function not found"))?;
        if isig.is_async != v.async_import() {
            return Err(format!("import {name}: async={} but variant {} expects {}", isig.is_async, v.name(), v.async_import()));
        }
        let body = if v.async_import() {
            format!(
                "    let mut fut = Box::pin(R::{name}(x));\n    let r = std::future::poll_fn(|cx| match fut.as_mut().poll(cx) {{\n        std::task::Poll::Ready(v) => std::task::Poll::Ready(Some(v)),\n        std::task::Poll::Pending => if rt::ask(2) == 1 {{ std::task::Poll::Ready(None) }} else {{ std::task::Poll::Pending }},\n    }}).await;\n    drop(fut);\n    if let Some(v) = r {{ rt::observe(&V::U(v as u64)); }}"
            )
        } else {
            format!("    let r = R::{name}(x);\n    rt::observe(&V::U(r as u64));")
        };
        writeln!(
            drivers,
            "#[allow(unused)]\nasync fn run_imp_{k}() {{\n    use crate::bindings::t::t::r as R;\n    use std::future::Future;\n    let x = {};\n{body}\n}}",
            s.build,
            k = s.k
        )
        .unwrap();
        writeln!(drive_arms, "            {} => run_imp_{}().await,", s.k, s.k).unwrap();
        if v.async_import() {
            shims.push_str(&shim_def(s.k, RES_IFACE, &format!("[async-lower]{name}"), &s.import_sig(true)));
        } else {
            shims.push_str(&shim_def(s.k, RES_IFACE, name, &s.import_sig(false)));
        }
    }
    for s in sigs.iter().filter(|s| !s.res) {
        let name = &s.name;
        // ---- export
        let tsig = ix
            .traits
            .get(&(exp_mod.clone(), "Guest".to_string()))
            .and_then(|ms| ms.iter().find(|(n, _)| n == name).map(|(_, f)| f.clone()))
            .ok_or_else(|| format!("export {name}: no such method in trait Guest"))?;
        if tsig.is_async != v.async_export() {
            return Err(format!("export {name}: async={} but variant {} expects {}", tsig.is_async, v.name(), v.async_export()));
        }
        if tsig.params.len() != s.params.len() {
            return Err(format!("export {name}: {} parameters", tsig.params.len()));
        }
        let mut ptys = Vec::new();
        let mut tos = Vec::new();
        let mut drops = String::new();
        for (i, (pt, (_, rt))) in s.params.iter().zip(&tsig.params).enumerate() {
            let c = g.conv(&exp_mod, pt, rt).map_err(|e| format!("export {name}: {e}"))?;
            ptys.push(format!("a{i}: {}", c.rty));
            tos.push(c.to_v(&format!("(&a{i})")));
            write!(drops, "drop(a{i}); ").unwrap();
        }
        let (rty, ret_expr) = match &s.result {
            None => ("()".to_string(), "()".to_string()),
            Some(t) => {
                let c = g.conv(&exp_mod, t, tsig.ret.as_ref().unwrap_or(&unit)).map_err(|e| format!("export {name}: {e}"))?;
                (c.rty.clone(), c.from_v("rt::reply()"))
            }
        };
        let (kw, pause) = if v.async_export() {
            ("async ", "if rt::flags() & 1 != 0 { crate::bindings::t::t::p::pause().await; }")
        } else {
            ("", "")
        };
        writeln!(
            methods,
            "    {kw}fn {name}({}) -> {rty} {{\n        let arena = Arena::new(); let a = &arena; let _ = a;\n        rt::case().export_calls += 1;\n        rt::observe(&V::Rec(vec![{}]));\n        {drops}\n        {pause}\n        {ret_expr}\n    }}",
            ptys.join(", "),
            tos.join(", ")
        )
        .unwrap();
        arms.push_str(&tramp_arm(s.k, &s.export_sig(v.async_export())));

        // ---- import driver
        let isig = ix.fns.get(&(imp_mod.clone(), name.clone())).ok_or_else(|| format!("import {name}: function not found"))?;
        if isig.is_async != v.async_import() {
            return Err(format!("import {name}: async={} but variant {} expects {}", isig.is_async, v.name(), v.async_import()));
        }
        let mut args = Vec::new();
        for (i, (pt, (_, rt))) in s.params.iter().zip(&isig.params).enumerate() {
            let c = g.conv(&imp_mod, pt, rt).map_err(|e| format!("import {name}: {e}"))?;
            args.push(c.from_v(&format!("(&f[{i}])")));
        }
        let (rty, obs) = match &s.result {
            None => ("()".to_string(), "V::Rec(vec![])".to_string()),
            Some(t) => {
                let c = g.conv(&imp_mod, t, isig.ret.as_ref().unwrap_or(&unit)).map_err(|e| format!("import {name}: {e}"))?;
                (c.rty.clone(), c.to_v("(&r)"))
            }
        };
        let aw = if v.async_import() { ".await" } else { "" };
        writeln!(
            drivers,
            "#[allow(unused)]\nasync fn run_imp_{k}() {{\n    let arena = Arena::new(); let a = &arena; let _ = a;\n    let f = rt::param().as_rec();\n    let r: {rty} = crate::bindings::t::t::i::{name}({}){aw};\n    rt::observe(&{obs});\n}}",
            args.join(", "),
            k = s.k
        )
        .unwrap();
        writeln!(drive_arms, "            {} => run_imp_{}().await,", s.k, s.k).unwrap();

        // ---- import symbols with the reference signatures
        if v.async_import() {
            shims.push_str(&shim_def(s.k, IFACE, &format!("[async-lower]{name}"), &s.import_sig(true)));
        } else {
            shims.push_str(&shim_def(s.k, IFACE, name, &s.import_sig(false)));
        }
        if v.async_export() {
            shims.push_str(&shim_def(IDX_TASK_RETURN + s.k, &format!("[export]{IFACE}"), &format!("[task-return]{name}"), &s.task_return_sig()));
        }
    }
    let none_to_i32 = CoreSig { params: vec![], results: vec![CoreTy::I32], params_indirect: false, result_indirect: false };
    let nothing = CoreSig { params: vec![], results: vec![], params_indirect: false, result_indirect: false };
    shims.push_str(&shim_def(IDX_PAUSE, "t:t/p", "[async-lower]pause", &none_to_i32));
    let i32_to_i32 = CoreSig { params: vec![CoreTy::I32], results: vec![CoreTy::I32], params_indirect: false, result_indirect: false };
    let i32_to_none = CoreSig { params: vec![CoreTy::I32], results: vec![], params_indirect: false, result_indirect: false };
    shims.push_str(&shim_def(IDX_RES_CTOR, RES_IFACE, "[constructor]thing", &i32_to_i32));
    shims.push_str(&shim_def(IDX_RES_DROP, RES_IFACE, "[resource-drop]thing", &i32_to_none));
    shims.push_str(&shim_def(IDX_DRIVE_RETURN, "[export]t:t/d", "[task-return]drive", &nothing));
    arms.push_str(&tramp_arm(ARM_CALLBACK, &callback_sig()));
    arms.push_str(&tramp_arm(
        ARM_DRIVE,
        &CoreSig { params: vec![CoreTy::I32], results: vec![CoreTy::I32], params_indirect: false, result_indirect: false },
    ));

    let mut s = String::new();
    s.push_str("// generated by e3-rust/src/c8_harness.rs\n#![allow(unused, unused_unsafe, clippy::all)]\n");
    s.push_str("use crate::rt::{self, Arena, V};\n\npub struct Component;\n\n");
    writeln!(s, "impl crate::bindings::exports::t::t::i::Guest for Component {{\n{methods}}}\n").unwrap();
    writeln!(
        s,
        "impl crate::bindings::exports::t::t::d::Guest for Component {{\n    async fn drive(k: u32) {{\n        match k {{\n{drive_arms}            _ => rt::no_func(k),\n        }}\n    }}\n}}\n"
    )
    .unwrap();
    s.push_str("crate::bindings::export!(Component with_types_in crate::bindings);\n\n");
    s.push_str(&g.helper_fns());
    s.push_str(&drivers);
    writeln!(
        s,
        "\n#[no_mangle]\npub unsafe extern \"C\" fn verif_run_import(_k: u32) {{}}\n\n#[no_mangle]\npub unsafe extern \"C\" fn verif_call_export(k: u32, fp: *const (), args: *const u64, ret: *mut u64) {{\n    match k {{\n{arms}        _ => rt::no_func(k),\n    }}\n}}\n"
    )
    .unwrap();
    s.push_str(&shims);
    s.push_str(&builtin_shims());
    Ok(s)
}
