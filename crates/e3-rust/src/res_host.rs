//! C07 host: reference handle-table model of the component model's resource built-ins (own vs
//! borrow, lend counts, transfer on lift of `own`, borrow handles scoped to an export call, `rep`
//! table of the exported resources, destructor call when the last owning handle goes away) and
//! the operations the explorer composes into histories.
//!
//! Handle indices are never reused, so that any use of a handle after it was dropped or given
//! away is seen (the spec's free list would let a stale index alias a newer handle; a guest
//! cannot rely on index values, so this host is a conforming one).

use crate::host::{dlsym, GuestMem, Lib};
use crate::nlower::{self, W};
use crate::res_world::{RFunc, Shape, Side, World, BORROW_SHAPES, CELL, FCELL, OWN_SHAPES, THING};
use refabi::abi::{self, CoreTy, CoreVal};
use refabi::{Ty, Val};
use serde_json::{json, Value};
use std::collections::{BTreeMap, BTreeSet, VecDeque};

#[derive(Clone, Debug)]
struct Entry {
    res: u32,
    own: bool,
    /// thing id, or cell representation pointer
    obj: u64,
    lend: u32,
    alive: bool,
}

#[derive(Clone, Debug)]
struct CellInfo {
    id: u32,
    res: u32,
    destroyed: bool,
}

pub struct State {
    table: Vec<Entry>,
    /// thing id → still alive (not yet destroyed by the host)
    things: BTreeMap<u32, bool>,
    cells: BTreeMap<u64, CellInfo>,
    pending_ids: VecDeque<u32>,
    /// ids in the order the host ran destructors
    destroyed: Vec<u32>,
    pub viol: Vec<(String, String)>,
    /// name of the operation in flight (for violation keys)
    op: String,
}

static mut HOST: Option<RHost> = None;


pub struct RHost {
    pub lib: Lib,
    pub w: World,
    pub st: State,
    live_cells: unsafe extern "C" fn() -> u32,
    destroyed_log: unsafe extern "C" fn(*mut u32, usize) -> usize,
    reset_guest: unsafe extern "C" fn(),
}

fn host() -> &'static mut RHost {
    unsafe { (*(&raw mut HOST)).as_mut().expect("resource host not installed") }
}

impl State {
    fn new() -> State {
        State {
            table: vec![Entry { res: 99, own: false, obj: 0, lend: 0, alive: false }],
            things: BTreeMap::new(),
            cells: BTreeMap::new(),
            pending_ids: VecDeque::new(),
            destroyed: Vec::new(),
            viol: Vec::new(),
            op: String::new(),
        }
    }
    fn violate(&mut self, kind: &str, msg: String) {
        let key = format!("{kind}:{}", self.op);
        if !self.viol.iter().any(|v| v.0 == key) {
            self.viol.push((key, msg));
        }
    }
    fn add(&mut self, res: u32, own: bool, obj: u64) -> u32 {
        self.table.push(Entry { res, own, obj, lend: 0, alive: true });
        (self.table.len() - 1) as u32
    }
    fn res_name(res: u32) -> &'static str {
        match res {
            THING => "thing",
            CELL => "cell",
            FCELL => "fcell",
            _ => "?",
        }
    }
    /// `get` of the spec: the handle must be in the table and of the right resource type.
    fn get(&mut self, h: u32, res: u32, what: &str) -> Option<usize> {
        let i = h as usize;
        match self.table.get(i) {
            Some(e) if e.alive && e.res == res => Some(i),
            Some(e) if !e.alive && i != 0 => {
                self.violate(
                    "stale-handle",
                    format!("{what}: handle {h} ({}) was already dropped or given away (use after transfer / double drop)", Self::res_name(e.res)),
                );
                None
            }
            Some(e) if e.alive => {
                self.violate("wrong-type", format!("{what}: handle {h} is a {}, not a {}", Self::res_name(e.res), Self::res_name(res)));
                None
            }
            _ => {
                self.violate("unknown-handle", format!("{what}: handle {h} was never given to the guest"));
                None
            }
        }
    }
    /// `lift_own`: the guest gives an owning handle away.
    fn lift_own(&mut self, h: u32, res: u32, what: &str) -> Option<u64> {
        let i = self.get(h, res, what)?;
        let e = self.table[i].clone();
        if !e.own {
            self.violate("borrow-as-own", format!("{what}: handle {h} is a borrow but was passed / dropped as an owning handle"));
            return None;
        }
        if e.lend != 0 {
            self.violate("lent", format!("{what}: owning handle {h} given away while lent"));
        }
        self.table[i].alive = false;
        Some(e.obj)
    }
    /// `lift_borrow`: the guest lends a handle for the duration of a call.
    fn lift_borrow(&mut self, h: u32, res: u32, what: &str) -> Option<u64> {
        let i = self.get(h, res, what)?;
        Some(self.table[i].obj)
    }
    fn alive_own(&self, res: u32) -> Vec<u64> {
        self.table.iter().filter(|e| e.alive && e.own && e.res == res).map(|e| e.obj).collect()
    }
    fn alive_borrows(&self) -> usize {
        self.table.iter().filter(|e| e.alive && !e.own).count()
    }
}

fn slot_to_core(t: CoreTy, bits: u64) -> CoreVal {
    match t {
        CoreTy::I32 | CoreTy::F32 => CoreVal { ty: t, bits: bits & 0xffff_ffff },
        _ => CoreVal { ty: t, bits },
    }
}

/// All import symbols funnel here.
unsafe extern "C" fn dispatch(k: u32, args: *const u64, nargs: u32, ret: *mut u64) {
    let h = host();
    let f: RFunc = h.w.funcs[k as usize].clone();
    let sig = f.sig();
    assert_eq!(f.side, Side::Import);
    if nargs as usize != sig.params.len() {
        eprintln!("E3-HARNESS-BUG: import {} called with {nargs} core args", f.name);
        std::process::exit(97)
    }
    let raw: Vec<u64> = (0..nargs as usize).map(|i| unsafe { *args.add(i) }).collect();
    let nparam = if sig.result_indirect { raw.len() - 1 } else { raw.len() };
    let flat: Vec<CoreVal> = raw[..nparam].iter().zip(&sig.params).map(|(b, t)| slot_to_core(*t, *b)).collect();
    let mut mem = GuestMem::new(h.lib.api);
    let params = match abi::lift_flat_values(&mem, W, abi::MAX_FLAT_PARAMS, &flat, &f.params) {
        Ok(p) => p,
        Err(e) => {
            h.st.violate("lift", format!("host cannot lift the arguments of {}: {e}", f.name));
            return;
        }
    };
    let what = f.name.clone();
    let st = &mut h.st;
    let u = |v: &Val| match v {
        Val::U(x) => *x,
        Val::Handle(x) => *x as u64,
        Val::Bool(b) => *b as u64,
        _ => 0,
    };
    let mut result: Option<Val> = None;
    match f.name.as_str() {
        "thing.ctor" | "thing.make" => {
            let id = u(&params[0]) as u32;
            st.things.insert(id, true);
            result = Some(Val::Handle(st.add(THING, true, id as u64)));
        }
        "thing.try-make" => {
            let id = u(&params[0]) as u32;
            if u(&params[1]) != 0 {
                st.things.insert(id, true);
                result = Some(Val::Variant(0, Some(Box::new(Val::Handle(st.add(THING, true, id as u64))))));
            } else {
                result = Some(Val::Variant(1, Some(Box::new(Val::Str(format!("no thing {id}"))))));
            }
        }
        "thing.get-id" => {
            let hd = u(&params[0]) as u32;
            let id = st.lift_borrow(hd, THING, &what).unwrap_or(0xdead);
            result = Some(Val::U(id));
        }
        "thing.drop" => {
            let hd = u(&params[0]) as u32;
            if let Some(i) = st.get(hd, THING, &what) {
                let e = st.table[i].clone();
                if e.own && e.lend != 0 {
                    st.violate("lent", format!("{what}: owning handle {hd} dropped while lent"));
                }
                st.table[i].alive = false;
                if e.own {
                    // the host's destructor of the imported resource
                    let id = e.obj as u32;
                    if st.things.get(&id) == Some(&false) {
                        st.violate("double-destroy", format!("thing {id} destroyed twice"));
                    }
                    st.things.insert(id, false);
                }
            }
        }
        "cell.new" | "fcell.new" => {
            let res = if f.name.starts_with('f') { FCELL } else { CELL };
            let rep = u(&params[0]);
            let id = st.pending_ids.pop_front().unwrap_or_else(|| {
                st.violate("unexpected-new", format!("{what}: the guest created a resource the operation does not call for"));
                0
            });
            if rep == 0 || rep >> 32 != 0 {
                st.violate("rep", format!("{what}: representation {rep:#x} does not fit the canonical ABI's i32"));
            }
            if let Some(c) = st.cells.get(&rep) {
                if !c.destroyed {
                    st.violate("rep-reuse", format!("{what}: representation {rep:#x} is already a live resource"));
                }
            }
            st.cells.insert(rep, CellInfo { id, res, destroyed: false });
            result = Some(Val::Handle(st.add(res, true, rep)));
        }
        "cell.rep" | "fcell.rep" => {
            let res = if f.name.starts_with('f') { FCELL } else { CELL };
            let hd = u(&params[0]) as u32;
            let rep = match st.get(hd, res, &what) {
                Some(i) => st.table[i].obj,
                None => 0,
            };
            result = Some(Val::U(rep));
        }
        "cell.drop" | "fcell.drop" => {
            let res = if f.name.starts_with('f') { FCELL } else { CELL };
            let hd = u(&params[0]) as u32;
            if let Some(rep) = st.lift_own(hd, res, &what) {
                // the component implements the resource: its destructor runs now
                host().run_dtor(rep);
            }
        }
        n if n.starts_with("imp.take-own-") => {
            // own handles inside the value are transferred to the host, which drops them
            let mut owned = Vec::new();
            let mut other = Vec::new();
            refabi::ty::handles_in(&f.params[0], &params[0], &mut owned, &mut other);
            let mut seen = 0u32;
            for hd in owned {
                if let Some(obj) = st.lift_own(hd, THING, &what) {
                    seen = obj as u32;
                    st.things.insert(obj as u32, false);
                }
            }
            result = Some(Val::U(seen as u64));
        }
        n if n.starts_with("imp.take-borrow-") => {
            let mut owned = Vec::new();
            let mut other = Vec::new();
            refabi::ty::handles_in(&f.params[0], &params[0], &mut owned, &mut other);
            let mut seen = 0u32;
            for hd in other {
                if let Some(obj) = st.lift_borrow(hd, THING, &what) {
                    seen = obj as u32;
                }
            }
            result = Some(Val::U(seen as u64));
        }
        n if n.starts_with("imp.give-own-") => {
            let id = u(&params[0]) as u32;
            st.things.insert(id, true);
            let hd = st.add(THING, true, id as u64);
            let shape = OWN_SHAPES.iter().find(|s| n.ends_with(&format!("-{}", s.name()))).copied().unwrap();
            result = Some(shape.val(Val::Handle(hd)));
        }
        other => {
            eprintln!("E3-HARNESS-BUG: unhandled import {other}");
            std::process::exit(97)
        }
    }
    // lower the result
    if let (Some(v), Some(t)) = (&result, &f.result) {
        if sig.result_indirect {
            let retptr = raw[raw.len() - 1];
            nlower::store_n(&mut mem, v, t, retptr);
        } else {
            let fl = nlower::lower_flat_n(&mut mem, v, t);
            if let Some(c) = fl.first() {
                unsafe { *ret = c.bits };
            }
        }
    }
    if let Some(e) = mem.bad_access.take() {
        host().st.violate("host-write", e);
    }
}

#[derive(Clone, Debug, PartialEq, Eq, PartialOrd, Ord, Hash)]
pub enum Op {
    /// guest creates a thing: 0 ctor, 1 static make, 2 fallible ok; keeps it in `slot`
    TNew(u8, u8),
    /// fallible creation that fails
    TNewErr,
    TMethod(u8),
    TLend(u8, Shape),
    TTransfer(u8, Shape),
    TReceive(u8, Shape),
    TDrop(u8),
    /// host passes a fresh own<thing> into an export; `keep` = 0 (drop) or slot+1
    TRecv(Shape, u8),
    TRecvBorrow(Shape),
    TReturn(u8, Shape),
    /// host creates a cell: 0 ctor, 1 static make, 2 fallible ok, 3 fcell fallible ctor ok (+ host drop)
    CNew(u8),
    /// 0 = cell.try-make fails, 1 = fcell ctor fails
    CNewErr(u8),
    CMethod(u8),
    CBorrow(u8, Shape),
    CTake(u8, Shape, u8),
    CGive(Shape),
    CGiveKept(u8),
    CDropKept(u8),
    CHostDrop(u8),
}

impl Op {
    pub fn name(&self) -> String {
        match self {
            Op::TNew(k, _) => format!("thing-new{k}"),
            Op::TNewErr => "thing-new-err".into(),
            Op::TMethod(_) => "thing-method".into(),
            Op::TLend(_, s) => format!("thing-lend-{}", s.name()),
            Op::TTransfer(_, s) => format!("thing-transfer-{}", s.name()),
            Op::TReceive(_, s) => format!("thing-receive-{}", s.name()),
            Op::TDrop(_) => "thing-drop".into(),
            Op::TRecv(s, k) => format!("thing-recv-{}-{}", s.name(), if *k == 0 { "drop" } else { "keep" }),
            Op::TRecvBorrow(s) => format!("thing-recv-borrow-{}", s.name()),
            Op::TReturn(_, s) => format!("thing-return-{}", s.name()),
            Op::CNew(k) => format!("cell-new{k}"),
            Op::CNewErr(k) => format!("cell-new-err{k}"),
            Op::CMethod(_) => "cell-method".into(),
            Op::CBorrow(_, s) => format!("cell-borrow-{}", s.name()),
            Op::CTake(_, s, k) => format!("cell-take-{}-{}", s.name(), if *k == 0 { "drop" } else { "keep" }),
            Op::CGive(s) => format!("cell-give-{}", s.name()),
            Op::CGiveKept(_) => "cell-give-kept".into(),
            Op::CDropKept(_) => "cell-drop-kept".into(),
            Op::CHostDrop(_) => "cell-host-drop".into(),
        }
    }
    pub fn encode(&self) -> String {
        match self {
            Op::TNew(a, b) => format!("TNew:{a}:{b}"),
            Op::TNewErr => "TNewErr".into(),
            Op::TMethod(a) => format!("TMethod:{a}"),
            Op::TLend(a, s) => format!("TLend:{a}:{}", s.name()),
            Op::TTransfer(a, s) => format!("TTransfer:{a}:{}", s.name()),
            Op::TReceive(a, s) => format!("TReceive:{a}:{}", s.name()),
            Op::TDrop(a) => format!("TDrop:{a}"),
            Op::TRecv(s, k) => format!("TRecv:{k}:{}", s.name()),
            Op::TRecvBorrow(s) => format!("TRecvBorrow:0:{}", s.name()),
            Op::TReturn(a, s) => format!("TReturn:{a}:{}", s.name()),
            Op::CNew(a) => format!("CNew:{a}"),
            Op::CNewErr(a) => format!("CNewErr:{a}"),
            Op::CMethod(a) => format!("CMethod:{a}"),
            Op::CBorrow(a, s) => format!("CBorrow:{a}:{}", s.name()),
            Op::CTake(a, s, k) => format!("CTake:{a}:{}:{k}", s.name()),
            Op::CGive(s) => format!("CGive:0:{}", s.name()),
            Op::CGiveKept(a) => format!("CGiveKept:{a}"),
            Op::CDropKept(a) => format!("CDropKept:{a}"),
            Op::CHostDrop(a) => format!("CHostDrop:{a}"),
        }
    }
    pub fn decode(s: &str) -> Option<Op> {
        let p: Vec<&str> = s.split(':').collect();
        let n = |i: usize| p.get(i).and_then(|x| x.parse::<u8>().ok());
        let sh = |i: usize| p.get(i).and_then(|x| OWN_SHAPES.iter().find(|s| s.name() == *x).copied());
        Some(match p[0] {
            "TNew" => Op::TNew(n(1)?, n(2)?),
            "TNewErr" => Op::TNewErr,
            "TMethod" => Op::TMethod(n(1)?),
            "TLend" => Op::TLend(n(1)?, sh(2)?),
            "TTransfer" => Op::TTransfer(n(1)?, sh(2)?),
            "TReceive" => Op::TReceive(n(1)?, sh(2)?),
            "TDrop" => Op::TDrop(n(1)?),
            "TRecv" => Op::TRecv(sh(2)?, n(1)?),
            "TRecvBorrow" => Op::TRecvBorrow(sh(2)?),
            "TReturn" => Op::TReturn(n(1)?, sh(2)?),
            "CNew" => Op::CNew(n(1)?),
            "CNewErr" => Op::CNewErr(n(1)?),
            "CMethod" => Op::CMethod(n(1)?),
            "CBorrow" => Op::CBorrow(n(1)?, sh(2)?),
            "CTake" => Op::CTake(n(1)?, sh(2)?, n(3)?),
            "CGive" => Op::CGive(sh(2)?),
            "CGiveKept" => Op::CGiveKept(n(1)?),
            "CDropKept" => Op::CDropKept(n(1)?),
            "CHostDrop" => Op::CHostDrop(n(1)?),
            _ => return None,
        })
    }
}

/// Abstract (canonical) state: which guest slots are occupied and how many cells the host owns.
#[derive(Clone, Debug, PartialEq, Eq, PartialOrd, Ord, Hash)]
pub struct Abs {
    pub ts: [bool; 2],
    pub cs: [bool; 2],
    pub hc: u8,
}

pub const MAX_LIVE: usize = 2;

impl Abs {
    pub fn init() -> Abs {
        Abs { ts: [false; 2], cs: [false; 2], hc: 0 }
    }
    fn things(&self) -> usize {
        self.ts.iter().filter(|x| **x).count()
    }
    fn cells(&self) -> usize {
        self.cs.iter().filter(|x| **x).count() + self.hc as usize
    }
    pub fn enabled(&self) -> Vec<Op> {
        let mut v = Vec::new();
        for slot in 0..2u8 {
            let occ = self.ts[slot as usize];
            if !occ && self.things() < MAX_LIVE {
                for k in 0..3 {
                    v.push(Op::TNew(k, slot));
                }
                for s in OWN_SHAPES {
                    v.push(Op::TReceive(slot, s));
                    v.push(Op::TRecv(s, slot + 1));
                }
            }
            if occ {
                v.push(Op::TMethod(slot));
                v.push(Op::TDrop(slot));
                for s in BORROW_SHAPES {
                    v.push(Op::TLend(slot, s));
                }
                for s in OWN_SHAPES {
                    v.push(Op::TTransfer(slot, s));
                    v.push(Op::TReturn(slot, s));
                }
            }
        }
        v.push(Op::TNewErr);
        for s in OWN_SHAPES {
            v.push(Op::TRecv(s, 0));
        }
        for s in BORROW_SHAPES {
            if s != Shape::List {
                v.push(Op::TRecvBorrow(s));
            }
        }
        // cells
        v.push(Op::CNewErr(0));
        v.push(Op::CNewErr(1));
        v.push(Op::CNew(3));
        if self.cells() < MAX_LIVE {
            for k in 0..3 {
                v.push(Op::CNew(k));
            }
            for s in OWN_SHAPES {
                v.push(Op::CGive(s));
            }
        }
        for hi in 0..self.hc {
            v.push(Op::CMethod(hi));
            v.push(Op::CHostDrop(hi));
            for s in BORROW_SHAPES {
                v.push(Op::CBorrow(hi, s));
            }
            for s in OWN_SHAPES {
                v.push(Op::CTake(hi, s, 0));
                for slot in 0..2u8 {
                    if !self.cs[slot as usize] {
                        v.push(Op::CTake(hi, s, slot + 1));
                    }
                }
            }
        }
        for slot in 0..2u8 {
            if self.cs[slot as usize] {
                v.push(Op::CGiveKept(slot));
                v.push(Op::CDropKept(slot));
            }
        }
        v
    }
    pub fn step(&self, op: &Op) -> Abs {
        let mut n = self.clone();
        match op {
            Op::TNew(_, s) | Op::TReceive(s, _) => n.ts[*s as usize] = true,
            Op::TRecv(_, k) if *k > 0 => n.ts[*k as usize - 1] = true,
            Op::TTransfer(s, _) | Op::TDrop(s) | Op::TReturn(s, _) => n.ts[*s as usize] = false,
            Op::CNew(k) if *k < 3 => n.hc += 1,
            Op::CGive(_) => n.hc += 1,
            Op::CTake(_, _, k) => {
                n.hc -= 1;
                if *k > 0 {
                    n.cs[*k as usize - 1] = true;
                }
            }
            Op::CGiveKept(s) => {
                n.cs[*s as usize] = false;
                n.hc += 1;
            }
            Op::CDropKept(s) => n.cs[*s as usize] = false,
            Op::CHostDrop(_) => n.hc -= 1,
            _ => {}
        }
        n
    }
}

/// Concrete model of one history.
#[derive(Default)]
pub struct Conc {
    pub ts: [Option<u32>; 2],
    pub cs: [Option<u32>; 2],
    /// `(id, rep, resource)` of cells the host owns
    pub hc: Vec<(u32, u64, u32)>,
    pub destroyed: Vec<u32>,
    pub next_id: u32,
}

impl RHost {
    pub fn install(lib: Lib, w: World) {
        let live = dlsym(lib.handle, "verif_r_live_cells");
        let log = dlsym(lib.handle, "verif_r_destroyed");
        let reset = dlsym(lib.handle, "verif_r_reset");
        if live.is_null() || log.is_null() || reset.is_null() {
            vcommon::machinery("resource chunk lacks verif_r_* symbols");
        }
        unsafe {
            (lib.api.set_dispatch)(dispatch);
            (lib.api.alloc_enable)();
            *(&raw mut HOST) = Some(RHost {
                lib,
                w,
                st: State::new(),
                live_cells: std::mem::transmute(live),
                destroyed_log: std::mem::transmute(log),
                reset_guest: std::mem::transmute(reset),
            });
        }
    }

    fn run_dtor(&mut self, rep: u64) {
        let (id, res) = match self.st.cells.get_mut(&rep) {
            Some(c) => {
                if c.destroyed {
                    let id = c.id;
                    self.st.violate("double-destroy", format!("destructor of cell {id} requested twice"));
                    return;
                }
                c.destroyed = true;
                (c.id, c.res)
            }
            None => {
                self.st.violate("unknown-rep", format!("destructor for unknown representation {rep:#x}"));
                return;
            }
        };
        self.st.destroyed.push(id);
        let name = if res == FCELL { "fcell.dtor" } else { "cell.dtor" };
        let _ = self.call(name, &[Val::U(rep)]);
    }

    /// Call an export with already-lowered handles. Returns the lifted result.
    fn call(&mut self, name: &str, params: &[Val]) -> Option<Val> {
        let k = self.w.find(name);
        let f = self.w.funcs[k].clone();
        let sig = f.sig();
        let fp = dlsym(self.lib.handle, &f.sym);
        if fp.is_null() {
            self.st.violate("export-symbol", format!("no export named `{}`", f.sym));
            return None;
        }
        let api = self.lib.api;
        let mut mem = GuestMem::new(api);
        assert!(!sig.params_indirect);
        let mut args: Vec<u64> = Vec::new();
        for (v, t) in params.iter().zip(&f.params) {
            args.extend(nlower::lower_flat_n(&mut mem, v, t).iter().map(|c| c.bits));
        }
        let mut ret = 0u64;
        unsafe { (api.call_export)(k as u32, fp as *const (), args.as_ptr(), &mut ret) };
        let me = host();
        let mut out = None;
        if let Some(t) = &f.result {
            let lifted = if sig.result_indirect {
                abi::load(&mem, W, ret, t)
            } else {
                let flat: Vec<CoreVal> = sig.results.iter().map(|c| slot_to_core(*c, ret)).collect();
                let mut it = abi::FlatIter { vals: &flat, pos: 0 };
                abi::lift_flat(&mem, W, &mut it, t)
            };
            match lifted {
                Ok(v) => out = Some(v),
                Err(e) => me.st.violate("lift", format!("host cannot lift the result of {name}: {e}")),
            }
        }
        let post = dlsym(me.lib.handle, &format!("cabi_post_{}", f.sym));
        if !post.is_null() {
            unsafe {
                match sig.results.first() {
                    Some(CoreTy::I32) => (std::mem::transmute::<_, unsafe extern "C" fn(i32)>(post))(ret as i32),
                    Some(CoreTy::I64) => (std::mem::transmute::<_, unsafe extern "C" fn(i64)>(post))(ret as i64),
                    _ => {}
                }
            }
        }
        out
    }

    fn expect_id(&mut self, got: Option<Val>, want: u32, what: &str) {
        match got {
            Some(Val::U(x)) if x as u32 == want => {}
            Some(v) => self.st.violate("wrong-object", format!("{what}: reached object {v}, expected the one created as {want}")),
            None => {}
        }
    }

    /// Receive `own` handles of `res` out of a lifted export result: transfer to the host.
    fn take_owned(&mut self, t: &Ty, v: &Val, res: u32, what: &str) -> Vec<u64> {
        let mut owned = Vec::new();
        let mut other = Vec::new();
        refabi::ty::handles_in(t, v, &mut owned, &mut other);
        let mut out = Vec::new();
        for hd in owned {
            if let Some(obj) = self.st.lift_own(hd, res, what) {
                out.push(obj);
            }
        }
        out
    }

    /// Execute one operation on the implementation and on the concrete model.
    pub fn exec(&mut self, c: &mut Conc, op: &Op) {
        self.st.op = op.name();
        let fresh = |c: &mut Conc| {
            c.next_id += 1;
            100 + c.next_id
        };
        let u = |x: u32| Val::U(x as u64);
        match op.clone() {
            Op::TNew(kind, slot) => {
                let id = fresh(c);
                let r = self.call("exp.g-new", &[u(kind as u32), u(id), u(slot as u32)]);
                self.expect_id(r, id, "thing kept after creation");
                c.ts[slot as usize] = Some(id);
            }
            Op::TNewErr => {
                let id = fresh(c);
                let _ = self.call("exp.g-new", &[u(3), u(id), u(0)]);
            }
            Op::TMethod(slot) => {
                let r = self.call("exp.g-method", &[u(slot as u32)]);
                self.expect_id(r, c.ts[slot as usize].unwrap(), "method on a kept thing");
            }
            Op::TLend(slot, s) => {
                let r = self.call("exp.g-lend", &[u(slot as u32), u(crate::res_world::shape_code(s))]);
                self.expect_id(r, c.ts[slot as usize].unwrap(), "borrow lent to an import");
            }
            Op::TTransfer(slot, s) => {
                let id = c.ts[slot as usize].take().unwrap();
                let r = self.call("exp.g-transfer", &[u(slot as u32), u(crate::res_world::shape_code(s))]);
                self.expect_id(r, id, "own handle transferred to an import");
            }
            Op::TReceive(slot, s) => {
                let id = fresh(c);
                let r = self.call("exp.g-receive", &[u(id), u(slot as u32), u(crate::res_world::shape_code(s))]);
                self.expect_id(r, id, "own handle received from an import");
                c.ts[slot as usize] = Some(id);
            }
            Op::TDrop(slot) => {
                let id = c.ts[slot as usize].take().unwrap();
                let r = self.call("exp.g-drop", &[u(slot as u32)]);
                self.expect_id(r, id, "thing dropped by the guest");
            }
            Op::TRecv(s, keep) => {
                let id = fresh(c);
                self.st.things.insert(id, true);
                let hd = self.st.add(THING, true, id as u64);
                let r = self.call(&format!("exp.recv-thing-{}", s.name()), &[s.val(Val::Handle(hd)), u(keep as u32)]);
                self.expect_id(r, id, "own<thing> passed to an export");
                if keep > 0 {
                    c.ts[keep as usize - 1] = Some(id);
                }
            }
            Op::TRecvBorrow(s) => {
                let id = fresh(c);
                self.st.things.insert(id, true);
                // a borrow handle scoped to this call
                let hd = self.st.add(THING, false, id as u64);
                let r = self.call(&format!("exp.recv-thing-borrow-{}", s.name()), &[s.val(Val::Handle(hd))]);
                self.expect_id(r, id, "borrow<thing> passed to an export");
                if self.st.table[hd as usize].alive {
                    self.st.violate("borrow-not-dropped", format!("the borrow handle {hd} passed to the export is still in the guest's table when the export returns (the component model traps)"));
                    self.st.table[hd as usize].alive = false;
                }
                self.st.things.insert(id, false);
            }
            Op::TReturn(slot, s) => {
                let id = c.ts[slot as usize].take().unwrap();
                let name = format!("exp.return-thing-{}", s.name());
                let t = s.ty(Ty::Own(THING));
                if let Some(v) = self.call(&name, &[u(slot as u32)]) {
                    let got = self.take_owned(&t, &v, THING, &name);
                    if got != vec![id as u64] {
                        self.st.violate("wrong-object", format!("{name}: the guest returned {got:?}, expected thing {id}"));
                    }
                    for g in got {
                        self.st.things.insert(g as u32, false);
                    }
                }
            }
            Op::CNew(kind) => {
                let id = fresh(c);
                self.st.pending_ids.push_back(id);
                let (name, params, t): (&str, Vec<Val>, Ty) = match kind {
                    0 => ("cell.ctor", vec![u(id)], Ty::Own(CELL)),
                    1 => ("cell.make", vec![u(id)], Ty::Own(CELL)),
                    2 => ("cell.try-make", vec![u(id), Val::Bool(true)], Ty::Result(Some(Box::new(Ty::Own(CELL))), Some(Box::new(Ty::String)))),
                    _ => ("fcell.ctor", vec![u(id), Val::Bool(true)], Ty::Result(Some(Box::new(Ty::Own(FCELL))), Some(Box::new(Ty::String)))),
                };
                let res = if kind == 3 { FCELL } else { CELL };
                if let Some(v) = self.call(name, &params) {
                    if kind >= 2 && !matches!(v, Val::Variant(0, _)) {
                        self.st.violate("wrong-result", format!("{name}(ok) returned {v}"));
                    }
                    let got = self.take_owned(&t, &v, res, name);
                    match got.as_slice() {
                        [rep] => {
                            if kind == 3 {
                                // the host drops the fcell right away
                                c.destroyed.push(id);
                                self.run_dtor(*rep);
                            } else {
                                c.hc.push((id, *rep, res));
                            }
                        }
                        o => self.st.violate("wrong-result", format!("{name} returned {} handles", o.len())),
                    }
                }
                if !self.st.pending_ids.is_empty() {
                    self.st.pending_ids.clear();
                    self.st.violate("no-new", format!("{name}: the guest never called [resource-new]"));
                }
            }
            Op::CNewErr(kind) => {
                let id = fresh(c);
                let name = if kind == 0 { "cell.try-make" } else { "fcell.ctor" };
                if let Some(v) = self.call(name, &[u(id), Val::Bool(false)]) {
                    if !matches!(v, Val::Variant(1, Some(_))) {
                        self.st.violate("wrong-result", format!("{name}(err) returned {v}"));
                    }
                }
            }
            Op::CMethod(hi) => {
                let (id, rep, _) = c.hc[hi as usize];
                let r = self.call("cell.get-id", &[Val::Handle(rep as u32)]);
                self.expect_id(r, id, "method through a borrow of a host-owned cell");
            }
            Op::CBorrow(hi, s) => {
                let (id, rep, _) = c.hc[hi as usize];
                let r = self.call(&format!("exp.take-borrow-{}", s.name()), &[s.val(Val::Handle(rep as u32))]);
                self.expect_id(r, id, "borrow<cell> passed to an export");
            }
            Op::CTake(hi, s, keep) => {
                let (id, rep, res) = c.hc.remove(hi as usize);
                let hd = self.st.add(res, true, rep);
                let r = self.call(&format!("exp.take-own-{}", s.name()), &[s.val(Val::Handle(hd)), u(keep as u32)]);
                self.expect_id(r, id, "own<cell> passed to an export");
                if keep > 0 {
                    c.cs[keep as usize - 1] = Some(id);
                } else {
                    c.destroyed.push(id);
                }
            }
            Op::CGive(s) => {
                let id = fresh(c);
                self.st.pending_ids.push_back(id);
                let name = format!("exp.give-own-{}", s.name());
                let t = s.ty(Ty::Own(CELL));
                if let Some(v) = self.call(&name, &[u(id)]) {
                    let got = self.take_owned(&t, &v, CELL, &name);
                    match got.as_slice() {
                        [rep] => c.hc.push((id, *rep, CELL)),
                        o => self.st.violate("wrong-result", format!("{name} returned {} handles", o.len())),
                    }
                }
                self.st.pending_ids.clear();
            }
            Op::CGiveKept(slot) => {
                let id = c.cs[slot as usize].take().unwrap();
                if let Some(v) = self.call("exp.give-kept", &[u(slot as u32)]) {
                    let got = self.take_owned(&Ty::Own(CELL), &v, CELL, "exp.give-kept");
                    match got.as_slice() {
                        [rep] => {
                            let known = self.st.cells.get(rep).map(|ci| ci.id);
                            if known != Some(id) {
                                self.st.violate("wrong-object", format!("give-kept returned cell {known:?}, expected {id}"));
                            }
                            c.hc.push((id, *rep, CELL));
                        }
                        o => self.st.violate("wrong-result", format!("give-kept returned {} handles", o.len())),
                    }
                }
            }
            Op::CDropKept(slot) => {
                let id = c.cs[slot as usize].take().unwrap();
                let r = self.call("exp.drop-kept", &[u(slot as u32)]);
                self.expect_id(r, id, "kept cell dropped by the guest");
                c.destroyed.push(id);
            }
            Op::CHostDrop(hi) => {
                let (id, rep, _) = c.hc.remove(hi as usize);
                c.destroyed.push(id);
                self.run_dtor(rep);
            }
        }
        self.settle(c);
    }

    /// Compare implementation and model after a step.
    pub fn settle(&mut self, c: &Conc) {
        let st = &mut self.st;
        if st.alive_borrows() != 0 {
            st.violate("borrow-left", format!("{} borrow handle(s) still in the guest's table after the call", st.alive_borrows()));
            for e in st.table.iter_mut() {
                if !e.own {
                    e.alive = false;
                }
            }
        }
        let want_things: BTreeSet<u64> = c.ts.iter().flatten().map(|x| *x as u64).collect();
        let have_things: BTreeSet<u64> = st.alive_own(THING).into_iter().collect();
        if want_things != have_things {
            st.violate("thing-handles", format!("the guest holds owning handles to things {have_things:?}, the model says {want_things:?} (leaked or lost handle)"));
        }
        let want_cells: BTreeSet<u32> = c.cs.iter().flatten().copied().collect();
        let have_cells: BTreeSet<u32> = st
            .alive_own(CELL)
            .into_iter()
            .chain(st.alive_own(FCELL))
            .map(|rep| st.cells.get(&rep).map(|ci| ci.id).unwrap_or(0))
            .collect();
        if want_cells != have_cells {
            st.violate("cell-handles", format!("the guest holds owning handles to cells {have_cells:?}, the model says {want_cells:?} (leaked or lost handle)"));
        }
        // things released by the guest must be destroyed on the host side, kept ones alive
        for (id, alive) in &st.things.clone() {
            let kept = want_things.contains(&(*id as u64));
            if kept != *alive && have_things == want_things {
                st.violate("thing-lifetime", format!("thing {id}: alive={alive}, kept by the guest={kept}"));
            }
        }
        // the guest's own view: live Rust objects and destruction order
        let live = unsafe { (self.live_cells)() };
        let want_live = (c.hc.len() + want_cells.len()) as u32;
        if live != want_live {
            st.violate("live-objects", format!("{live} exported objects are alive in the guest, the model says {want_live}"));
        }
        let mut buf = [0u32; 64];
        let n = unsafe { (self.destroyed_log)(buf.as_mut_ptr(), 64) };
        let log: Vec<u32> = buf[..n.min(64)].to_vec();
        if log != c.destroyed {
            st.violate("destruction", format!("the guest destroyed exported objects {log:?}, the model says {:?}", c.destroyed));
        }
        if st.destroyed != c.destroyed {
            st.violate("dtor-calls", format!("the host ran destructors for {:?}, the model says {:?}", st.destroyed, c.destroyed));
        }
        let api = self.lib.api;
        unsafe { (api.audit)() };
        let mut b = [0u8; 256];
        let n = unsafe { (api.take_fault)(b.as_mut_ptr(), b.len()) };
        if n > 0 {
            self.st.violate("alloc-fault", String::from_utf8_lossy(&b[..n]).into_owned());
        }
    }

    /// Release everything that is still held (guest slots, host cells) and check for leaks.
    pub fn finish(&mut self, c: &mut Conc, live0: usize) {
        for slot in 0..2u8 {
            if c.ts[slot as usize].is_some() {
                self.exec(c, &Op::TDrop(slot));
            }
            if c.cs[slot as usize].is_some() {
                self.exec(c, &Op::CDropKept(slot));
            }
        }
        while !c.hc.is_empty() {
            self.exec(c, &Op::CHostDrop(0));
        }
        self.st.op = "end".into();
        let left: Vec<usize> = self.st.table.iter().enumerate().filter(|(_, e)| e.alive).map(|(i, _)| i).collect();
        if !left.is_empty() {
            self.st.violate("leak", format!("handles {left:?} are still in the guest's table at the end"));
        }
        let live1 = unsafe { (self.lib.api.live_count)() };
        if live1 != live0 {
            self.st.violate("heap-leak", format!("{} heap block(s) more than at the start are live at the end", live1 as i64 - live0 as i64));
        }
    }
}

/// Run one history in this process. The host model starts fresh; the guest is only as clean as
/// the previous history left it (a history without violations ends with everything released), so
/// callers start a new process after any violation.
pub fn run_trace(ops: &[Op]) -> Value {
    let t0 = std::time::Instant::now();
    let h = host();
    h.st = State::new();
    unsafe {
        (h.reset_guest)();
        (h.lib.api.purge)();
    }
    let live0 = unsafe { (h.lib.api.live_count)() };
    let mut c = Conc::default();
    let mut abs = vec![];
    let mut a = Abs::init();
    for op in ops {
        h.exec(&mut c, op);
        a = a.step(op);
        abs.push(format!("{a:?}"));
        // the concrete model must agree with the abstract one
        let conc_abs = Abs { ts: [c.ts[0].is_some(), c.ts[1].is_some()], cs: [c.cs[0].is_some(), c.cs[1].is_some()], hc: c.hc.len() as u8 };
        if conc_abs != a {
            vcommon::machinery(&format!("abstract / concrete model disagree after {op:?}: {a:?} vs {conc_abs:?}"));
        }
    }
    h.finish(&mut c, live0);
    json!({"viol": h.st.viol, "handles": h.st.table.len() - 1, "destroyed": c.destroyed.len(), "states": abs, "us": t0.elapsed().as_micros() as u64})
}
