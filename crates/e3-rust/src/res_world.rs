//! C07: the resource world (one imported resource `thing`, one exported resource `cell`, plus a
//! resource `fcell` with a fallible constructor), its function table with reference types, and the
//! guest user code written against the generated bindings.
//!
//! Resource numbering in `Ty::Own(n)` / `Ty::Borrow(n)`: 0 = `thing` (imported), 1 = `cell`
//! (exported), 2 = `fcell` (exported).

use crate::harness::{shim_def, tramp_arm};
use crate::nlower::W;
use refabi::abi::{flatten_functype, CanonOpts, Context, CoreSig};
use refabi::{Ty, Val};
use std::fmt::Write;

pub const THING: u32 = 0;
pub const CELL: u32 = 1;
pub const FCELL: u32 = 2;

#[derive(Clone, Copy, Debug, PartialEq, Eq, PartialOrd, Ord, Hash)]
pub enum Shape {
    Direct,
    Rec,
    Var,
    Opt,
    Res,
    List,
    Tup,
}

pub const OWN_SHAPES: [Shape; 7] =
    [Shape::Direct, Shape::Rec, Shape::Var, Shape::Opt, Shape::Res, Shape::List, Shape::Tup];
/// borrows may not appear in results, records with borrows only as parameters: direct, option,
/// list, tuple are used
pub const BORROW_SHAPES: [Shape; 4] = [Shape::Direct, Shape::Opt, Shape::List, Shape::Tup];

impl Shape {
    pub fn name(self) -> &'static str {
        match self {
            Shape::Direct => "direct",
            Shape::Rec => "rec",
            Shape::Var => "var",
            Shape::Opt => "opt",
            Shape::Res => "res",
            Shape::List => "list",
            Shape::Tup => "tup",
        }
    }
    pub fn ty(self, h: Ty) -> Ty {
        match self {
            Shape::Direct => h,
            Shape::Rec => Ty::Record(vec![Ty::U32, h]),
            Shape::Var => Ty::Variant(vec![None, Some(h)]),
            Shape::Opt => Ty::Option(Box::new(h)),
            Shape::Res => Ty::Result(Some(Box::new(h)), Some(Box::new(Ty::U32))),
            Shape::List => Ty::List(Box::new(h)),
            Shape::Tup => Ty::Tuple(vec![Ty::U32, h]),
        }
    }
    pub fn val(self, h: Val) -> Val {
        match self {
            Shape::Direct => h,
            Shape::Rec => Val::Record(vec![Val::U(77), h]),
            Shape::Var => Val::Variant(1, Some(Box::new(h))),
            Shape::Opt => Val::Variant(1, Some(Box::new(h))),
            Shape::Res => Val::Variant(0, Some(Box::new(h))),
            Shape::List => Val::List(vec![h]),
            Shape::Tup => Val::Record(vec![Val::U(78), h]),
        }
    }
    /// WIT type expression, `r` = resource name, `b` = borrow
    fn wit(self, r: &str, b: bool) -> String {
        let h = if b { format!("borrow<{r}>") } else { r.to_string() };
        match self {
            Shape::Direct => h,
            Shape::Rec => format!("rec-{r}"),
            Shape::Var => format!("var-{r}"),
            Shape::Opt => format!("option<{h}>"),
            Shape::Res => format!("result<{h}, u32>"),
            Shape::List => format!("list<{h}>"),
            Shape::Tup => format!("tuple<u32, {h}>"),
        }
    }
    /// Rust expression building the shape from the handle expression `h` (`camel` = type prefix)
    fn build(self, camel: &str, h: &str) -> String {
        match self {
            Shape::Direct => h.to_string(),
            Shape::Rec => format!("Rec{camel} {{ a: 77, h: {h} }}"),
            Shape::Var => format!("Var{camel}::Some({h})"),
            Shape::Opt => format!("Some({h})"),
            Shape::Res => format!("Ok({h})"),
            Shape::List => format!("vec![{h}]"),
            Shape::Tup => format!("(78, {h})"),
        }
    }
    /// Rust expression extracting the handle from the owned shape value `x`
    fn extract(self, camel: &str, x: &str) -> String {
        match self {
            Shape::Direct => x.to_string(),
            Shape::Rec => format!("{{ let r = {x}; chk(r.a == 77); r.h }}"),
            Shape::Var => format!("match {x} {{ Var{camel}::Some(h) => h, _ => die(\"variant case\") }}"),
            Shape::Opt => format!("match {x} {{ Some(h) => h, None => die(\"option none\") }}"),
            Shape::Res => format!("match {x} {{ Ok(h) => h, Err(_) => die(\"result err\") }}"),
            Shape::List => format!("{{ let mut l = {x}; chk(l.len() == 1); l.pop().unwrap() }}"),
            Shape::Tup => format!("{{ let t = {x}; chk(t.0 == 78); t.1 }}"),
        }
    }
}

#[derive(Clone, Copy, Debug, PartialEq, Eq)]
pub enum Side {
    /// core import of the guest (host implements)
    Import,
    /// core export of the guest (host calls)
    Export,
}

#[derive(Clone, Debug)]
pub struct RFunc {
    pub name: String,
    pub side: Side,
    pub params: Vec<Ty>,
    pub result: Option<Ty>,
    /// import: `(module, field)`; export: `("", symbol)`
    pub module: String,
    pub sym: String,
}

impl RFunc {
    pub fn sig(&self) -> CoreSig {
        flatten_functype(
            CanonOpts { async_: false, callback: false },
            &self.params,
            self.result.as_ref(),
            if self.side == Side::Import { Context::Lower } else { Context::Lift },
            W,
        )
    }
}

pub struct World {
    pub wit: String,
    pub funcs: Vec<RFunc>,
}

impl World {
    pub fn find(&self, name: &str) -> usize {
        self.funcs.iter().position(|f| f.name == name).unwrap_or_else(|| panic!("no function {name}"))
    }
}

pub const IMP: &str = "t:r/imp";
pub const EXP: &str = "t:r/exp";

pub fn world() -> World {
    let mut imp = String::new();
    let mut exp = String::new();
    let mut funcs: Vec<RFunc> = Vec::new();
    let own = |r: u32| Ty::Own(r);
    let bor = |r: u32| Ty::Borrow(r);
    let res_str = |r: u32| Ty::Result(Some(Box::new(Ty::Own(r))), Some(Box::new(Ty::String)));
    let add_imp = |funcs: &mut Vec<RFunc>, name: &str, field: &str, params: Vec<Ty>, result: Option<Ty>| {
        funcs.push(RFunc { name: name.into(), side: Side::Import, params, result, module: IMP.into(), sym: field.into() });
    };
    // ---- interface imp
    imp.push_str("  resource thing {\n    constructor(id: u32);\n    get-id: func() -> u32;\n    make: static func(id: u32) -> thing;\n    try-make: static func(id: u32, ok: bool) -> result<thing, string>;\n  }\n");
    imp.push_str("  record rec-thing { a: u32, h: thing }\n  variant var-thing { none, some(thing) }\n");
    add_imp(&mut funcs, "thing.ctor", "[constructor]thing", vec![Ty::U32], Some(own(THING)));
    add_imp(&mut funcs, "thing.get-id", "[method]thing.get-id", vec![bor(THING)], Some(Ty::U32));
    add_imp(&mut funcs, "thing.make", "[static]thing.make", vec![Ty::U32], Some(own(THING)));
    add_imp(&mut funcs, "thing.try-make", "[static]thing.try-make", vec![Ty::U32, Ty::Bool], Some(res_str(THING)));
    add_imp(&mut funcs, "thing.drop", "[resource-drop]thing", vec![own(THING)], None);
    for s in OWN_SHAPES {
        let n = s.name();
        writeln!(imp, "  take-own-{n}: func(x: {}) -> u32;", s.wit("thing", false)).unwrap();
        writeln!(imp, "  give-own-{n}: func(id: u32) -> {};", s.wit("thing", false)).unwrap();
        add_imp(&mut funcs, &format!("imp.take-own-{n}"), &format!("take-own-{n}"), vec![s.ty(own(THING))], Some(Ty::U32));
        add_imp(&mut funcs, &format!("imp.give-own-{n}"), &format!("give-own-{n}"), vec![Ty::U32], Some(s.ty(own(THING))));
    }
    for s in BORROW_SHAPES {
        let n = s.name();
        writeln!(imp, "  take-borrow-{n}: func(x: {}) -> u32;", s.wit("thing", true)).unwrap();
        add_imp(&mut funcs, &format!("imp.take-borrow-{n}"), &format!("take-borrow-{n}"), vec![s.ty(bor(THING))], Some(Ty::U32));
    }
    // built-ins of the exported resources
    for (r, name) in [(CELL, "cell"), (FCELL, "fcell")] {
        let m = format!("[export]{EXP}");
        funcs.push(RFunc { name: format!("{name}.new"), side: Side::Import, params: vec![Ty::U64], result: Some(own(r)), module: m.clone(), sym: format!("[resource-new]{name}") });
        funcs.push(RFunc { name: format!("{name}.rep"), side: Side::Import, params: vec![own(r)], result: Some(Ty::U64), module: m.clone(), sym: format!("[resource-rep]{name}") });
        funcs.push(RFunc { name: format!("{name}.drop"), side: Side::Import, params: vec![own(r)], result: None, module: m.clone(), sym: format!("[resource-drop]{name}") });
    }
    // ---- interface exp
    let add_exp = |funcs: &mut Vec<RFunc>, name: &str, field: &str, params: Vec<Ty>, result: Option<Ty>| {
        funcs.push(RFunc { name: name.into(), side: Side::Export, params, result, module: String::new(), sym: format!("{EXP}#{field}") });
    };
    exp.push_str("  use imp.{thing, rec-thing, var-thing};\n");
    exp.push_str("  resource cell {\n    constructor(id: u32);\n    get-id: func() -> u32;\n    make: static func(id: u32) -> cell;\n    try-make: static func(id: u32, ok: bool) -> result<cell, string>;\n  }\n");
    exp.push_str("  resource fcell {\n    constructor(id: u32, ok: bool) -> result<fcell, string>;\n  }\n");
    exp.push_str("  record rec-cell { a: u32, h: cell }\n  variant var-cell { none, some(cell) }\n");
    add_exp(&mut funcs, "cell.ctor", "[constructor]cell", vec![Ty::U32], Some(own(CELL)));
    add_exp(&mut funcs, "cell.get-id", "[method]cell.get-id", vec![bor(CELL)], Some(Ty::U32));
    add_exp(&mut funcs, "cell.make", "[static]cell.make", vec![Ty::U32], Some(own(CELL)));
    add_exp(&mut funcs, "cell.try-make", "[static]cell.try-make", vec![Ty::U32, Ty::Bool], Some(res_str(CELL)));
    add_exp(&mut funcs, "fcell.ctor", "[constructor]fcell", vec![Ty::U32, Ty::Bool], Some(res_str(FCELL)));
    // destructors: `(rep)`. The representation is an i32 in the canonical ABI; the generated
    // native code declares it (and `[resource-new]` / `[resource-rep]`) pointer-sized, so the
    // table uses u64 for these three positions — the pointer-width-8 extrapolation.
    funcs.push(RFunc { name: "cell.dtor".into(), side: Side::Export, params: vec![Ty::U64], result: None, module: String::new(), sym: format!("{EXP}#[dtor]cell") });
    funcs.push(RFunc { name: "fcell.dtor".into(), side: Side::Export, params: vec![Ty::U64], result: None, module: String::new(), sym: format!("{EXP}#[dtor]fcell") });
    for s in OWN_SHAPES {
        let n = s.name();
        writeln!(exp, "  take-own-{n}: func(x: {}, keep: u32) -> u32;", s.wit("cell", false)).unwrap();
        writeln!(exp, "  give-own-{n}: func(id: u32) -> {};", s.wit("cell", false)).unwrap();
        writeln!(exp, "  recv-thing-{n}: func(x: {}, keep: u32) -> u32;", s.wit("thing", false)).unwrap();
        writeln!(exp, "  return-thing-{n}: func(slot: u32) -> {};", s.wit("thing", false)).unwrap();
        add_exp(&mut funcs, &format!("exp.take-own-{n}"), &format!("take-own-{n}"), vec![s.ty(own(CELL)), Ty::U32], Some(Ty::U32));
        add_exp(&mut funcs, &format!("exp.give-own-{n}"), &format!("give-own-{n}"), vec![Ty::U32], Some(s.ty(own(CELL))));
        add_exp(&mut funcs, &format!("exp.recv-thing-{n}"), &format!("recv-thing-{n}"), vec![s.ty(own(THING)), Ty::U32], Some(Ty::U32));
        add_exp(&mut funcs, &format!("exp.return-thing-{n}"), &format!("return-thing-{n}"), vec![Ty::U32], Some(s.ty(own(THING))));
    }
    for s in BORROW_SHAPES {
        let n = s.name();
        writeln!(exp, "  take-borrow-{n}: func(x: {}) -> u32;", s.wit("cell", true)).unwrap();
        add_exp(&mut funcs, &format!("exp.take-borrow-{n}"), &format!("take-borrow-{n}"), vec![s.ty(bor(CELL))], Some(Ty::U32));
        // `list<borrow<imported resource>>` as an export parameter does not compile on the
        // unchanged tree (E0506: the owning temporary `handleN` is declared once outside the
        // per-element loop; crates/rust/src/bindgen.rs HandleLift / handle_decls) — a build
        // defect (C09), left out of this world.
        if s != Shape::List {
            writeln!(exp, "  recv-thing-borrow-{n}: func(x: {}) -> u32;", s.wit("thing", true)).unwrap();
            add_exp(&mut funcs, &format!("exp.recv-thing-borrow-{n}"), &format!("recv-thing-borrow-{n}"), vec![s.ty(bor(THING))], Some(Ty::U32));
        }
    }
    // drivers (scalars only)
    exp.push_str("  give-kept: func(slot: u32) -> cell;\n  drop-kept: func(slot: u32) -> u32;\n");
    exp.push_str("  g-new: func(kind: u32, id: u32, slot: u32) -> u32;\n  g-method: func(slot: u32) -> u32;\n  g-lend: func(slot: u32, shape: u32) -> u32;\n  g-transfer: func(slot: u32, shape: u32) -> u32;\n  g-receive: func(id: u32, slot: u32, shape: u32) -> u32;\n  g-drop: func(slot: u32) -> u32;\n");
    add_exp(&mut funcs, "exp.give-kept", "give-kept", vec![Ty::U32], Some(own(CELL)));
    add_exp(&mut funcs, "exp.drop-kept", "drop-kept", vec![Ty::U32], Some(Ty::U32));
    add_exp(&mut funcs, "exp.g-new", "g-new", vec![Ty::U32, Ty::U32, Ty::U32], Some(Ty::U32));
    add_exp(&mut funcs, "exp.g-method", "g-method", vec![Ty::U32], Some(Ty::U32));
    add_exp(&mut funcs, "exp.g-lend", "g-lend", vec![Ty::U32, Ty::U32], Some(Ty::U32));
    add_exp(&mut funcs, "exp.g-transfer", "g-transfer", vec![Ty::U32, Ty::U32], Some(Ty::U32));
    add_exp(&mut funcs, "exp.g-receive", "g-receive", vec![Ty::U32, Ty::U32, Ty::U32], Some(Ty::U32));
    add_exp(&mut funcs, "exp.g-drop", "g-drop", vec![Ty::U32], Some(Ty::U32));

    let wit = format!("package t:r;\n\ninterface imp {{\n{imp}}}\n\ninterface exp {{\n{exp}}}\n\nworld w {{\n  import imp;\n  export exp;\n}}\n");
    World { wit, funcs }
}

fn shape_index(s: Shape) -> usize {
    OWN_SHAPES.iter().position(|x| *x == s).unwrap()
}

pub fn shape_code(s: Shape) -> u32 {
    shape_index(s) as u32
}

/// The guest user code (`user.rs`) of the resource world, written against the API of the
/// generated bindings (default configuration).
pub fn user_rs(w: &World) -> String {
    let mut s = String::new();
    s.push_str(
        r#"// generated by e3-rust/src/res_world.rs
#![allow(unused, unused_unsafe, clippy::all)]
use crate::bindings::exports::t::r::exp::{self as e, Cell, CellBorrow, Fcell, RecCell, VarCell};
use crate::bindings::t::r::imp::{self as i, RecThing, Thing, VarThing};
use crate::rt;

fn die(what: &str) -> ! {
    eprintln!("E3-GUEST-CHECK: {what}");
    std::process::abort()
}
fn chk(b: bool) {
    if !b {
        die("scalar next to a handle has the wrong value")
    }
}

// ---- instrumented exported resources -------------------------------------------------------
static mut LIVE_CELLS: u32 = 0;
static mut DESTROYED: [u32; 64] = [0; 64];
static mut N_DESTROYED: usize = 0;

pub struct MyCell {
    id: u32,
}
impl MyCell {
    fn make(id: u32) -> MyCell {
        unsafe { LIVE_CELLS += 1 };
        MyCell { id }
    }
}
impl Drop for MyCell {
    fn drop(&mut self) {
        unsafe {
            LIVE_CELLS -= 1;
            if N_DESTROYED < 64 {
                DESTROYED[N_DESTROYED] = self.id;
            }
            N_DESTROYED += 1;
        }
    }
}
pub struct MyFcell {
    id: u32,
}
impl Drop for MyFcell {
    fn drop(&mut self) {
        unsafe {
            LIVE_CELLS -= 1;
            if N_DESTROYED < 64 {
                DESTROYED[N_DESTROYED] = self.id;
            }
            N_DESTROYED += 1;
        }
    }
}

#[no_mangle]
pub unsafe extern "C" fn verif_r_live_cells() -> u32 {
    LIVE_CELLS
}
#[no_mangle]
pub unsafe extern "C" fn verif_r_reset() {
    N_DESTROYED = 0;
}
#[no_mangle]
pub unsafe extern "C" fn verif_r_destroyed(out: *mut u32, cap: usize) -> usize {
    for k in 0..N_DESTROYED.min(cap).min(64) {
        *out.add(k) = DESTROYED[k];
    }
    N_DESTROYED
}

// ---- what the guest keeps ------------------------------------------------------------------
static mut KEPT_CELLS: [Option<Cell>; 2] = [None, None];
static mut KEPT_THINGS: [Option<Thing>; 2] = [None, None];

fn keep_cell(c: Cell, keep: u32) -> u32 {
    let id = c.get::<MyCell>().id;
    if keep > 0 {
        unsafe {
            if KEPT_CELLS[keep as usize - 1].is_some() {
                die("cell slot occupied")
            }
            KEPT_CELLS[keep as usize - 1] = Some(c);
        }
    } else {
        drop(c);
    }
    id
}
fn keep_thing(t: Thing, keep: u32) -> u32 {
    let id = t.get_id();
    if keep > 0 {
        unsafe {
            if KEPT_THINGS[keep as usize - 1].is_some() {
                die("thing slot occupied")
            }
            KEPT_THINGS[keep as usize - 1] = Some(t);
        }
    } else {
        drop(t);
    }
    id
}
fn kept_thing(slot: u32) -> &'static Thing {
    unsafe {
        match &KEPT_THINGS[slot as usize] {
            Some(t) => t,
            None => die("thing slot empty"),
        }
    }
}
fn take_thing(slot: u32) -> Thing {
    unsafe {
        match KEPT_THINGS[slot as usize].take() {
            Some(t) => t,
            None => die("thing slot empty"),
        }
    }
}

pub struct Component;

impl e::GuestCell for MyCell {
    fn new(id: u32) -> Self {
        MyCell::make(id)
    }
    fn get_id(&self) -> u32 {
        self.id
    }
    fn make(id: u32) -> Cell {
        Cell::new(MyCell::make(id))
    }
    fn try_make(id: u32, ok: bool) -> Result<Cell, String> {
        if ok {
            Ok(Cell::new(MyCell::make(id)))
        } else {
            Err(format!("no cell {id}"))
        }
    }
}

impl e::GuestFcell for MyFcell {
    fn new(id: u32, ok: bool) -> Result<Self, String> {
        if ok {
            unsafe { LIVE_CELLS += 1 };
            Ok(MyFcell { id })
        } else {
            Err(format!("no fcell {id}"))
        }
    }
}

impl e::Guest for Component {
    type Cell = MyCell;
    type Fcell = MyFcell;
"#,
    );
    for sh in OWN_SHAPES {
        let n = sh.name();
        let (cell_ty, thing_ty) = (rust_shape_ty(sh, "Cell", "Cell"), rust_shape_ty(sh, "Thing", "Thing"));
        writeln!(s, "    fn take_own_{n}(x: {cell_ty}, keep: u32) -> u32 {{ let h: Cell = {}; keep_cell(h, keep) }}", sh.extract("Cell", "x")).unwrap();
        writeln!(s, "    fn give_own_{n}(id: u32) -> {cell_ty} {{ let h = Cell::new(MyCell::make(id)); {} }}", sh.build("Cell", "h")).unwrap();
        writeln!(s, "    fn recv_thing_{n}(x: {thing_ty}, keep: u32) -> u32 {{ let h: Thing = {}; keep_thing(h, keep) }}", sh.extract("Thing", "x")).unwrap();
        writeln!(s, "    fn return_thing_{n}(slot: u32) -> {thing_ty} {{ let h = take_thing(slot); {} }}", sh.build("Thing", "h")).unwrap();
    }
    // borrows
    s.push_str(
        r#"    fn take_borrow_direct(x: CellBorrow<'_>) -> u32 { x.get::<MyCell>().id }
    fn take_borrow_opt(x: Option<CellBorrow<'_>>) -> u32 { match x { Some(b) => b.get::<MyCell>().id, None => die("option none") } }
    fn take_borrow_list(x: Vec<CellBorrow<'_>>) -> u32 { chk(x.len() == 1); x[0].get::<MyCell>().id }
    fn take_borrow_tup(x: (u32, CellBorrow<'_>)) -> u32 { chk(x.0 == 78); x.1.get::<MyCell>().id }
    fn recv_thing_borrow_direct(x: &Thing) -> u32 { x.get_id() }
    fn recv_thing_borrow_opt(x: Option<&Thing>) -> u32 { match x { Some(b) => b.get_id(), None => die("option none") } }
    fn recv_thing_borrow_tup(x: (u32, &Thing)) -> u32 { chk(x.0 == 78); x.1.get_id() }
    fn give_kept(slot: u32) -> Cell {
        unsafe {
            match KEPT_CELLS[slot as usize].take() {
                Some(c) => c,
                None => die("cell slot empty"),
            }
        }
    }
    fn drop_kept(slot: u32) -> u32 {
        unsafe {
            match KEPT_CELLS[slot as usize].take() {
                Some(c) => {
                    let id = c.get::<MyCell>().id;
                    drop(c);
                    id
                }
                None => die("cell slot empty"),
            }
        }
    }
    fn g_new(kind: u32, id: u32, slot: u32) -> u32 {
        let t = match kind {
            0 => Thing::new(id),
            1 => Thing::make(id),
            2 => match Thing::try_make(id, true) {
                Ok(t) => t,
                Err(_) => die("try-make(ok) failed"),
            },
            _ => {
                return match Thing::try_make(id, false) {
                    Ok(_) => die("try-make(err) succeeded"),
                    Err(e) => e.len() as u32,
                }
            }
        };
        keep_thing(t, slot + 1)
    }
    fn g_method(slot: u32) -> u32 {
        kept_thing(slot).get_id()
    }
    fn g_lend(slot: u32, shape: u32) -> u32 {
        let t = kept_thing(slot);
        match shape {
            0 => i::take_borrow_direct(t),
            3 => i::take_borrow_opt(Some(t)),
            5 => i::take_borrow_list(&[t]),
            _ => i::take_borrow_tup((78, t)),
        }
    }
    fn g_drop(slot: u32) -> u32 {
        let t = take_thing(slot);
        let id = t.get_id();
        drop(t);
        id
    }
"#,
    );
    // transfer / receive by shape code
    s.push_str("    fn g_transfer(slot: u32, shape: u32) -> u32 {\n        let h = take_thing(slot);\n        match shape {\n");
    for sh in OWN_SHAPES {
        writeln!(s, "            {} => i::take_own_{}({}),", shape_code(sh), sh.name(), import_arg(sh, "h")).unwrap();
    }
    s.push_str("            _ => die(\"shape\"),\n        }\n    }\n");
    s.push_str("    fn g_receive(id: u32, slot: u32, shape: u32) -> u32 {\n        let h: Thing = match shape {\n");
    for sh in OWN_SHAPES {
        writeln!(s, "            {} => {},", shape_code(sh), sh.extract("Thing", &format!("i::give_own_{}(id)", sh.name()))).unwrap();
    }
    s.push_str("            _ => die(\"shape\"),\n        };\n        keep_thing(h, slot + 1)\n    }\n}\n\n");
    s.push_str("crate::bindings::export!(Component with_types_in crate::bindings);\n\n");
    // trampolines and shims with the reference signatures
    let mut arms = String::new();
    let mut shims = String::new();
    for (k, f) in w.funcs.iter().enumerate() {
        match f.side {
            Side::Export => arms.push_str(&tramp_arm(k, &f.sig())),
            Side::Import => shims.push_str(&shim_def(k, &f.module, &f.sym, &f.sig())),
        }
    }
    writeln!(
        s,
        "#[no_mangle]\npub unsafe extern \"C\" fn verif_call_export(k: u32, fp: *const (), args: *const u64, ret: *mut u64) {{\n    match k {{\n{arms}        _ => rt::no_func(k),\n    }}\n}}\n\n#[no_mangle]\npub unsafe extern \"C\" fn verif_run_import(_k: u32) {{}}\n"
    )
    .unwrap();
    s.push_str(&shims);
    s
}

/// Rust type of an own-shape in an export signature / import result.
fn rust_shape_ty(s: Shape, camel: &str, h: &str) -> String {
    match s {
        Shape::Direct => h.to_string(),
        Shape::Rec => format!("Rec{camel}"),
        Shape::Var => format!("Var{camel}"),
        Shape::Opt => format!("Option<{h}>"),
        Shape::Res => format!("Result<{h}, u32>"),
        Shape::List => format!("Vec<{h}>"),
        Shape::Tup => format!("(u32, {h})"),
    }
}

/// Argument expression for `imp::take_own_<shape>` (parameters of imports that carry an own
/// handle are passed by value; lists by value as `Vec`).
fn import_arg(s: Shape, h: &str) -> String {
    match s {
        Shape::Direct => h.to_string(),
        Shape::Rec => format!("RecThing {{ a: 77, h: {h} }}"),
        Shape::Var => format!("VarThing::Some({h})"),
        Shape::Opt => format!("Some({h})"),
        Shape::Res => format!("Ok({h})"),
        Shape::List => format!("vec![{h}]"),
        Shape::Tup => format!("(78, {h})"),
    }
}
