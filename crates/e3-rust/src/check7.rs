//! C07: resource / handle ownership. Builds the resource world's chunk crate, loads it, and
//! explores host histories: every operation sequence up to a full depth, plus — breadth first
//! over canonical model states up to a larger depth — every enabled operation from every state
//! reached. Every history runs on the real generated bindings in a forked child; the reference
//! handle-table model (`res_host`) judges every step.

use crate::build::{CrateSpec, Workspace};
use crate::gen::{self, Config};
use crate::host::Lib;
use crate::res_host::{self, Abs, Op, RHost};
use crate::res_world;
use crate::rewrite;
use serde_json::{json, Value};
use std::collections::{BTreeMap, BTreeSet};
use vcommon::{Outcome, Run};

fn prepare(jobs: usize) -> (std::path::PathBuf, res_world::World) {
    let w = res_world::world();
    let cfg = Config::default_cfg();
    let bindings = gen::generate(&w.wit, &cfg).unwrap_or_else(|e| vcommon::machinery(&format!("resource world: {e}")));
    let (rewritten, list) = rewrite::rewrite(&bindings).unwrap_or_else(|e| vcommon::machinery(&format!("shim rewrite: {e}")));
    // every core import the reference expects must be declared by the generated text, and nothing else
    let declared: BTreeSet<(String, String)> = list.iter().map(|r| (r.module.clone(), r.name.clone())).collect();
    let expected: BTreeSet<(String, String)> =
        w.funcs.iter().filter(|f| f.side == res_world::Side::Import).map(|f| (f.module.clone(), f.sym.clone())).collect();
    if declared != expected {
        let missing: Vec<_> = expected.difference(&declared).collect();
        let extra: Vec<_> = declared.difference(&expected).collect();
        vcommon::machinery(&format!("core imports of the resource world differ from the reference: missing {missing:?}, unexpected {extra:?}"));
    }
    let user = res_world::user_rs(&w);
    let mut ws = Workspace::new_with("res", true);
    let member = "e3res".to_string();
    // feature `low32`: see guest/ckalloc.rs
    ws.add(&CrateSpec {
        name: member.clone(),
        bindings: rewritten,
        user,
        extra_files: vec![],
        wit_bindgen_features: vec!["std", "bitflags"],
    });
    ws.finish_manifest();
    if let Err(e) = ws.build(&[], jobs) {
        vcommon::machinery(&format!("the resource world's chunk crate does not compile:\n{}", tail(&e, 4000)));
    }
    let so = ws.link(&member).unwrap_or_else(|e| vcommon::machinery(&e));
    (so, w)
}

fn tail(s: &str, n: usize) -> String {
    if s.len() <= n {
        return s.to_string();
    }
    let mut at = s.len() - n;
    while !s.is_char_boundary(at) {
        at += 1;
    }
    s[at..].to_string()
}

/// Histories: all sequences up to `full`, then breadth first over canonical states up to `deep`.
fn histories(full: usize, deep: usize) -> (Vec<Vec<Op>>, usize, usize) {
    let mut out: Vec<Vec<Op>> = Vec::new();
    let mut seen_tr: BTreeSet<(Abs, Op)> = BTreeSet::new();
    let mut states: BTreeSet<Abs> = BTreeSet::new();
    // full enumeration
    fn rec(a: &Abs, prefix: &mut Vec<Op>, left: usize, out: &mut Vec<Vec<Op>>, seen: &mut BTreeSet<(Abs, Op)>, states: &mut BTreeSet<Abs>) {
        states.insert(a.clone());
        if left == 0 {
            return;
        }
        for op in a.enabled() {
            seen.insert((a.clone(), op.clone()));
            prefix.push(op.clone());
            out.push(prefix.clone());
            rec(&a.step(&op), prefix, left - 1, out, seen, states);
            prefix.pop();
        }
    }
    rec(&Abs::init(), &mut Vec::new(), full, &mut out, &mut seen_tr, &mut states);
    // keep only maximal histories of the full enumeration (a prefix is executed as part of its extensions)
    let mut maximal: Vec<Vec<Op>> = out.iter().filter(|h| h.len() == full).cloned().collect();
    // breadth first over canonical states
    let mut reach: BTreeMap<Abs, Vec<Op>> = BTreeMap::new();
    reach.insert(Abs::init(), vec![]);
    let mut frontier = vec![Abs::init()];
    for _depth in 0..deep {
        let mut next = Vec::new();
        for a in &frontier {
            let path = reach[a].clone();
            for op in a.enabled() {
                let b = a.step(&op);
                let mut h = path.clone();
                h.push(op.clone());
                if seen_tr.insert((a.clone(), op.clone())) || !reach.contains_key(&b) {
                    maximal.push(h.clone());
                }
                if !reach.contains_key(&b) {
                    reach.insert(b.clone(), h);
                    next.push(b.clone());
                }
                states.insert(b);
            }
        }
        frontier = next;
    }
    let ntr = seen_tr.len();
    (maximal, states.len(), ntr)
}

pub fn main() -> ! {
    vcommon::install_quiet_panic_hook();
    let mut run = Run::from_args("C07", "model_checking");
    let jobs = std::env::var("E3_JOBS").ok().and_then(|s| s.parse().ok()).unwrap_or(vcommon::ncpu());
    let (so, w) = prepare(jobs);
    let nfuncs = w.funcs.len();
    let lib = Lib::open(&so.to_string_lossy()).unwrap_or_else(|e| vcommon::machinery(&e));
    RHost::install(lib, w);

    if let Some(detail) = run.replay_detail() {
        let ops: Vec<Op> = detail["ops"]
            .as_array()
            .map(|a| a.iter().filter_map(|x| x.as_str().and_then(Op::decode)).collect())
            .unwrap_or_default();
        println!("replay: {:?}", ops.iter().map(|o| o.encode()).collect::<Vec<_>>());
        std::env::set_var("VERIF_CHILD_STDERR", "1");
        let o = vcommon::isolated(60_000, || serde_json::to_vec(&res_host::run_trace(&ops)).unwrap());
        let failing = match &o {
            Outcome::Ok(b) => {
                let v: Value = serde_json::from_slice(b).unwrap_or(Value::Null);
                println!("  violations: {}", v["viol"]);
                println!("  time: {} us", v["us"]);
                v["viol"].as_array().map(|a| !a.is_empty()).unwrap_or(true)
            }
            other => {
                println!("  guest {}", other.describe());
                true
            }
        };
        println!("replay: {}", if failing { "still failing" } else { "passes" });
        std::process::exit(if failing { 1 } else { 0 })
    }

    let (full, deep) = run.pick((2usize, 4usize), (3usize, 6usize));
    let full = std::env::var("E3_FULL").ok().and_then(|s| s.parse().ok()).unwrap_or(full);
    let deep = std::env::var("E3_DEEP").ok().and_then(|s| s.parse().ok()).unwrap_or(deep);
    let (hist, nstates, ntrans) = histories(full, deep);
    if std::env::var_os("E3_DRY").is_some() {
        println!("histories={} states={nstates} transitions={ntrans} steps={}", hist.len(), hist.iter().map(|h| h.len()).sum::<usize>());
        std::process::exit(0);
    }
    // Histories run in batches inside forked children: a history that ends without a violation
    // leaves the guest clean (everything released, checked), so the next one can reuse the process;
    // after a violation or a crash the rest of the batch continues in a fresh child.
    const BATCH: usize = 48;
    let nb = hist.len().div_ceil(BATCH);
    let batches = vcommon::par_map(nb, jobs, |b| {
        let lo = b * BATCH;
        let hi = (lo + BATCH).min(hist.len());
        let mut out: Vec<Value> = Vec::new();
        let mut at = lo;
        while at < hi {
            let start = at;
            let o = vcommon::isolated(120_000, || {
                let mut rs: Vec<Value> = Vec::new();
                for ops in &hist[start..hi] {
                    let r = res_host::run_trace(ops);
                    let dirty = r["viol"].as_array().map(|a| !a.is_empty()).unwrap_or(true);
                    rs.push(r);
                    if dirty {
                        break;
                    }
                }
                serde_json::to_vec(&rs).unwrap()
            });
            match o {
                Outcome::Ok(bytes) => {
                    let rs: Vec<Value> = serde_json::from_slice(&bytes).unwrap_or_default();
                    if rs.is_empty() {
                        out.push(json!({"crash": "no result from the child"}));
                        at += 1;
                    } else {
                        at += rs.len();
                        out.extend(rs);
                    }
                }
                _ => {
                    // attribute: run the histories of this stretch one per child until the crash is found
                    let mut found = false;
                    while at < hi && !found {
                        let ops = &hist[at];
                        match vcommon::isolated(30_000, || serde_json::to_vec(&res_host::run_trace(ops)).unwrap()) {
                            Outcome::Ok(bytes) => out.push(serde_json::from_slice(&bytes).unwrap_or(json!({"crash": "unparsable child output"}))),
                            other => {
                                out.push(json!({"crash": other.describe()}));
                                found = true;
                            }
                        }
                        at += 1;
                    }
                }
            }
        }
        Value::Array(out)
    });
    let results: Vec<Value> = batches.into_iter().flat_map(|b| b.as_array().cloned().unwrap_or_default()).collect();
    if results.len() != hist.len() {
        vcommon::machinery(&format!("{} results for {} histories", results.len(), hist.len()));
    }
    let mut samples = vcommon::Samples::new(10);
    let mut steps = 0u64;
    let mut handles = 0u64;
    let mut guest_us = 0u64;
    let mut all_us: Vec<u64> = Vec::new();

    let mut destroyed = 0u64;
    let mut outcome_kinds: BTreeSet<String> = BTreeSet::new();
    let mut ops_used: BTreeSet<String> = BTreeSet::new();
    for (ops, r) in hist.iter().zip(&results) {
        let enc: Vec<String> = ops.iter().map(|o| o.encode()).collect();
        steps += ops.len() as u64;
        for o in ops {
            ops_used.insert(o.name());
        }
        if let Some(c) = r["crash"].as_str() {
            outcome_kinds.insert("crash".into());
            let last = ops.last().map(|o| o.name()).unwrap_or_default();
            run.violation(
                &format!("crash:{last}"),
                &format!("history {enc:?}: the guest {c}"),
                json!({"ops": enc}),
            );
            continue;
        }
        guest_us += r["us"].as_u64().unwrap_or(0);
        all_us.push(r["us"].as_u64().unwrap_or(0));

        handles += r["handles"].as_u64().unwrap_or(0);
        destroyed += r["destroyed"].as_u64().unwrap_or(0);
        let v = r["viol"].as_array().cloned().unwrap_or_default();
        outcome_kinds.insert(if v.is_empty() { "ok".into() } else { v[0][0].as_str().unwrap_or("?").split(':').next().unwrap_or("?").to_string() });
        for e in v {
            run.violation(
                e[0].as_str().unwrap_or("?"),
                &format!("{} — history {enc:?}", e[1].as_str().unwrap_or("?")),
                json!({"ops": enc}),
            );
        }
        samples.offer(|| json!({"history": enc, "handles_created": r["handles"], "objects_destroyed": r["destroyed"], "states": r["states"]}));
    }
    all_us.sort();
    let coverage = json!({
        "states": nstates,
        "transitions": ntrans,
        "traces_validated_against_impl": hist.len(),
        "evaluations": steps,
        "exhaustive": true,
        "bounds": {
            "all_operation_sequences_up_to_depth": full,
            "every_enabled_operation_from_every_canonical_state_reached_within_depth": deep,
            "live_objects_per_resource": res_host::MAX_LIVE,
            "operation_alphabet": ops_used,
            "own_shapes": res_world::OWN_SHAPES.iter().map(|s| s.name()).collect::<Vec<_>>(),
            "borrow_shapes": res_world::BORROW_SHAPES.iter().map(|s| s.name()).collect::<Vec<_>>(),
        },
        "state_definition": "canonical host tables: which guest slots hold an owning handle of the imported resource / of the exported resource, and how many exported objects the host owns",
        "world_functions": nfuncs,
        "handles_created": handles,
        "time_inside_histories_s": guest_us as f64 / 1e6,
        "history_time_us": json!({"min": all_us.first(), "median": all_us.get(all_us.len() / 2), "max": all_us.last()}),
        "exported_objects_destroyed": destroyed,
        "distinct_outcomes": outcome_kinds,
        "oracle": "reference handle-table model (own / borrow entries, indices never reused, transfer on lift of own, borrow handles scoped to the export call, destructor when the last owning handle goes): after every step the guest's table holds exactly the owning handles the model says, no borrow handle survives a call, the guest's instrumented Drop count and destruction log equal the model's, every method / borrow reaches the object created under that id, no stale / unknown / wrong-type / borrow-as-own handle use; at the end no handle, no live object and no extra heap block is left; checking allocator faults",
        "samples": samples.items,
    });
    let assumptions = vec![
        "native execution (pointer width 8); the guest heap is mapped below 2 GiB because the generated code passes resource representations through an i32 (correct on wasm32)".to_string(),
        "default generator configuration only (owning, std)".to_string(),
        "error-context handles and stream / future handles are not in this world (they need the async runtime: C18-C20)".to_string(),
        "the host never reuses handle indices; a conforming host may, the guest cannot observe the difference".to_string(),
        "a borrow handle passed to an export must be dropped by the guest before the export returns (the component model traps otherwise); the property's `borrowed handles are never dropped by the guest` is read as: a borrow is never dropped as if it were owned, and an owned handle lent to an import is not dropped by the lending".to_string(),
    ];
    run.finish(coverage, assumptions)
}
