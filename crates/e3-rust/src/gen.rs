//! Generator configurations and the in-process call of the real Rust generator.

use wit_bindgen_core::{Files, WorldGenerator};
use wit_parser::Resolve;

#[derive(Clone, Copy, Debug, PartialEq, Eq, Hash, PartialOrd, Ord)]
pub struct Config {
    pub borrowing: bool,
    /// `--std-feature` ("no-std" variant of crates/test/src/rust.rs)
    pub std_feature: bool,
    pub merge: bool,
    pub hashmap: bool,
    pub raw_strings: bool,
}

impl Config {
    pub fn default_cfg() -> Config {
        Config { borrowing: false, std_feature: false, merge: false, hashmap: false, raw_strings: false }
    }

    pub fn name(&self) -> String {
        format!(
            "{}-{}-{}-{}-{}",
            if self.borrowing { "borrowing" } else { "owning" },
            if self.std_feature { "nostd" } else { "std" },
            if self.merge { "merge" } else { "nomerge" },
            if self.hashmap { "hashmap" } else { "btreemap" },
            if self.raw_strings { "rawstr" } else { "str" },
        )
    }

    pub fn short(&self) -> String {
        format!(
            "{}{}{}{}{}",
            if self.borrowing { 'b' } else { 'o' },
            if self.std_feature { 'n' } else { 's' },
            if self.merge { 'm' } else { 'x' },
            if self.hashmap { 'h' } else { 't' },
            if self.raw_strings { 'r' } else { 'u' },
        )
    }

    pub fn parse(s: &str) -> Option<Config> {
        let p: Vec<&str> = s.split('-').collect();
        if p.len() != 5 {
            return None;
        }
        Some(Config {
            borrowing: p[0] == "borrowing",
            std_feature: p[1] == "nostd",
            merge: p[2] == "merge",
            hashmap: p[3] == "hashmap",
            raw_strings: p[4] == "rawstr",
        })
    }

    /// The full factorial of the property's quantifier (32 configurations). The combinations
    /// crates/test/src/rust.rs lists as expected failures concern
    /// `borrowing-duplicate-if-necessary` (not in the quantifier) and `--async` (C08) only.
    pub fn all() -> Vec<Config> {
        let mut v = Vec::new();
        for borrowing in [false, true] {
            for std_feature in [false, true] {
                for merge in [false, true] {
                    for hashmap in [false, true] {
                        for raw_strings in [false, true] {
                            v.push(Config { borrowing, std_feature, merge, hashmap, raw_strings });
                        }
                    }
                }
            }
        }
        v
    }

    /// Eight configurations covering every pair of option values (orthogonal array L8(2^5):
    /// columns a, b, c, a^b, a^c).
    pub fn pairwise() -> Vec<Config> {
        let mut v = Vec::new();
        for a in [false, true] {
            for b in [false, true] {
                for c in [false, true] {
                    v.push(Config { borrowing: a, std_feature: b, merge: c, hashmap: a ^ b, raw_strings: a ^ c });
                }
            }
        }
        v
    }
}

pub fn generate(wit: &str, cfg: &Config) -> Result<String, String> {
    generate_async(wit, cfg, &[])
}

/// As [`generate`], with `--async` directives (e.g. `-import:t:t/i#h0`, `-all`).
pub fn generate_async(wit: &str, cfg: &Config, directives: &[String]) -> Result<String, String> {
    let mut resolve = Resolve::default();
    let pkg = resolve.push_str("chunk.wit", wit).map_err(|e| format!("WIT does not parse: {e:#}"))?;
    let world = resolve.select_world(&[pkg], Some("w")).map_err(|e| format!("select_world: {e:#}"))?;
    let mut opts = wit_bindgen_rust::Opts::default();
    opts.generate_all = true;
    opts.std_feature = cfg.std_feature;
    opts.raw_strings = cfg.raw_strings;
    // user code in the harness lives in the crate root next to `mod bindings`
    opts.pub_export_macro = true;
    opts.default_bindings_module = Some("crate::bindings".to_string());
    if cfg.borrowing {
        opts.ownership = wit_bindgen_rust::Ownership::Borrowing { duplicate_if_necessary: false };
    }
    if cfg.merge {
        opts.merge_structurally_equal_types = Some(None);
    }
    if cfg.hashmap {
        opts.map_type = Some("std::collections::HashMap".to_string());
    }
    for d in directives {
        opts.async_.push(d);
    }
    let r = vcommon::catch(move || {
        let mut files = Files::default();
        let mut g = opts.build();
        g.generate(&mut resolve, world, &mut files).map(|_| {
            files
                .iter()
                .map(|(n, b)| (n.to_string(), String::from_utf8_lossy(b).into_owned()))
                .collect::<Vec<_>>()
        })
    });
    match r {
        Err(p) => Err(format!("generator panicked: {p}")),
        Ok(Err(e)) => Err(format!("generator error: {e:#}")),
        Ok(Ok(f)) => {
            let mut rs: Vec<_> = f.into_iter().filter(|f| f.0.ends_with(".rs")).collect();
            if rs.len() != 1 {
                return Err(format!("expected one .rs file, got {}", rs.len()));
            }
            Ok(rs.remove(0).1)
        }
    }
}
