//! Harness generator: the user side of a chunk crate.
//!
//! * conversions between the Rust values of the generated bindings and the dynamic `rt::V`
//!   (type-directed by the *reference* type `Ty` walked in parallel with the Rust type read from
//!   the bindings with `syn`, so that owned / borrowed forms are handled per position);
//! * `impl Guest for Component`: every export records what it saw and returns the value the host
//!   asked for; one driver per import that passes the value the host asked for and records the
//!   result;
//! * `extern "C"` trampolines that call an export through a function pointer with the
//!   **reference** core signature (`refabi::flatten_functype`, never read from the generator), and
//!   definitions of every import symbol with the reference core signature that forward to the
//!   host's dispatch callback.

use crate::gen::Config;
use crate::nlower::{core_ty_name, W};
use crate::rsindex::{Def, FnSig, Index, ModPath};
use crate::rewrite::mangle;
use crate::world::{Func, Level};
use refabi::abi::{flatten_functype, CanonOpts, Context, CoreSig, CoreTy};
use refabi::Ty;
use std::collections::BTreeMap;
use std::fmt::Write;
use syn::Type;

pub struct Conv {
    /// Rust type, valid at the crate root; borrowed forms use lifetime `'a`
    pub rty: String,
    /// template: `@R@` = an expression of type `&RTY` → expression of type `V`
    to_v: String,
    /// template: `@V@` = an expression of type `&'a V` → expression of type `RTY` (may use `a`)
    from_v: String,
}

impl Conv {
    pub fn to_v(&self, r: &str) -> String {
        self.to_v.replace("@R@", r)
    }
    pub fn from_v(&self, v: &str) -> String {
        self.from_v.replace("@V@", v)
    }
}

pub struct Gen<'a> {
    pub ix: &'a Index,
    pub cfg: Config,
    fns: BTreeMap<String, String>,
    in_progress: Vec<String>,
    n: usize,
}

fn last_seg(t: &Type) -> Option<(String, Vec<Type>)> {
    if let Type::Path(p) = t {
        if p.qself.is_some() {
            return None;
        }
        let s = p.path.segments.last()?;
        let mut args = Vec::new();
        if let syn::PathArguments::AngleBracketed(a) = &s.arguments {
            for g in &a.args {
                if let syn::GenericArgument::Type(t) = g {
                    args.push(t.clone());
                }
            }
        }
        return Some((s.ident.to_string(), args));
    }
    None
}

fn is_unit(t: &Type) -> bool {
    matches!(t, Type::Tuple(t) if t.elems.is_empty())
}

fn show(t: &Type) -> String {
    quote::quote!(#t).to_string()
}

impl<'a> Gen<'a> {
    pub fn new(ix: &'a Index, cfg: Config) -> Gen<'a> {
        Gen { ix, cfg, fns: BTreeMap::new(), in_progress: Vec::new(), n: 0 }
    }

    fn fresh(&mut self, p: &str) -> String {
        self.n += 1;
        format!("{p}{}", self.n)
    }

    pub fn helper_fns(&self) -> String {
        self.fns.values().cloned().collect::<Vec<_>>().join("\n")
    }

    fn scalar(&self, rty: &str, to_v: &str, from_v: &str) -> Conv {
        Conv { rty: rty.into(), to_v: to_v.into(), from_v: from_v.into() }
    }

    pub fn conv(&mut self, ctx: &ModPath, ty: &Ty, rt: &Type) -> Result<Conv, String> {
        // peel groups / parens
        let rt = match rt {
            Type::Paren(p) => &*p.elem,
            Type::Group(g) => &*g.elem,
            o => o,
        };
        if let Type::Reference(r) = rt {
            return match &*r.elem {
                Type::Path(p) if p.path.is_ident("str") => {
                    if *ty != Ty::String {
                        return Err(format!("&str for {ty}"));
                    }
                    Ok(self.scalar("&'a str", "V::Str((*@R@).to_string())", "@V@.as_str()"))
                }
                Type::Slice(s) => match ty {
                    Ty::String => {
                        if show(&s.elem) != "u8" {
                            return Err(format!("slice of {} for string", show(&s.elem)));
                        }
                        Ok(self.scalar("&'a [u8]", "V::from_bytes(&@R@[..])", "@V@.as_str().as_bytes()"))
                    }
                    Ty::List(e) => {
                        let inner = self.conv(ctx, e, &s.elem)?;
                        let x = self.fresh("x");
                        Ok(Conv {
                            rty: format!("&'a [{}]", inner.rty),
                            to_v: format!("V::List(@R@.iter().map(|{x}| {}).collect())", inner.to_v(&x)),
                            from_v: format!(
                                "a.keep(rt::mk_vec(@V@.as_list().iter().map(|{x}| {}))).as_slice()",
                                inner.from_v(&x)
                            ),
                        })
                    }
                    o => Err(format!("slice for {o}")),
                },
                other => {
                    let inner = self.conv(ctx, ty, other)?;
                    Ok(Conv {
                        rty: format!("&'a {}", inner.rty),
                        to_v: inner.to_v("(*@R@)"),
                        from_v: format!("a.keep({})", inner.from_v("@V@")),
                    })
                }
            };
        }
        let seg = last_seg(rt);
        let seg_name = seg.as_ref().map(|s| s.0.as_str()).unwrap_or("");
        let expect = |want: &str| -> Result<(), String> {
            if seg_name == want {
                Ok(())
            } else {
                Err(format!("Rust type `{}` for {ty} (expected `{want}`)", show(rt)))
            }
        };
        match ty {
            Ty::Bool => {
                expect("bool")?;
                Ok(self.scalar("bool", "V::Bool(*@R@)", "@V@.as_bool()"))
            }
            Ty::U8 | Ty::U16 | Ty::U32 | Ty::U64 => {
                let n = ty.to_string();
                expect(&n)?;
                Ok(self.scalar(&n, "V::U(*@R@ as u64)", &format!("(@V@.as_u() as {n})")))
            }
            Ty::S8 | Ty::S16 | Ty::S32 | Ty::S64 => {
                let n = ty.to_string().replace('s', "i");
                expect(&n)?;
                Ok(self.scalar(&n, "V::S(*@R@ as i64)", &format!("(@V@.as_s() as {n})")))
            }
            Ty::F32 => {
                expect("f32")?;
                Ok(self.scalar("f32", "V::F32(@R@.to_bits())", "@V@.as_f32()"))
            }
            Ty::F64 => {
                expect("f64")?;
                Ok(self.scalar("f64", "V::F64(@R@.to_bits())", "@V@.as_f64()"))
            }
            Ty::Char => {
                expect("char")?;
                Ok(self.scalar("char", "V::Char(*@R@ as u32)", "@V@.as_char()"))
            }
            Ty::String => match seg_name {
                "String" => Ok(self.scalar("String", "V::Str((*@R@).to_string())", "rt::mk_string(@V@.as_str())")),
                "Vec" => {
                    let (_, args) = seg.unwrap();
                    if args.len() != 1 || show(&args[0]) != "u8" {
                        return Err(format!("`{}` for string", show(rt)));
                    }
                    Ok(self.scalar("Vec<u8>", "V::from_bytes(&@R@[..])", "rt::mk_bytes(@V@.as_str().as_bytes())"))
                }
                _ => Err(format!("Rust type `{}` for string", show(rt))),
            },
            Ty::List(e) => {
                expect("Vec")?;
                let (_, args) = seg.unwrap();
                let inner = self.conv(ctx, e, args.first().ok_or("Vec without argument")?)?;
                let x = self.fresh("x");
                Ok(Conv {
                    rty: format!("Vec<{}>", inner.rty),
                    to_v: format!("V::List(@R@.iter().map(|{x}| {}).collect())", inner.to_v(&x)),
                    from_v: format!(
                        "rt::mk_vec(@V@.as_list().iter().map(|{x}| {}))",
                        inner.from_v(&x)
                    ),
                })
            }
            Ty::FixedList(e, n) => {
                let Type::Array(a) = rt else { return Err(format!("Rust type `{}` for {ty}", show(rt))) };
                let inner = self.conv(ctx, e, &a.elem)?;
                let x = self.fresh("x");
                let l = self.fresh("l");
                let elems: Vec<String> = (0..*n).map(|i| inner.from_v(&format!("(&{l}[{i}])"))).collect();
                Ok(Conv {
                    rty: format!("[{}; {n}]", inner.rty),
                    to_v: format!("V::List(@R@.iter().map(|{x}| {}).collect())", inner.to_v(&x)),
                    from_v: format!("{{ let {l} = @V@.as_list(); [{}] }}", elems.join(", ")),
                })
            }
            Ty::Map(k, x) => {
                let (_, args) = seg.ok_or_else(|| format!("Rust type `{}` for {ty}", show(rt)))?;
                if args.len() != 2 {
                    return Err(format!("Rust type `{}` for {ty}", show(rt)));
                }
                let kc = self.conv(ctx, k, &args[0])?;
                let xc = self.conv(ctx, x, &args[1])?;
                let map_ty =
                    if self.cfg.hashmap { "std::collections::HashMap" } else { "std::collections::BTreeMap" };
                let rty = format!("{map_ty}<{}, {}>", kc.rty, xc.rty);
                let (kv, xv) = (self.fresh("k"), self.fresh("x"));
                Ok(Conv {
                    to_v: format!(
                        "V::Map(@R@.iter().map(|({kv}, {xv})| ({}, {})).collect())",
                        kc.to_v(&kv),
                        xc.to_v(&xv)
                    ),
                    from_v: format!(
                        "@V@.as_map().iter().map(|({kv}, {xv})| ({}, {})).collect::<{rty}>()",
                        kc.from_v(&kv),
                        xc.from_v(&xv)
                    ),
                    rty,
                })
            }
            Ty::Option(e) => {
                expect("Option")?;
                let (_, args) = seg.unwrap();
                let inner = self.conv(ctx, e, args.first().ok_or("Option without argument")?)?;
                let x = self.fresh("x");
                let p = self.fresh("p");
                Ok(Conv {
                    rty: format!("Option<{}>", inner.rty),
                    to_v: format!(
                        "match @R@ {{ None => V::Var(0, None), Some({x}) => V::Var(1, Some(Box::new({}))) }}",
                        inner.to_v(&x)
                    ),
                    from_v: format!(
                        "match @V@.as_var() {{ (0, _) => None, (_, {p}) => Some({}) }}",
                        inner.from_v(&format!("{p}.unwrap()"))
                    ),
                })
            }
            Ty::Result(a, b) => {
                expect("Result")?;
                let (_, args) = seg.unwrap();
                if args.len() != 2 {
                    return Err(format!("Rust type `{}` for {ty}", show(rt)));
                }
                let side = |g: &mut Self, t: &Option<Box<Ty>>, r: &Type| -> Result<Option<Conv>, String> {
                    match t {
                        None => {
                            if is_unit(r) {
                                Ok(None)
                            } else {
                                Err(format!("Rust type `{}` for absent result payload", show(r)))
                            }
                        }
                        Some(t) => Ok(Some(g.conv(ctx, t, r)?)),
                    }
                };
                let ac = side(self, a, &args[0])?;
                let bc = side(self, b, &args[1])?;
                let x = self.fresh("x");
                let p = self.fresh("p");
                let tv = |c: &Option<Conv>, i: u32| match c {
                    None => format!("V::Var({i}, None)"),
                    Some(c) => format!("V::Var({i}, Some(Box::new({})))", c.to_v(&x)),
                };
                let fv = |c: &Option<Conv>| match c {
                    None => "()".to_string(),
                    Some(c) => c.from_v(&format!("{p}.unwrap()")),
                };
                let rty = |c: &Option<Conv>| c.as_ref().map(|c| c.rty.clone()).unwrap_or("()".into());
                Ok(Conv {
                    rty: format!("Result<{}, {}>", rty(&ac), rty(&bc)),
                    to_v: format!("match @R@ {{ Ok({x}) => {}, Err({x}) => {} }}", tv(&ac, 0), tv(&bc, 1)),
                    from_v: format!(
                        "match @V@.as_var() {{ (0, {p}) => Ok({}), (_, {p}) => Err({}) }}",
                        fv(&ac),
                        fv(&bc)
                    ),
                })
            }
            Ty::Tuple(fs) => {
                let Type::Tuple(tt) = rt else { return Err(format!("Rust type `{}` for {ty}", show(rt))) };
                if tt.elems.len() != fs.len() {
                    return Err(format!("tuple arity of `{}` for {ty}", show(rt)));
                }
                let mut cs = Vec::new();
                for (f, r) in fs.iter().zip(tt.elems.iter()) {
                    cs.push(self.conv(ctx, f, r)?);
                }
                let f = self.fresh("f");
                let tos: Vec<String> = cs.iter().enumerate().map(|(i, c)| c.to_v(&format!("(&@R@.{i})"))).collect();
                let froms: Vec<String> =
                    cs.iter().enumerate().map(|(i, c)| c.from_v(&format!("(&{f}[{i}])"))).collect();
                Ok(Conv {
                    rty: format!("({},)", cs.iter().map(|c| c.rty.clone()).collect::<Vec<_>>().join(", ")),
                    to_v: format!("V::Rec(vec![{}])", tos.join(", ")),
                    from_v: format!("{{ let {f} = @V@.as_rec(); ({},) }}", froms.join(", ")),
                })
            }
            Ty::Record(_) | Ty::Variant(_) | Ty::Enum(_) | Ty::Flags(_) => self.named(ctx, ty, rt),
            o => Err(format!("type {o} is not supported by the E3 value harness")),
        }
    }

    fn named(&mut self, ctx: &ModPath, ty: &Ty, rt: &Type) -> Result<Conv, String> {
        let Type::Path(tp) = rt else { return Err(format!("Rust type `{}` for {ty}", show(rt))) };
        let (m, name, def) = self
            .ix
            .resolve(ctx, &tp.path)
            .ok_or_else(|| format!("cannot resolve `{}` (in {}) for {ty}", show(rt), ctx.join("::")))?;
        if let Def::Alias(t) = &def {
            // alias of an anonymous type
            return self.conv(&m, ty, t);
        }
        let lifetime = match &def {
            Def::Struct(s) => s.lifetime,
            Def::Enum(e) => e.lifetime,
            _ => false,
        };
        let key = format!("{}_{}", m.join("_"), name);
        let mut path = String::from("crate::bindings");
        for s in &m {
            path.push_str("::");
            path.push_str(s);
        }
        path.push_str("::");
        path.push_str(&name);
        let rty = if lifetime { format!("{path}<'a>") } else { path.clone() };
        let conv = Conv {
            rty: rty.clone(),
            to_v: format!("tov_{key}(@R@)"),
            from_v: format!("fromv_{key}(a, @V@)"),
        };
        if self.fns.contains_key(&key) || self.in_progress.contains(&key) {
            return Ok(conv);
        }
        self.in_progress.push(key.clone());
        let mut tov = String::new();
        let mut fromv = String::new();
        match (ty, &def) {
            (Ty::Record(fs), Def::Struct(s)) => {
                if s.fields.len() != fs.len() {
                    return Err(format!("struct {name} has {} fields, {ty} has {}", s.fields.len(), fs.len()));
                }
                let mut tos = Vec::new();
                let mut froms = Vec::new();
                for (i, (ft, (fname, frt))) in fs.iter().zip(&s.fields).enumerate() {
                    if *fname != format!("f{i}") {
                        return Err(format!("struct {name}: field {i} is named {fname}"));
                    }
                    let c = self.conv(&m, ft, frt)?;
                    tos.push(c.to_v(&format!("(&r.{fname})")));
                    froms.push(format!("{fname}: {}", c.from_v(&format!("(&f[{i}])"))));
                }
                write!(tov, "V::Rec(vec![{}])", tos.join(", ")).unwrap();
                write!(fromv, "let f = v.as_rec(); {path} {{ {} }}", froms.join(", ")).unwrap();
            }
            (Ty::Variant(cs), Def::Enum(e)) => {
                if e.variants.len() != cs.len() {
                    return Err(format!("enum {name} has {} variants, {ty} has {}", e.variants.len(), cs.len()));
                }
                let mut tos = Vec::new();
                let mut froms = Vec::new();
                for (i, (ct, (vname, vrt))) in cs.iter().zip(&e.variants).enumerate() {
                    if *vname != format!("C{i}") {
                        return Err(format!("enum {name}: variant {i} is named {vname}"));
                    }
                    match (ct, vrt) {
                        (None, None) => {
                            tos.push(format!("{path}::{vname} => V::Var({i}, None)"));
                            froms.push(format!("({i}, _) => {path}::{vname}"));
                        }
                        (Some(ct), Some(vrt)) => {
                            let c = self.conv(&m, ct, vrt)?;
                            tos.push(format!("{path}::{vname}(x) => V::Var({i}, Some(Box::new({})))", c.to_v("x")));
                            froms.push(format!("({i}, p) => {path}::{vname}({})", c.from_v("p.unwrap()")));
                        }
                        _ => return Err(format!("enum {name}: payload presence of variant {i} differs from {ty}")),
                    }
                }
                write!(tov, "match r {{ {} }}", tos.join(", ")).unwrap();
                write!(fromv, "match v.as_var() {{ {}, (i, _) => rt::no_case(i) }}", froms.join(", ")).unwrap();
            }
            (Ty::Enum(n), Def::Enum(e)) => {
                if e.variants.len() != *n as usize {
                    return Err(format!("enum {name} has {} variants, {ty}", e.variants.len()));
                }
                let mut tos = Vec::new();
                let mut froms = Vec::new();
                for (i, (vname, _)) in e.variants.iter().enumerate() {
                    if *vname != format!("E{i}") {
                        return Err(format!("enum {name}: variant {i} is named {vname}"));
                    }
                    tos.push(format!("{path}::{vname} => V::Var({i}, None)"));
                    froms.push(format!("{i} => {path}::{vname}"));
                }
                write!(tov, "match r {{ {} }}", tos.join(", ")).unwrap();
                write!(fromv, "match v.as_var().0 {{ {}, i => rt::no_case(i) }}", froms.join(", ")).unwrap();
            }
            (Ty::Flags(n), Def::Flags) => {
                let tos: Vec<String> = (0..*n).map(|i| format!("r.contains({path}::B{i})")).collect();
                let froms: Vec<String> = (0..*n).map(|i| format!("if b[{i}] {{ f |= {path}::B{i}; }}")).collect();
                write!(tov, "V::Flags(vec![{}])", tos.join(", ")).unwrap();
                write!(fromv, "let b = v.as_flags(); let mut f = {path}::empty(); {} f", froms.join(" ")).unwrap();
            }
            (t, _) => return Err(format!("definition of {name} does not fit {t}")),
        }
        self.in_progress.retain(|k| *k != key);
        self.fns.insert(
            key.clone(),
            format!(
                "#[allow(unused)]\nfn tov_{key}<'a>(r: &{rty}) -> V {{ {tov} }}\n#[allow(unused)]\nfn fromv_{key}<'a>(a: &'a Arena, v: &'a V) -> {rty} {{ {fromv} }}\n"
            ),
        );
        Ok(conv)
    }
}

fn rust_core(t: CoreTy) -> &'static str {
    core_ty_name(t)
}

fn from_slot(t: CoreTy, e: &str) -> String {
    match t {
        CoreTy::I32 => format!("({e} as u32 as i32)"),
        CoreTy::I64 => format!("({e} as i64)"),
        CoreTy::F32 => format!("f32::from_bits({e} as u32)"),
        CoreTy::F64 => format!("f64::from_bits({e})"),
    }
}

fn to_slot(t: CoreTy, e: &str) -> String {
    match t {
        CoreTy::I32 => format!("({e} as u32 as u64)"),
        CoreTy::I64 => format!("({e} as u64)"),
        CoreTy::F32 => format!("({e}.to_bits() as u64)"),
        CoreTy::F64 => format!("{e}.to_bits()"),
    }
}

pub fn export_sig(ty: &Ty) -> CoreSig {
    flatten_functype(CanonOpts { async_: false, callback: false }, &[ty.clone()], Some(ty), Context::Lift, W)
}
pub fn import_sig(ty: &Ty) -> CoreSig {
    flatten_functype(CanonOpts { async_: false, callback: false }, &[ty.clone()], Some(ty), Context::Lower, W)
}

fn fn_ptr_ty(sig: &CoreSig) -> String {
    let ps: Vec<&str> = sig.params.iter().map(|t| rust_core(*t)).collect();
    let r = sig.results.first().map(|t| format!(" -> {}", rust_core(*t))).unwrap_or_default();
    format!("unsafe extern \"C\" fn({}){r}", ps.join(", "))
}

/// One `match` arm of `verif_call_export`: call the function pointer `fp` with core signature `es`.
pub fn tramp_arm(k: usize, es: &CoreSig) -> String {
    let args: Vec<String> =
        es.params.iter().enumerate().map(|(i, t)| from_slot(*t, &format!("*args.add({i})"))).collect();
    let call = format!("f({})", args.join(", "));
    let body = match es.results.first() {
        None => format!("{call};"),
        Some(t) => format!("let r = {call}; *ret = {};", to_slot(*t, "r")),
    };
    format!("        {k} => {{ let f: {} = core::mem::transmute(fp); {body} }}\n", fn_ptr_ty(es))
}

/// Definition of the host symbol of core import `(module, name)` with core signature `is`: packs
/// the arguments into `u64` slots and calls the host's dispatch callback with index `k`.
pub fn shim_def(k: usize, module: &str, name: &str, is: &CoreSig) -> String {
    let params: Vec<String> = is.params.iter().enumerate().map(|(i, t)| format!("a{i}: {}", rust_core(*t))).collect();
    let slots: Vec<String> = is.params.iter().enumerate().map(|(i, t)| to_slot(*t, &format!("a{i}"))).collect();
    let (ret_ty, ret_expr) = match is.results.first() {
        None => (String::new(), "let _ = r;".to_string()),
        Some(t) => (format!(" -> {}", rust_core(*t)), from_slot(*t, "r")),
    };
    format!(
        "#[unsafe(export_name = \"{}\")]\nunsafe extern \"C\" fn imp_shim_{k}({}){ret_ty} {{\n    let args: [u64; {}] = [{}];\n    let r = rt::dispatch({k}, &args);\n    {ret_expr}\n}}\n",
        mangle(module, name),
        params.join(", "),
        is.params.len(),
        slots.join(", ")
    )
}

pub struct Harness {
    pub user_rs: String,
    /// functions the harness could not bind (Rust-level form not understood): `(k, reason)`
    pub skipped: Vec<(usize, String)>,
}

fn find_fn<'i>(ix: &'i Index, m: &ModPath, name: &str) -> Option<&'i FnSig> {
    ix.fns.get(&(m.clone(), name.to_string()))
}

fn snake(s: &str) -> String {
    s.replace('-', "_")
}

/// Generate `user.rs` for a chunk.
pub fn generate(ix: &Index, cfg: Config, funcs: &[Func]) -> Harness {
    let mut g = Gen::new(ix, cfg);
    let mut skipped = Vec::new();
    let iface_imp: ModPath = vec!["t".into(), "t".into(), "i".into()];
    let iface_exp: ModPath = vec!["exports".into(), "t".into(), "t".into(), "i".into()];
    let root: ModPath = vec![];

    let mut iface_methods = String::new();
    let mut world_methods = String::new();
    let mut drivers = String::new();
    let mut driver_arms = String::new();
    let mut tramp_arms = String::new();
    let mut shims = String::new();
    let mut have_iface_trait = false;
    let mut have_world_trait = false;

    // Every method of a generated trait must be implemented; a function we cannot bind gets a
    // body that aborts (and is never called by the host).
    for f in funcs {
        let (imp_mod, exp_mod) = match f.level {
            Level::Iface => (&iface_imp, &iface_exp),
            Level::World => (&root, &root),
        };
        let imp_rust = snake(&f.imp_wit);
        let exp_rust = snake(&f.exp_wit);
        let k = f.k;
        // ---- export
        let trait_sig = ix
            .traits
            .get(&(exp_mod.clone(), "Guest".to_string()))
            .and_then(|ms| ms.iter().find(|(n, _)| *n == exp_rust).map(|(_, s)| s.clone()));
        let methods = match f.level {
            Level::Iface => {
                have_iface_trait = true;
                &mut iface_methods
            }
            Level::World => {
                have_world_trait = true;
                &mut world_methods
            }
        };
        let mut ok_export = false;
        match &trait_sig {
            None => skipped.push((k, format!("export {exp_rust}: no such method in trait Guest"))),
            Some(sig) => {
                let r = (|| -> Result<(Conv, Conv), String> {
                    if sig.params.len() != 1 {
                        return Err(format!("{} parameters", sig.params.len()));
                    }
                    let pc = g.conv(exp_mod, &f.ty, &sig.params[0].1)?;
                    let rc = g.conv(exp_mod, &f.ty, sig.ret.as_ref().ok_or("no return type")?)?;
                    if pc.rty.contains("'a") || rc.rty.contains("'a") {
                        return Err("borrowed form in an export signature".into());
                    }
                    Ok((pc, rc))
                })();
                match r {
                    Ok((pc, rc)) => {
                        ok_export = true;
                        writeln!(
                            methods,
                            "    fn {exp_rust}(x: {}) -> {} {{\n        let arena = Arena::new(); let a = &arena; let _ = a;\n        rt::case().export_calls += 1;\n        rt::observe(&{});\n        drop(x);\n        {}\n    }}",
                            pc.rty,
                            rc.rty,
                            pc.to_v("(&x)"),
                            rc.from_v("rt::reply()")
                        )
                        .unwrap();
                    }
                    Err(e) => {
                        skipped.push((k, format!("export {exp_rust}: {e}")));
                    }
                }
            }
        }
        if !ok_export {
            if let Some(_sig) = &trait_sig {
                // cannot spell the types: leave the method out is impossible, so the caller has to
                // drop this function from the chunk; signalled through `skipped`.
            }
        }
        // ---- export trampoline (reference signature)
        tramp_arms.push_str(&tramp_arm(k, &export_sig(&f.ty)));

        // ---- import driver
        match find_fn(ix, imp_mod, &imp_rust) {
            None => skipped.push((k, format!("import {imp_rust}: function not found in bindings"))),
            Some(sig) => {
                let r = (|| -> Result<(Conv, Conv), String> {
                    if sig.params.len() != 1 {
                        return Err(format!("{} parameters", sig.params.len()));
                    }
                    let pc = g.conv(imp_mod, &f.ty, &sig.params[0].1)?;
                    let rc = g.conv(imp_mod, &f.ty, sig.ret.as_ref().ok_or("no return type")?)?;
                    Ok((pc, rc))
                })();
                match r {
                    Ok((pc, rc)) => {
                        let mut path = String::from("crate::bindings");
                        for s in imp_mod {
                            path.push_str("::");
                            path.push_str(s);
                        }
                        writeln!(
                            drivers,
                            "#[allow(unused)]\nfn run_imp_{k}<'a>(a: &'a Arena, v: &'a V) {{\n    let x: {} = {};\n    let r: {} = {path}::{imp_rust}(x);\n    rt::observe(&{});\n}}",
                            pc.rty,
                            pc.from_v("v"),
                            rc.rty,
                            rc.to_v("(&r)")
                        )
                        .unwrap();
                        writeln!(driver_arms, "        {k} => run_imp_{k}(a, rt::param()),").unwrap();
                    }
                    Err(e) => skipped.push((k, format!("import {imp_rust}: {e}"))),
                }
            }
        }
        // ---- import symbol definition (reference signature)
        shims.push_str(&shim_def(k, &f.imp_module, &f.imp_name, &import_sig(&f.ty)));
    }

    let mut s = String::new();
    s.push_str("// generated by e3-rust/src/harness.rs\n#![allow(unused, unused_unsafe, clippy::all)]\n");
    s.push_str("use crate::rt::{self, Arena, V};\n\npub struct Component;\n\n");
    if have_iface_trait {
        writeln!(s, "impl crate::bindings::exports::t::t::i::Guest for Component {{\n{iface_methods}}}\n").unwrap();
    }
    if have_world_trait {
        writeln!(s, "impl crate::bindings::Guest for Component {{\n{world_methods}}}\n").unwrap();
    }
    s.push_str("crate::bindings::export!(Component with_types_in crate::bindings);\n\n");
    s.push_str(&g.helper_fns());
    s.push_str(&drivers);
    writeln!(
        s,
        "\n#[no_mangle]\npub unsafe extern \"C\" fn verif_run_import(k: u32) {{\n    let arena = Arena::new();\n    let a = &arena;\n    match k {{\n{driver_arms}        _ => rt::no_func(k),\n    }}\n}}\n"
    )
    .unwrap();
    writeln!(
        s,
        "#[no_mangle]\npub unsafe extern \"C\" fn verif_call_export(k: u32, fp: *const (), args: *const u64, ret: *mut u64) {{\n    match k {{\n{tramp_arms}        _ => rt::no_func(k),\n    }}\n}}\n"
    )
    .unwrap();
    s.push_str(&shims);
    Harness { user_rs: s, skipped }
}
