//! Guest-side runtime of the E3 harness (compiled into every chunk crate as `crate::rt`).
//!
//! * `V`: a dynamically typed value mirroring `refabi::Val`. The host hands the guest the value it
//!   must *see* / *send* as bytes in host memory; generated conversion code (`conv.rs`) turns the
//!   Rust values of the bindings into `V` and back. What the guest observed is written back as
//!   bytes into a host buffer — this is the raw, bindgen-independent observation channel: nothing
//!   here goes through generated bindings.
//! * `Arena`: keeps owned backing storage alive for borrowed parameter forms (`&T`, `&[T]`).
//! * the C API the host resolves with `dlsym` (`verif_*`).

#![allow(dead_code, clippy::all)]

use std::cell::RefCell;

#[derive(Clone, Debug, PartialEq)]
pub enum V {
    Bool(bool),
    U(u64),
    S(i64),
    F32(u32),
    F64(u64),
    Char(u32),
    Str(String),
    /// bytes that are not valid utf-8, seen where a string was expected (raw-strings mode)
    BadStr(Vec<u8>),
    List(Vec<V>),
    Map(Vec<(V, V)>),
    Rec(Vec<V>),
    Var(u32, Option<Box<V>>),
    Flags(Vec<bool>),
    Handle(u32),
}

impl V {
    pub fn as_bool(&self) -> bool {
        match self {
            V::Bool(b) => *b,
            o => bad("bool", o),
        }
    }
    pub fn as_u(&self) -> u64 {
        match self {
            V::U(x) => *x,
            o => bad("unsigned", o),
        }
    }
    pub fn as_s(&self) -> i64 {
        match self {
            V::S(x) => *x,
            o => bad("signed", o),
        }
    }
    pub fn as_f32(&self) -> f32 {
        match self {
            V::F32(x) => f32::from_bits(*x),
            o => bad("f32", o),
        }
    }
    pub fn as_f64(&self) -> f64 {
        match self {
            V::F64(x) => f64::from_bits(*x),
            o => bad("f64", o),
        }
    }
    pub fn as_char(&self) -> char {
        match self {
            V::Char(x) => char::from_u32(*x).unwrap_or_else(|| bad("char", self)),
            o => bad("char", o),
        }
    }
    pub fn as_str(&self) -> &str {
        match self {
            V::Str(x) => x,
            o => bad("string", o),
        }
    }
    pub fn as_list(&self) -> &[V] {
        match self {
            V::List(x) => x,
            o => bad("list", o),
        }
    }
    pub fn as_map(&self) -> &[(V, V)] {
        match self {
            V::Map(x) => x,
            o => bad("map", o),
        }
    }
    pub fn as_rec(&self) -> &[V] {
        match self {
            V::Rec(x) => x,
            o => bad("record", o),
        }
    }
    pub fn as_var(&self) -> (u32, Option<&V>) {
        match self {
            V::Var(i, p) => (*i, p.as_deref()),
            o => bad("variant", o),
        }
    }
    pub fn as_flags(&self) -> &[bool] {
        match self {
            V::Flags(x) => x,
            o => bad("flags", o),
        }
    }
    pub fn as_handle(&self) -> u32 {
        match self {
            V::Handle(x) => *x,
            o => bad("handle", o),
        }
    }
    pub fn payload(&self) -> &V {
        match self {
            V::Var(_, Some(p)) => p,
            o => bad("variant with payload", o),
        }
    }
    /// string observed as bytes (raw-strings mode)
    pub fn from_bytes(b: &[u8]) -> V {
        match std::str::from_utf8(b) {
            Ok(s) => V::Str(s.to_string()),
            Err(_) => V::BadStr(b.to_vec()),
        }
    }
}

pub fn no_case(i: u32) -> ! {
    eprintln!("E3-HARNESS-BUG: no case {i}");
    std::process::exit(97)
}

pub fn no_func(k: u32) -> ! {
    eprintln!("E3-HARNESS-BUG: no function {k}");
    std::process::exit(97)
}

fn bad(want: &str, got: &V) -> ! {
    // harness bug (host sent an ill-typed value): never a verdict
    eprintln!("E3-HARNESS-BUG: expected {want}, got {got:?}");
    std::process::exit(97)
}

// ---------------------------------------------------------------------------------------------
// wire format (shared with src/wire.rs on the host side)

fn rd_u32(b: &[u8], p: &mut usize) -> u32 {
    let x = u32::from_le_bytes(b[*p..*p + 4].try_into().unwrap());
    *p += 4;
    x
}
fn rd_u64(b: &[u8], p: &mut usize) -> u64 {
    let x = u64::from_le_bytes(b[*p..*p + 8].try_into().unwrap());
    *p += 8;
    x
}

pub fn decode(b: &[u8], p: &mut usize) -> V {
    let tag = b[*p];
    *p += 1;
    match tag {
        0 => {
            *p += 1;
            V::Bool(b[*p - 1] != 0)
        }
        1 => V::U(rd_u64(b, p)),
        2 => V::S(rd_u64(b, p) as i64),
        3 => V::F32(rd_u32(b, p)),
        4 => V::F64(rd_u64(b, p)),
        5 => V::Char(rd_u32(b, p)),
        6 | 13 => {
            let n = rd_u32(b, p) as usize;
            let s = b[*p..*p + n].to_vec();
            *p += n;
            if tag == 6 {
                V::Str(String::from_utf8(s).expect("wire: utf-8"))
            } else {
                V::BadStr(s)
            }
        }
        7 | 9 => {
            let n = rd_u32(b, p) as usize;
            let mut v = Vec::with_capacity(n);
            for _ in 0..n {
                v.push(decode(b, p));
            }
            if tag == 7 {
                V::List(v)
            } else {
                V::Rec(v)
            }
        }
        8 => {
            let n = rd_u32(b, p) as usize;
            let mut v = Vec::with_capacity(n);
            for _ in 0..n {
                let k = decode(b, p);
                let x = decode(b, p);
                v.push((k, x));
            }
            V::Map(v)
        }
        10 => {
            let i = rd_u32(b, p);
            let has = b[*p];
            *p += 1;
            if has != 0 {
                V::Var(i, Some(Box::new(decode(b, p))))
            } else {
                V::Var(i, None)
            }
        }
        11 => {
            let n = rd_u32(b, p) as usize;
            let v = b[*p..*p + n].iter().map(|x| *x != 0).collect();
            *p += n;
            V::Flags(v)
        }
        12 => V::Handle(rd_u32(b, p)),
        t => {
            eprintln!("E3-HARNESS-BUG: wire tag {t}");
            std::process::exit(97)
        }
    }
}

/// Writer into a fixed host buffer (no guest allocation).
pub struct Out {
    ptr: *mut u8,
    cap: usize,
    pub len: usize,
    pub overflow: bool,
}

impl Out {
    fn put(&mut self, b: &[u8]) {
        if self.len + b.len() > self.cap {
            self.overflow = true;
            return;
        }
        unsafe { std::ptr::copy_nonoverlapping(b.as_ptr(), self.ptr.add(self.len), b.len()) };
        self.len += b.len();
    }
    pub fn encode(&mut self, v: &V) {
        match v {
            V::Bool(x) => self.put(&[0, *x as u8]),
            V::U(x) => {
                self.put(&[1]);
                self.put(&x.to_le_bytes())
            }
            V::S(x) => {
                self.put(&[2]);
                self.put(&x.to_le_bytes())
            }
            V::F32(x) => {
                self.put(&[3]);
                self.put(&x.to_le_bytes())
            }
            V::F64(x) => {
                self.put(&[4]);
                self.put(&x.to_le_bytes())
            }
            V::Char(x) => {
                self.put(&[5]);
                self.put(&x.to_le_bytes())
            }
            V::Str(s) => {
                self.put(&[6]);
                self.put(&(s.len() as u32).to_le_bytes());
                self.put(s.as_bytes())
            }
            V::BadStr(s) => {
                self.put(&[13]);
                self.put(&(s.len() as u32).to_le_bytes());
                self.put(s)
            }
            V::List(xs) | V::Rec(xs) => {
                self.put(&[if matches!(v, V::List(_)) { 7 } else { 9 }]);
                self.put(&(xs.len() as u32).to_le_bytes());
                for x in xs {
                    self.encode(x)
                }
            }
            V::Map(es) => {
                self.put(&[8]);
                self.put(&(es.len() as u32).to_le_bytes());
                for (k, x) in es {
                    self.encode(k);
                    self.encode(x)
                }
            }
            V::Var(i, p) => {
                self.put(&[10]);
                self.put(&i.to_le_bytes());
                match p {
                    None => self.put(&[0]),
                    Some(p) => {
                        self.put(&[1]);
                        self.encode(p)
                    }
                }
            }
            V::Flags(b) => {
                self.put(&[11]);
                self.put(&(b.len() as u32).to_le_bytes());
                for x in b {
                    self.put(&[*x as u8])
                }
            }
            V::Handle(h) => {
                self.put(&[12]);
                self.put(&h.to_le_bytes())
            }
        }
    }
}

// ---------------------------------------------------------------------------------------------
// arena for borrowed parameter forms

pub struct Arena {
    items: RefCell<Vec<(*mut u8, unsafe fn(*mut u8))>>,
}

unsafe fn drop_box<T>(p: *mut u8) {
    drop(unsafe { Box::from_raw(p as *mut T) });
}

impl Arena {
    pub fn new() -> Arena {
        Arena { items: RefCell::new(Vec::new()) }
    }
    /// Move `v` into the arena; the reference lives as long as the arena.
    pub fn keep<'a, T: 'a>(&'a self, v: T) -> &'a T {
        let p = Box::into_raw(Box::new(v));
        self.items.borrow_mut().push((p as *mut u8, drop_box::<T>));
        unsafe { &*p }
    }
}

impl Drop for Arena {
    fn drop(&mut self) {
        let mut items = std::mem::take(&mut *self.items.borrow_mut());
        while let Some((p, f)) = items.pop() {
            unsafe { f(p) }
        }
    }
}

// ---------------------------------------------------------------------------------------------
// per-case state

pub struct Case {
    /// value the user code must see as parameter (export) / must pass as parameter (import)
    pub v1: V,
    /// value the user code must return (export) / must receive as result (import)
    pub v2: V,
    out: Out,
    /// number of times user code of an export ran
    pub export_calls: u32,
}

static mut CASE: Option<Case> = None;

pub fn case() -> &'static mut Case {
    unsafe {
        match &mut *(&raw mut CASE) {
            Some(c) => c,
            None => {
                eprintln!("E3-HARNESS-BUG: no case installed");
                std::process::exit(97)
            }
        }
    }
}

/// Record what user code observed (export parameter / import result).
pub fn observe(v: &V) {
    let c = case();
    c.out.encode(v);
}

pub fn param() -> &'static V {
    &case().v1
}
pub fn reply() -> &'static V {
    &case().v2
}

#[no_mangle]
pub unsafe extern "C" fn verif_set_case(
    p1: *const u8,
    l1: usize,
    p2: *const u8,
    l2: usize,
    out: *mut u8,
    out_cap: usize,
) {
    let b1 = unsafe { std::slice::from_raw_parts(p1, l1) };
    let b2 = unsafe { std::slice::from_raw_parts(p2, l2) };
    let v1 = decode(b1, &mut 0);
    let v2 = decode(b2, &mut 0);
    unsafe {
        *(&raw mut CASE) =
            Some(Case { v1, v2, out: Out { ptr: out, cap: out_cap, len: 0, overflow: false }, export_calls: 0 });
    }
}

/// Returns the number of bytes written to the observation buffer (usize::MAX on overflow) and
/// releases the case values.
#[no_mangle]
pub unsafe extern "C" fn verif_clear_case(export_calls: *mut u32) -> usize {
    let c = unsafe { (*(&raw mut CASE)).take() };
    match c {
        None => 0,
        Some(c) => {
            unsafe { *export_calls = c.export_calls };
            if c.out.overflow {
                usize::MAX
            } else {
                c.out.len
            }
        }
    }
}

// per-execution flags the host sets for user code (C08: bit 0 = the export body awaits the
// `pause` import before it answers)
static mut FLAGS: u32 = 0;

#[no_mangle]
pub unsafe extern "C" fn verif_set_flags(f: u32) {
    unsafe { *(&raw mut FLAGS) = f };
}

pub fn flags() -> u32 {
    unsafe { *(&raw const FLAGS) }
}

/// Bit 1 of the flags: user code builds every `Vec` / `String` it hands to the bindings with
/// spare capacity (capacity > length, also for empty ones), as ordinary Rust code often does.
pub fn spare() -> bool {
    flags() & 2 != 0
}

pub fn mk_vec<T>(it: impl ExactSizeIterator<Item = T>) -> Vec<T> {
    let n = it.len();
    let mut v = Vec::with_capacity(if spare() { n + 3 } else { n });
    v.extend(it);
    v
}

pub fn mk_string(s: &str) -> String {
    if spare() {
        let mut x = String::with_capacity(s.len() + 3);
        x.push_str(s);
        x
    } else {
        s.to_string()
    }
}

pub fn mk_bytes(b: &[u8]) -> Vec<u8> {
    mk_vec(b.iter().copied())
}

// ---------------------------------------------------------------------------------------------
// import dispatch: all import shims funnel into one host callback

pub type Dispatch = unsafe extern "C" fn(k: u32, args: *const u64, nargs: u32, ret: *mut u64);

static mut DISPATCH: Option<Dispatch> = None;

#[no_mangle]
pub unsafe extern "C" fn verif_set_dispatch(f: Dispatch) {
    unsafe { *(&raw mut DISPATCH) = Some(f) };
}

pub unsafe fn dispatch(k: u32, args: &[u64]) -> u64 {
    let mut ret = 0u64;
    match unsafe { *(&raw const DISPATCH) } {
        Some(f) => unsafe { f(k, args.as_ptr(), args.len() as u32, &mut ret) },
        None => {
            eprintln!("E3-HARNESS-BUG: no dispatch installed");
            std::process::exit(97)
        }
    }
    ret
}

/// A guest-side decision the host's explorer owns (C08: "drop the call future at this pending
/// poll?"). Dispatch index 2002.
pub fn ask(n: u32) -> u32 {
    unsafe { dispatch(2002, &[n as u64]) as u32 }
}

// ---------------------------------------------------------------------------------------------
// allocator API for the host

use crate::ckalloc as ck;

#[no_mangle]
pub unsafe extern "C" fn verif_alloc_enable() {
    ck::enable();
}

/// What `cabi_realloc(0, 0, align, size)` does: a fresh block from the guest's global allocator.
#[no_mangle]
pub unsafe extern "C" fn verif_alloc(size: usize, align: usize) -> *mut u8 {
    unsafe { std::alloc::alloc(std::alloc::Layout::from_size_align(size, align).unwrap()) }
}

#[no_mangle]
pub unsafe extern "C" fn verif_live_count() -> usize {
    ck::live_count()
}

#[no_mangle]
pub unsafe extern "C" fn verif_live_digest() -> u64 {
    ck::live_digest()
}

#[no_mangle]
pub unsafe extern "C" fn verif_serial() -> usize {
    ck::serial()
}

/// Fills `out` with `(serial, size, align)` triples of blocks allocated since `since` that are
/// still live; returns how many there are (may exceed `cap`). Allocation-free.
#[no_mangle]
pub unsafe extern "C" fn verif_live_since(since: usize, out: *mut usize, cap: usize) -> usize {
    ck::live_since_into(since, out, cap)
}

#[no_mangle]
pub unsafe extern "C" fn verif_audit() {
    ck::audit();
}

#[no_mangle]
pub unsafe extern "C" fn verif_purge() {
    ck::purge();
}

#[no_mangle]
pub unsafe extern "C" fn verif_take_fault(buf: *mut u8, cap: usize) -> usize {
    ck::fault_into(buf, cap)
}

#[no_mangle]
pub unsafe extern "C" fn verif_is_live(p: *const u8, len: usize) -> i32 {
    ck::is_live(p, len) as i32
}

#[no_mangle]
pub unsafe extern "C" fn verif_is_freed(p: *const u8) -> i32 {
    ck::is_freed(p) as i32
}

/// 1 if `p` lies in a tracked live block (fills `out` with address, size, align), else 0.
#[no_mangle]
pub unsafe extern "C" fn verif_block_of(p: *const u8, out: *mut usize) -> i32 {
    match ck::block_of(p) {
        Some((a, s, al)) => {
            unsafe {
                *out = a;
                *out.add(1) = s;
                *out.add(2) = al;
            }
            1
        }
        None => 0,
    }
}
