//! Checking allocator (DESIGN §3.5), copied from crates/e2-async/src/alloc.rs and adapted for E3:
//! a ledger sized for one case, `purge()` (release quarantined blocks *between* cases, after they were
//! audited) and `live_digest()` (order-independent fingerprint of the set of live blocks).
//! Ledger of live blocks, red zones, poison on free, freed blocks quarantined for the whole case
//! (never reused within it). Faults are recorded (first one wins) and polled by the host; nothing
//! here allocates. This file is compiled into every chunk crate as `crate::ckalloc` and is the
//! `#[global_allocator]` of the guest.

use std::alloc::{GlobalAlloc, Layout, System};
use std::sync::atomic::{AtomicBool, AtomicUsize, Ordering::Relaxed};

const SLOTS: usize = 1 << 12;
const RED: usize = 16;

#[derive(Clone, Copy)]
struct Slot {
    ptr: usize, // user pointer; 0 = empty, 1 = tombstone
    size: usize,
    align: usize,
    live: bool,
    serial: usize,
}

static mut TABLE: [Slot; SLOTS] = [Slot { ptr: 0, size: 0, align: 0, live: false, serial: 0 }; SLOTS];
static ENABLED: AtomicBool = AtomicBool::new(false);
static SERIAL: AtomicUsize = AtomicUsize::new(0);
static LIVE: AtomicUsize = AtomicUsize::new(0);
static mut FAULT: [u8; 256] = [0; 256];
static FAULT_LEN: AtomicUsize = AtomicUsize::new(0);

pub struct Checking;

// Backing store. Default: the system allocator. With the crate feature `low32` (resource world,
// C07): a bump arena mapped below 2 GiB, because generated Rust code passes the representation
// pointer of an exported resource through an `i32` (correct on wasm32), so natively every
// `Box`ed resource must live at an address that fits 32 bits. Arena memory is never reused.
#[cfg(not(feature = "low32"))]
unsafe fn sys_alloc(layout: Layout) -> *mut u8 {
    unsafe { System.alloc(layout) }
}
#[cfg(not(feature = "low32"))]
unsafe fn sys_dealloc(ptr: *mut u8, layout: Layout) {
    unsafe { System.dealloc(ptr, layout) }
}

#[cfg(feature = "low32")]
mod arena {
    use std::sync::atomic::{AtomicUsize, Ordering::Relaxed};
    pub const SIZE: usize = 256 << 20;
    pub static BASE: AtomicUsize = AtomicUsize::new(0);
    pub static NEXT: AtomicUsize = AtomicUsize::new(0);
    unsafe extern "C" {
        pub fn mmap(addr: *mut u8, len: usize, prot: i32, flags: i32, fd: i32, off: i64) -> *mut u8;
    }
    pub fn base() -> usize {
        let b = BASE.load(Relaxed);
        if b != 0 {
            return b;
        }
        // PROT_READ|PROT_WRITE, MAP_PRIVATE|MAP_ANONYMOUS|MAP_32BIT|MAP_NORESERVE
        let p = unsafe { mmap(std::ptr::null_mut(), SIZE, 3, 0x2 | 0x20 | 0x40 | 0x4000, -1, 0) } as usize;
        if p == usize::MAX || p == 0 || p + SIZE > (1usize << 32) {
            return 0;
        }
        BASE.store(p, Relaxed);
        NEXT.store(p, Relaxed);
        p
    }
}
#[cfg(feature = "low32")]
unsafe fn sys_alloc(layout: Layout) -> *mut u8 {
    use std::sync::atomic::Ordering::Relaxed;
    let b = arena::base();
    if b == 0 {
        return std::ptr::null_mut();
    }
    let a = layout.align().max(16);
    let start = (arena::NEXT.load(Relaxed) + a - 1) & !(a - 1);
    let end = start + layout.size();
    if end > b + arena::SIZE {
        return std::ptr::null_mut();
    }
    arena::NEXT.store(end, Relaxed);
    start as *mut u8
}
#[cfg(feature = "low32")]
unsafe fn sys_dealloc(ptr: *mut u8, layout: Layout) {
    let b = arena::base();
    let p = ptr as usize;
    if b != 0 && p >= b && p < b + arena::SIZE {
        return; // arena memory is never reused
    }
    unsafe { System.dealloc(ptr, layout) }
}

fn fault(msg: &str) {
    if FAULT_LEN.load(Relaxed) != 0 {
        return;
    }
    let b = msg.as_bytes();
    let n = b.len().min(255);
    unsafe {
        let f = &raw mut FAULT;
        (&mut (*f))[..n].copy_from_slice(&b[..n]);
    }
    FAULT_LEN.store(n, Relaxed);
}

fn hash(p: usize) -> usize {
    (p >> 4).wrapping_mul(0x9E3779B97F4A7C15) >> (64 - 12)
}

unsafe fn find(p: usize) -> Option<&'static mut Slot> {
    let t = &raw mut TABLE;
    let mut i = hash(p);
    for _ in 0..SLOTS {
        let s = unsafe { &mut (*t)[i] };
        if s.ptr == 0 {
            return None;
        }
        if s.ptr == p {
            return Some(s);
        }
        i = (i + 1) & (SLOTS - 1);
    }
    None
}

unsafe fn insert(p: usize, size: usize, align: usize) {
    let t = &raw mut TABLE;
    let mut i = hash(p);
    for _ in 0..SLOTS {
        let s = unsafe { &mut (*t)[i] };
        if s.ptr == 0 || s.ptr == 1 || s.ptr == p {
            *s = Slot { ptr: p, size, align, live: true, serial: SERIAL.fetch_add(1, Relaxed) };
            return;
        }
        i = (i + 1) & (SLOTS - 1);
    }
    fault("ledger full");
}

/// Start tracking. Allocations made before this call are ignored on free.
pub fn enable() {
    ENABLED.store(true, Relaxed);
}

pub fn live_count() -> usize {
    LIVE.load(Relaxed)
}

/// Is `[p, p+len)` entirely inside one live tracked allocation?
pub fn is_live(p: *const u8, len: usize) -> bool {
    if len == 0 {
        return true;
    }
    let p = p as usize;
    unsafe {
        let t = &raw const TABLE;
        for s in (&(*t)).iter() {
            if s.ptr > 1 && s.live && p >= s.ptr && p + len <= s.ptr + s.size {
                return true;
            }
        }
    }
    false
}

/// Is `p` inside a *freed* (quarantined) tracked block?
pub fn is_freed(p: *const u8) -> bool {
    let p = p as usize;
    unsafe {
        let t = &raw const TABLE;
        for s in (&(*t)).iter() {
            if s.ptr > 1 && !s.live && p >= s.ptr && p < s.ptr + s.size.max(1) {
                return true;
            }
        }
    }
    false
}

pub fn serial() -> usize {
    SERIAL.load(Relaxed)
}

/// Check red zones of all live blocks and poison of all freed blocks.
pub fn audit() {
    unsafe {
        let t = &raw const TABLE;
        for s in (&(*t)).iter() {
            if s.ptr <= 1 {
                continue;
            }
            let p = s.ptr as *const u8;
            if s.live {
                for i in 0..RED {
                    if *p.add(s.size + i) != 0xFD {
                        fault("heap overrun: red zone after a live block was overwritten");
                        return;
                    }
                    if *p.sub(1 + i) != 0xFD {
                        fault("heap underrun: red zone before a live block was overwritten");
                        return;
                    }
                }
            } else {
                for i in 0..s.size {
                    if *p.add(i) != 0xDD {
                        fault("write after free: a freed (quarantined) block was modified");
                        return;
                    }
                }
            }
        }
    }
}

unsafe impl GlobalAlloc for Checking {
    unsafe fn alloc(&self, layout: Layout) -> *mut u8 {
        if !ENABLED.load(Relaxed) {
            return unsafe { sys_alloc(layout) };
        }
        let front = layout.align().max(RED);
        let total = front + layout.size() + RED;
        let raw = unsafe { sys_alloc(Layout::from_size_align_unchecked(total, layout.align().max(16))) };
        if raw.is_null() {
            return raw;
        }
        unsafe {
            std::ptr::write_bytes(raw, 0xFD, front);
            let user = raw.add(front);
            // fresh memory is filled with a recognisable junk byte, not zero
            std::ptr::write_bytes(user, 0xCA, layout.size());
            std::ptr::write_bytes(user.add(layout.size()), 0xFD, RED);
            insert(user as usize, layout.size(), layout.align());
            LIVE.fetch_add(1, Relaxed);
            user
        }
    }

    unsafe fn dealloc(&self, ptr: *mut u8, layout: Layout) {
        if !ENABLED.load(Relaxed) {
            // allocated before tracking started (or tracking never started)
            return unsafe { sys_dealloc(ptr, layout) };
        }
        match unsafe { find(ptr as usize) } {
            None => {
                // Allocated before `enable()`: hand back to the system allocator.
                unsafe { sys_dealloc(ptr, layout) }
            }
            Some(s) => {
                if !s.live {
                    fault("double free");
                    return;
                }
                if s.size != layout.size() || s.align != layout.align() {
                    fault("free with a layout different from the allocation's");
                }
                for i in 0..RED {
                    unsafe {
                        if *ptr.add(s.size + i) != 0xFD || *ptr.sub(1 + i) != 0xFD {
                            fault("heap overrun detected at free");
                            break;
                        }
                    }
                }
                s.live = false;
                LIVE.fetch_sub(1, Relaxed);
                unsafe { std::ptr::write_bytes(ptr, 0xDD, s.size) };
                // quarantined: never returned to the system within this execution
            }
        }
    }

    unsafe fn realloc(&self, ptr: *mut u8, layout: Layout, new_size: usize) -> *mut u8 {
        unsafe {
            let new_layout = Layout::from_size_align_unchecked(new_size, layout.align());
            let n = self.alloc(new_layout);
            if !n.is_null() {
                std::ptr::copy_nonoverlapping(ptr, n, layout.size().min(new_size));
                self.dealloc(ptr, layout);
            }
            n
        }
    }
}

/// Order-independent fingerprint of the set of live blocks (address, size, serial).
pub fn live_digest() -> u64 {
    let mut d = 0u64;
    unsafe {
        let t = &raw const TABLE;
        for s in (&(*t)).iter() {
            if s.ptr > 1 && s.live {
                let mut h = (s.ptr as u64).wrapping_mul(0x9E3779B97F4A7C15);
                h ^= (s.size as u64).wrapping_mul(0xC2B2AE3D27D4EB4F);
                h ^= (s.serial as u64).wrapping_mul(0x165667B19E3779F9);
                d = d.wrapping_add(h ^ (h >> 29));
            }
        }
    }
    d
}

/// Release every quarantined block to the system allocator and forget it (between cases, after
/// `audit()`), and clear the recorded fault.
pub fn purge() {
    unsafe {
        let t = &raw mut TABLE;
        for s in (&mut (*t)).iter_mut() {
            if s.ptr > 1 && !s.live {
                let front = s.align.max(RED);
                let total = front + s.size + RED;
                let raw = (s.ptr - front) as *mut u8;
                sys_dealloc(raw, Layout::from_size_align_unchecked(total, s.align.max(16)));
                s.ptr = 1;
            }
        }
    }
    FAULT_LEN.store(0, Relaxed);
}

/// `(address, size, align)` of the live block containing `p`, if any.
pub fn block_of(p: *const u8) -> Option<(usize, usize, usize)> {
    let p = p as usize;
    unsafe {
        let t = &raw const TABLE;
        for s in (&(*t)).iter() {
            if s.ptr > 1 && s.live && p >= s.ptr && p < s.ptr + s.size.max(1) {
                return Some((s.ptr, s.size, s.align));
            }
        }
    }
    None
}

/// Allocation-free variant of `live_since`: writes `(serial, size, align)` triples.
pub fn live_since_into(since: usize, out: *mut usize, cap: usize) -> usize {
    let mut n = 0;
    unsafe {
        let t = &raw const TABLE;
        for s in (&(*t)).iter() {
            if s.ptr > 1 && s.live && s.serial >= since {
                if n < cap {
                    *out.add(3 * n) = s.serial;
                    *out.add(3 * n + 1) = s.size;
                    *out.add(3 * n + 2) = s.align;
                }
                n += 1;
            }
        }
    }
    n
}

/// Allocation-free variant of `take_fault`.
pub fn fault_into(buf: *mut u8, cap: usize) -> usize {
    let n = FAULT_LEN.load(Relaxed).min(cap);
    unsafe {
        let f = &raw const FAULT;
        std::ptr::copy_nonoverlapping((&(*f)).as_ptr(), buf, n);
    }
    n
}
