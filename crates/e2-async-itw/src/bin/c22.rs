fn main() {
    e2_async::engine::run_property("C22");
}
