//! Process isolation: run a closure in a forked child (so that a panic, abort,
//! segfault or hang is an *observation*), and a process-based parallel map.

use serde_json::Value;
use std::io::Read;
use std::os::unix::io::FromRawFd;

#[derive(Debug, Clone, PartialEq)]
pub enum Outcome {
    /// closure returned; payload bytes
    Ok(Vec<u8>),
    /// closure panicked: message (with location)
    Panic(String),
    /// killed by signal
    Signal(i32),
    /// exited with unexpected code
    Exit(i32),
    Timeout,
}

impl Outcome {
    pub fn describe(&self) -> String {
        match self {
            Outcome::Ok(_) => "ok".into(),
            Outcome::Panic(m) => format!("panic: {m}"),
            Outcome::Signal(s) => format!("signal {s}"),
            Outcome::Exit(c) => format!("exit {c}"),
            Outcome::Timeout => "timeout".into(),
        }
    }
}

static mut CHILD_FD: i32 = -1;

/// Inside a child created by `isolated`: deliver `bytes` as the closure's result right now
/// and exit (used when the execution cannot return normally, e.g. from a signal handler or
/// from inside an `extern "C"` frame that must not unwind).
pub fn child_finish(bytes: &[u8]) -> ! {
    let fd = unsafe { CHILD_FD };
    if fd >= 0 {
        write_all_fd(fd, b"O");
        write_all_fd(fd, bytes);
    }
    unsafe { libc::_exit(0) }
}

fn write_all_fd(fd: i32, mut b: &[u8]) {
    while !b.is_empty() {
        let n = unsafe { libc::write(fd, b.as_ptr() as *const _, b.len()) };
        if n <= 0 {
            return;
        }
        b = &b[n as usize..];
    }
}

/// Install a silent panic hook that remembers `message @ file:line` in a thread local.
pub fn install_quiet_panic_hook() {
    std::panic::set_hook(Box::new(|info| {
        let msg = if let Some(s) = info.payload().downcast_ref::<&str>() {
            s.to_string()
        } else if let Some(s) = info.payload().downcast_ref::<String>() {
            s.clone()
        } else {
            "<non-string panic>".to_string()
        };
        let loc = info
            .location()
            .map(|l| format!("{}:{}", l.file(), l.line()))
            .unwrap_or_default();
        LAST_PANIC.with(|p| *p.borrow_mut() = Some(format!("{msg} @ {loc}")));
    }));
}

thread_local! {
    pub static LAST_PANIC: std::cell::RefCell<Option<String>> = const { std::cell::RefCell::new(None) };
}

/// Run `f` under catch_unwind in *this* process; Err = panic message with location.
/// Requires `install_quiet_panic_hook()` for the location.
pub fn catch<R>(f: impl FnOnce() -> R) -> Result<R, String> {
    LAST_PANIC.with(|p| *p.borrow_mut() = None);
    match std::panic::catch_unwind(std::panic::AssertUnwindSafe(f)) {
        Ok(r) => Ok(r),
        Err(e) => {
            let from_hook = LAST_PANIC.with(|p| p.borrow_mut().take());
            Err(from_hook.unwrap_or_else(|| {
                if let Some(s) = e.downcast_ref::<&str>() {
                    s.to_string()
                } else if let Some(s) = e.downcast_ref::<String>() {
                    s.clone()
                } else {
                    "<panic>".into()
                }
            }))
        }
    }
}

/// Run `f` in a forked child with a wall-clock cap. The calling process must be
/// single-threaded at this point.
pub fn isolated<F: FnOnce() -> Vec<u8>>(timeout_ms: u64, f: F) -> Outcome {
    let mut fds = [0i32; 2];
    if unsafe { libc::pipe(fds.as_mut_ptr()) } != 0 {
        crate::machinery("pipe failed");
    }
    let pid = unsafe { libc::fork() };
    if pid < 0 {
        crate::machinery("fork failed");
    }
    if pid == 0 {
        unsafe {
            libc::close(fds[0]);
            CHILD_FD = fds[1];
            // keep the child's own chatter away from the check's stdout
            let devnull = libc::open(c"/dev/null".as_ptr(), libc::O_WRONLY);
            if devnull >= 0 && std::env::var_os("VERIF_CHILD_STDERR").is_none() {
                libc::dup2(devnull, 2);
                libc::dup2(devnull, 1);
            }
        }
        install_quiet_panic_hook();
        let r = catch(f);
        let fd = fds[1];
        match r {
            Ok(bytes) => {
                write_all_fd(fd, b"O");
                write_all_fd(fd, &bytes);
            }
            Err(m) => {
                write_all_fd(fd, b"P");
                write_all_fd(fd, m.as_bytes());
            }
        }
        unsafe { libc::_exit(0) }
    }
    unsafe { libc::close(fds[1]) };
    let rfd = fds[0];
    let mut buf = Vec::new();
    let deadline = std::time::Instant::now() + std::time::Duration::from_millis(timeout_ms);
    let mut timed_out = false;
    loop {
        let now = std::time::Instant::now();
        if now >= deadline {
            timed_out = true;
            break;
        }
        let left = (deadline - now).as_millis() as i32;
        let mut p = libc::pollfd {
            fd: rfd,
            events: libc::POLLIN,
            revents: 0,
        };
        let r = unsafe { libc::poll(&mut p, 1, left.max(1)) };
        if r < 0 {
            continue;
        }
        if r == 0 {
            timed_out = true;
            break;
        }
        let mut tmp = [0u8; 65536];
        let n = unsafe { libc::read(rfd, tmp.as_mut_ptr() as *mut _, tmp.len()) };
        if n <= 0 {
            break;
        }
        buf.extend_from_slice(&tmp[..n as usize]);
    }
    unsafe { libc::close(rfd) };
    if timed_out {
        unsafe {
            libc::kill(pid, libc::SIGKILL);
        }
    }
    let mut status = 0i32;
    unsafe { libc::waitpid(pid, &mut status, 0) };
    if timed_out {
        return Outcome::Timeout;
    }
    if libc::WIFSIGNALED(status) {
        return Outcome::Signal(libc::WTERMSIG(status));
    }
    let code = libc::WEXITSTATUS(status);
    match buf.first() {
        Some(b'O') if code == 0 => Outcome::Ok(buf[1..].to_vec()),
        Some(b'P') => Outcome::Panic(String::from_utf8_lossy(&buf[1..]).into_owned()),
        _ => Outcome::Exit(code),
    }
}

/// Process-based parallel map over `0..n`. Each worker process handles the indices
/// `w, w+workers, …` and streams `(index, value)` back. A worker that dies is a
/// machinery error (risky work belongs inside `isolated`). Must be called while the
/// process is single-threaded.
pub fn par_map(n: usize, workers: usize, f: impl Fn(usize) -> Value) -> Vec<Value> {
    let workers = workers.max(1).min(n.max(1));
    if n == 0 {
        return vec![];
    }
    if workers == 1 || std::env::var_os("VERIF_NO_FORK").is_some() {
        return (0..n).map(f).collect();
    }
    let mut readers = Vec::new();
    let mut pids = Vec::new();
    for w in 0..workers {
        let mut fds = [0i32; 2];
        if unsafe { libc::pipe(fds.as_mut_ptr()) } != 0 {
            crate::machinery("pipe failed");
        }
        let pid = unsafe { libc::fork() };
        if pid < 0 {
            crate::machinery("fork failed");
        }
        if pid == 0 {
            unsafe { libc::close(fds[0]) };
            for r in &readers {
                unsafe { libc::close(*r) };
            }
            let fd = fds[1];
            let mut i = w;
            while i < n {
                let v = f(i);
                let mut line = format!("{i}\t").into_bytes();
                line.extend_from_slice(serde_json::to_string(&v).unwrap().as_bytes());
                line.push(b'\n');
                write_all_fd(fd, &line);
                i += workers;
            }
            unsafe { libc::_exit(0) }
        }
        unsafe { libc::close(fds[1]) };
        readers.push(fds[0]);
        pids.push(pid);
    }
    let handles: Vec<_> = readers
        .into_iter()
        .map(|fd| {
            std::thread::spawn(move || {
                let mut s = String::new();
                let mut file = unsafe { std::fs::File::from_raw_fd(fd) };
                file.read_to_string(&mut s).ok();
                s
            })
        })
        .collect();
    let mut out: Vec<Option<Value>> = (0..n).map(|_| None).collect();
    for h in handles {
        let s = h.join().unwrap();
        for line in s.lines() {
            let Some((i, j)) = line.split_once('\t') else {
                continue;
            };
            let i: usize = i.parse().unwrap();
            out[i] = Some(serde_json::from_str(j).unwrap());
        }
    }
    for pid in pids {
        let mut st = 0;
        unsafe { libc::waitpid(pid, &mut st, 0) };
    }
    out.into_iter()
        .enumerate()
        .map(|(i, v)| v.unwrap_or_else(|| crate::machinery(&format!("worker lost result {i}"))))
        .collect()
}

pub fn ncpu() -> usize {
    std::thread::available_parallelism()
        .map(|n| n.get())
        .unwrap_or(4)
}
