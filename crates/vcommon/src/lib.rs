//! Shared plumbing for every /verif check: argument parsing, evidence files,
//! known-findings protocol, replay artefacts, process isolation (fork) and
//! process-based parallel map.
//!
//! Exit codes: 0 = property held on everything explored (known findings are
//! printed as `KNOWN-FINDING:` lines), 1 = at least one unlisted violation
//! (`VIOLATION property=<id> replay=<path>`), 2 = machinery failure (never a verdict).

use serde_json::{json, Value};
use std::collections::{BTreeMap, BTreeSet};
use std::io::{Read, Write};
use std::time::Instant;

pub mod iso;
pub use iso::*;

/// Root of the verification tree (`VERIF_ROOT` env override is used by tools/mutant_run.sh only).
pub fn verif_root() -> String {
    std::env::var("VERIF_ROOT").unwrap_or_else(|_| "/verif".to_string())
}

/// Root of the repository under test (`VERIF_REPO` env override is used by tools/mutant_run.sh only).
pub fn repo_root() -> String {
    std::env::var("VERIF_REPO").unwrap_or_else(|_| "/repo".to_string())
}

#[derive(Clone, Copy, PartialEq, Eq, Debug)]
pub enum Tier {
    Quick,
    Thorough,
}

pub struct Run {
    pub id: String,
    pub tier: Tier,
    pub seed: u64,
    pub level: String,
    pub replay: Option<String>,
    start: Instant,
    known: Vec<Known>,
    seen_keys: BTreeSet<String>,
    pub violations: usize,
    pub known_hits: BTreeMap<String, usize>,
    pub extra_args: Vec<String>,
}

#[derive(Clone, Debug)]
struct Known {
    property: String,
    key: String,
    what: String,
}

fn load_known() -> Vec<Known> {
    let path = format!("{}/known_findings.jsonl", verif_root());
    let mut out = Vec::new();
    let Ok(text) = std::fs::read_to_string(&path) else {
        return out;
    };
    for line in text.lines() {
        let line = line.trim();
        // `fixed: property=<id> <commit> <what>` lines are documentation only.
        if !line.starts_with('{') {
            continue;
        }
        match serde_json::from_str::<Value>(line) {
            Ok(v) => out.push(Known {
                property: v["property"].as_str().unwrap_or("").to_string(),
                key: v["key"].as_str().unwrap_or("").to_string(),
                what: v["what"].as_str().unwrap_or("").to_string(),
            }),
            Err(e) => machinery(&format!("known_findings.jsonl: bad line {line:?}: {e}")),
        }
    }
    out
}

/// Machinery failure: exit 2, never dressed up as a verdict.
pub fn machinery(msg: &str) -> ! {
    eprintln!("MACHINERY-ERROR: {msg}");
    println!("MACHINERY-ERROR: {msg}");
    std::process::exit(2)
}

impl Run {
    pub fn from_args(id: &str, level: &str) -> Run {
        let mut tier = match std::env::var("VERIF_TIER").as_deref() {
            Ok("thorough") => Tier::Thorough,
            _ => Tier::Quick,
        };
        let mut replay = None;
        let mut extra = Vec::new();
        let mut args = std::env::args().skip(1);
        while let Some(a) = args.next() {
            match a.as_str() {
                "--tier" => {
                    tier = match args.next().as_deref() {
                        Some("quick") => Tier::Quick,
                        Some("thorough") => Tier::Thorough,
                        o => machinery(&format!("bad --tier {o:?}")),
                    }
                }
                "--replay" => replay = args.next(),
                _ => extra.push(a),
            }
        }
        let seed = std::env::var("VERIF_SEED")
            .ok()
            .and_then(|s| s.parse::<u64>().ok())
            .unwrap_or(0);
        Run {
            id: id.to_string(),
            tier,
            seed,
            level: level.to_string(),
            replay,
            start: Instant::now(),
            known: load_known(),
            seen_keys: BTreeSet::new(),
            violations: 0,
            known_hits: BTreeMap::new(),
            extra_args: extra,
        }
    }

    pub fn thorough(&self) -> bool {
        self.tier == Tier::Thorough
    }

    pub fn pick<T>(&self, quick: T, thorough: T) -> T {
        if self.thorough() {
            thorough
        } else {
            quick
        }
    }

    pub fn elapsed(&self) -> f64 {
        self.start.elapsed().as_secs_f64()
    }

    /// Is `key` listed as an open known finding of this property?
    pub fn is_known(&self, key: &str) -> bool {
        self.known
            .iter()
            .any(|k| k.property == self.id && k.key == key)
    }

    /// Report a violation. `key` identifies the *specific* failing input / call site /
    /// history (used for de-duplication and for matching known findings); `detail`
    /// is stored in the replay file so that `--replay` can re-execute it.
    pub fn violation(&mut self, key: &str, what: &str, detail: Value) {
        if !self.seen_keys.insert(key.to_string()) {
            return;
        }
        if let Some(k) = self
            .known
            .iter()
            .find(|k| k.property == self.id && k.key == key)
        {
            *self.known_hits.entry(key.to_string()).or_insert(0) += 1;
            println!("KNOWN-FINDING: property={} {}", self.id, k.what);
            return;
        }
        self.violations += 1;
        let dir = format!("{}/replays/{}", verif_root(), self.id);
        let _ = std::fs::create_dir_all(&dir);
        let h = fnv(key.as_bytes());
        let path = format!("{dir}/{h:016x}.json");
        let body = json!({"property": self.id, "key": key, "what": what, "detail": detail});
        let _ = std::fs::write(&path, serde_json::to_string_pretty(&body).unwrap());
        // Only the first few are printed in full, every one gets a VIOLATION line.
        if self.violations <= 20 {
            println!("  what: {what}");
        }
        println!("VIOLATION property={} replay={}", self.id, path);
    }

    /// Write the evidence file and exit with the verdict.
    pub fn finish(self, mut coverage: Value, assumptions: Vec<String>) -> ! {
        let wall = self.start.elapsed().as_secs_f64();
        if let Some(o) = coverage.as_object_mut() {
            o.insert(
                "known_findings_hit".into(),
                json!(self.known_hits.keys().collect::<Vec<_>>()),
            );
        }
        let ev = json!({
            "property_id": self.id,
            "tier": if self.tier == Tier::Quick { "quick" } else { "thorough" },
            "seed": self.seed,
            "level": self.level,
            "coverage": coverage,
            "assumptions": assumptions,
            "wall_s": (wall * 100.0).round() / 100.0,
            "violations": self.violations,
        });
        let dir = format!("{}/evidence", verif_root());
        let _ = std::fs::create_dir_all(&dir);
        let path = format!("{dir}/{}.json", self.id);
        if let Err(e) = std::fs::write(&path, serde_json::to_string_pretty(&ev).unwrap() + "\n") {
            machinery(&format!("cannot write {path}: {e}"));
        }
        println!(
            "{}: tier={:?} violations={} known_findings={} wall={:.1}s evidence={}",
            self.id,
            self.tier,
            self.violations,
            self.known_hits.len(),
            wall,
            path
        );
        std::io::stdout().flush().ok();
        std::process::exit(if self.violations > 0 { 1 } else { 0 })
    }

    /// Load the `detail` of a replay file given with `--replay`.
    pub fn replay_detail(&self) -> Option<Value> {
        let p = self.replay.as_ref()?;
        let mut s = String::new();
        std::fs::File::open(p)
            .unwrap_or_else(|e| machinery(&format!("cannot open replay {p}: {e}")))
            .read_to_string(&mut s)
            .ok()?;
        let v: Value =
            serde_json::from_str(&s).unwrap_or_else(|e| machinery(&format!("bad replay {p}: {e}")));
        Some(v["detail"].clone())
    }
}

pub fn fnv(b: &[u8]) -> u64 {
    let mut h: u64 = 0xcbf29ce484222325;
    for x in b {
        h ^= *x as u64;
        h = h.wrapping_mul(0x100000001b3);
    }
    h
}

/// Keep at most `n` samples, spread over the run (first ones plus every 2^k-th).
pub struct Samples {
    pub items: Vec<Value>,
    cap: usize,
    count: u64,
}

impl Samples {
    pub fn new(cap: usize) -> Self {
        Samples {
            items: Vec::new(),
            cap,
            count: 0,
        }
    }
    pub fn offer(&mut self, f: impl FnOnce() -> Value) {
        self.count += 1;
        if self.items.len() < self.cap && (self.count <= 3 || self.count.is_power_of_two()) {
            self.items.push(f());
        }
    }
}
