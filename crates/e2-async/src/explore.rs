//! In-execution side of the explorer (DESIGN §3.4): every nondeterministic answer of the
//! mock host and every guest-side decision the properties quantify over goes through
//! `choose(label, n)`. An execution replays a prefix, then takes answer 0 (the default).

use std::cell::RefCell;

#[derive(Default, Clone)]
pub struct ExecLog {
    pub prefix: Vec<usize>,
    pub pos: usize,
    /// (label, arity, chosen)
    pub choices: Vec<(String, usize, usize)>,
    pub diverged: Option<String>,
    /// human-readable trace of what happened (host calls, driver turns)
    pub trace: Vec<String>,
    /// violations found: (property tag, stable key, description)
    pub violations: Vec<(String, String, String)>,
    /// state fingerprints after every host turn and (fingerprint, action) edges
    pub fingerprints: Vec<u64>,
    pub edges: Vec<u64>,
    pub cur_fp: u64,
}

thread_local! {
    pub static LOG: RefCell<ExecLog> = RefCell::new(ExecLog::default());
}

pub fn reset(prefix: Vec<usize>) {
    LOG.with(|l| {
        *l.borrow_mut() = ExecLog {
            prefix,
            ..Default::default()
        }
    });
}

/// Pick one of `n` alternatives; 0 is the default answer. Arity 0/1 is not a choice point.
pub fn choose(label: &str, n: usize) -> usize {
    if n <= 1 {
        return 0;
    }
    LOG.with(|l| {
        let mut l = l.borrow_mut();
        let c = if l.pos < l.prefix.len() {
            let c = l.prefix[l.pos];
            if c >= n && l.diverged.is_none() {
                l.diverged = Some(format!(
                    "replayed choice {c} out of range at point {} ({label}, arity {n})",
                    l.pos
                ));
            }
            c.min(n - 1)
        } else {
            0
        };
        l.pos += 1;
        let fp = l.cur_fp;
        l.edges.push(vcommon::fnv(format!("{fp}|{label}|{c}").as_bytes()));
        l.choices.push((label.to_string(), n, c));
        c
    })
}

pub fn trace(s: impl Into<String>) {
    LOG.with(|l| {
        let mut l = l.borrow_mut();
        if l.trace.len() < 400 {
            l.trace.push(s.into());
        }
    })
}

/// Record a violation. `tag` = property the rule belongs to, `key` = stable identity.
pub fn violation(tag: &str, key: &str, what: impl Into<String>) {
    let what = what.into();
    trace(format!("!! VIOLATION[{tag}] {key}: {what}"));
    LOG.with(|l| {
        let mut l = l.borrow_mut();
        if !l.violations.iter().any(|v| v.0 == tag && v.1 == key) {
            l.violations.push((tag.to_string(), key.to_string(), what));
        }
    })
}

pub fn fingerprint(fp: u64) {
    LOG.with(|l| {
        let mut l = l.borrow_mut();
        l.cur_fp = fp;
        l.fingerprints.push(fp);
    })
}

pub fn take() -> ExecLog {
    LOG.with(|l| std::mem::take(&mut *l.borrow_mut()))
}

pub fn restore(l: ExecLog) {
    LOG.with(|x| *x.borrow_mut() = l);
}
