//! Scenario catalogue (DESIGN Appendix B): small async programs written against the real
//! runtime API, with the guest-side decisions the properties quantify over (when to poll,
//! cancel, drop) turned into explorer choice points, and an oracle at the end that compares
//! what the guest API reported with what the mock host actually did.

use crate::driver::{self, Opts};
use crate::explore::{choose, violation};
use crate::guest::{self, obs, Blob, Guard, Imp, ImpResult, BLOBF, BLOBS, U8F, U8S};
use crate::host::{self, with, Item, ResKind};
use futures::future::poll_fn;
use std::cell::RefCell;
use std::future::{Future, IntoFuture};
use std::pin::pin;
use std::rc::Rc;
use std::task::Poll;
use wit_bindgen::rt::async_support::{future_new, stream_new, StreamVtable, Subtask};
use wit_bindgen::{FutureWriteCancel, StreamResult};

pub struct Scenario {
    pub name: &'static str,
    pub props: &'static [&'static str],
    pub run: fn() -> &'static str,
    pub expected_panics: &'static [&'static str],
    pub leak_check: bool,
    pub max_bound: Option<usize>,
    pub allow_single_outcome: bool,
}

/// `static mut SPAWNED: Vec<BoxFuture>` keeps its capacity between tasks by design
/// (4 × 16 bytes after the first push, 8 × 16 after the fifth).
pub fn is_benign_static(size: usize) -> bool {
    size == 64 || size == 128
}

// ------------------------------------------------------------------------------- payloads

pub trait Payload: Sized + 'static + std::fmt::Debug {
    fn mk(id: u8) -> Self;
    fn bytes(&self) -> Item;
    fn vt() -> &'static StreamVtable<Self>;
    const NAME: &'static str;
}

impl Payload for u8 {
    fn mk(id: u8) -> u8 {
        id
    }
    fn bytes(&self) -> Item {
        vec![*self]
    }
    fn vt() -> &'static StreamVtable<u8> {
        &U8S
    }
    const NAME: &'static str = "u8";
}

impl Payload for Blob {
    fn mk(id: u8) -> Blob {
        Blob::new(id, 3)
    }
    fn bytes(&self) -> Item {
        self.0.clone()
    }
    fn vt() -> &'static StreamVtable<Blob> {
        &BLOBS
    }
    const NAME: &'static str = "blob";
}

fn items<T: Payload>(n: usize) -> Vec<T> {
    (0..n).map(|i| T::mk(0x10 + i as u8)).collect()
}

fn expect_items<T: Payload>(n: usize) -> Vec<Item> {
    // same content as `items`, computed without touching the ledger
    (0..n)
        .map(|i| {
            let id = 0x10 + i as u8;
            if T::NAME == "u8" {
                vec![id]
            } else {
                vec![id, id.wrapping_add(1), id.wrapping_add(2)]
            }
        })
        .collect()
}

fn check(tag: &str, key: &str, ok: bool, what: impl FnOnce() -> String) {
    if !ok {
        violation(tag, key, what());
    }
}

/// After everything is over: every Blob created was either handed to the host (then its
/// lowered list was freed exactly once and the Rust value not dropped again) or dropped in
/// the guest exactly once. The allocator catches double frees / leaks of the buffers; this
/// catches values duplicated or lost at the Rust level.
fn blob_ledger_check(tag: &str) {
    let l = guest::LEDGER.with(|l| l.borrow().clone());
    let mut ids: Vec<u8> = l.created.clone();
    ids.extend(l.lifted.iter());
    ids.sort();
    ids.dedup();
    for id in ids {
        let cnt = |v: &Vec<u8>| v.iter().filter(|x| **x == id).count();
        let born = cnt(&l.created) + cnt(&l.lifted);
        let died = cnt(&l.dropped) + cnt(&l.lowered);
        if born != died {
            violation(tag, "payload-ownership-unbalanced", format!("payload value {id:#x}: came into being {born} time(s) (created/lifted) but went away {died} time(s) (dropped/lowered): ledger {l:?}"));
        }
        let lowered = cnt(&l.lowered);
        let released = cnt(&l.dealloc) + cnt(&l.lifted).min(lowered);
        let _ = released;
    }
}

// ------------------------------------------------------------------------------- stream writes

#[derive(Clone, Copy, PartialEq, Eq, Debug)]
enum WMode {
    Await,
    CancelOrDrop,
    WriteAll,
}

#[derive(Default)]
struct WReport {
    sent: usize,
    leftovers: Option<Vec<Item>>,
    statuses: Vec<String>,
}

fn w_scn<T: Payload>(n: usize, mode: WMode) -> &'static str {
    let rep = Rc::new(RefCell::new(WReport::default()));
    let rep2 = rep.clone();
    let si = with(|h| h.streams.len());
    with(|h| h.prefer_blocked = mode == WMode::CancelOrDrop);
    driver::start_task(async move {
        let _g = Guard::new();
        let (mut tx, rx) = unsafe { stream_new(T::vt()) };
        with(|h| h.give_stream_end_to_host(rx.take_handle(), vec![]));
        drop(rx);
        let vals = items::<T>(n);
        match mode {
            WMode::WriteAll => {
                let left = tx.write_all(vals).await;
                let mut r = rep2.borrow_mut();
                r.sent = n - left.len();
                r.statuses.push(format!("write_all left {}", left.len()));
                r.leftovers = Some(left.iter().map(|x| x.bytes()).collect());
            }
            WMode::Await | WMode::CancelOrDrop => {
                enum D<R> {
                    Done(R),
                    Cancel,
                    Drop,
                }
                let mut buf_left: Option<Vec<Item>> = None;
                {
                    let mut w = pin!(tx.write(vals));
                    let mut polled = false;
                    let decision = poll_fn(|cx| {
                        // woken again: the guest may cancel / drop *before* looking at the
                        // operation, i.e. while a delivered completion code is still unread
                        if polled && mode == WMode::CancelOrDrop {
                            match choose("guest:write-on-wake", 3) {
                                1 => return Poll::Ready(D::Cancel),
                                2 => return Poll::Ready(D::Drop),
                                _ => {}
                            }
                        }
                        polled = true;
                        match w.as_mut().poll(cx) {
                            Poll::Ready(r) => Poll::Ready(D::Done(r)),
                            Poll::Pending => {
                                if mode == WMode::CancelOrDrop {
                                    match choose("guest:write-pending", 3) {
                                        0 => Poll::Pending,
                                        1 => Poll::Ready(D::Cancel),
                                        _ => Poll::Ready(D::Drop),
                                    }
                                } else {
                                    Poll::Pending
                                }
                            }
                        }
                    })
                    .await;
                    match decision {
                        D::Cancel => {
                            let (st, buf) = w.as_mut().cancel();
                            let mut r = rep2.borrow_mut();
                            r.statuses.push(format!("cancel -> {st:?}, remaining {}", buf.remaining()));
                            if let StreamResult::Complete(k) = st {
                                r.sent += k;
                            }
                            buf_left = Some(buf.into_vec().iter().map(|x| x.bytes()).collect());
                        }
                        D::Drop => {
                            rep2.borrow_mut().statuses.push("dropped write future".into());
                            // `w` falls out of scope below: dropped while in flight
                        }
                        D::Done((st, buf)) => {
                            let mut r = rep2.borrow_mut();
                            r.statuses.push(format!("{st:?}, remaining {}", buf.remaining()));
                            if let StreamResult::Complete(k) = st {
                                r.sent += k;
                            }
                            buf_left = Some(buf.into_vec().iter().map(|x| x.bytes()).collect());
                        }
                    }
                }
                rep2.borrow_mut().leftovers = buf_left;
            }
        }
        drop(tx);
    });
    let how = driver::run(&Opts::default(), &mut vec![]);
    let r = rep.borrow();
    obs(format!("{:?} sent={} left={:?}", r.statuses, r.sent, r.leftovers));
    if how == "done" {
        let want = expect_items::<T>(n);
        let taken = with(|h| h.streams[si].taken.clone());
        check("C19", "writer:host-took-not-a-prefix", taken[..] == want[..taken.len().min(want.len())] && taken.len() <= n, || format!("host reader received {taken:?}, not a prefix of the written sequence {want:?}"));
        if let Some(left) = &r.leftovers {
            check("C19", "writer:reported-count-differs", r.sent == taken.len(), || format!("writer reported {} item(s) sent but the host took {} ({:?})", r.sent, taken.len(), r.statuses));
            check("C19", "writer:leftovers-wrong", left[..] == want[taken.len().min(n)..], || format!("values handed back to the writer {left:?} are not exactly the untransferred ones {:?}", &want[taken.len().min(n)..]));
        }
        blob_ledger_check("C19");
    }
    how
}

// ------------------------------------------------------------------------------- stream reads

#[derive(Clone, Copy, PartialEq, Eq, Debug)]
enum RMode {
    /// `read` with capacity `cap` repeatedly until Dropped
    Read(usize),
    /// `next()` until None
    Next,
    Collect,
    /// one `read` that may be cancelled or dropped while pending, then read the rest
    CancelOrDrop(usize),
    /// through the futures::Stream adapter
    Adapter,
}

fn r_scn<T: Payload>(q: usize, mode: RMode) -> &'static str {
    let got: Rc<RefCell<(Vec<Item>, Vec<String>, bool)>> = Rc::new(RefCell::new((vec![], vec![], false)));
    let got2 = got.clone();
    let si = with(|h| h.streams.len());
    with(|h| h.prefer_blocked = matches!(mode, RMode::CancelOrDrop(_)));
    driver::start_task(async move {
        let (tx, mut rx) = unsafe { stream_new(T::vt()) };
        // RawStreamWriter has no take_handle: the writer handle goes to the host, the Rust
        // value is forgotten (as generated code does when it passes a writer on).
        let wh = tx.handle();
        std::mem::forget(tx);
        with(|h| h.give_stream_end_to_host(wh, expect_items::<T>(q)));
        let push = |v: &mut Vec<T>| {
            let mut g = got2.borrow_mut();
            for x in v.drain(..) {
                g.0.push(x.bytes());
            }
        };
        match mode {
            RMode::Read(cap) => loop {
                let (st, mut buf) = rx.read(Vec::with_capacity(cap)).await;
                got2.borrow_mut().1.push(format!("{st:?}+{}", buf.len()));
                if let StreamResult::Complete(k) = st {
                    if k != buf.len() {
                        violation("C19", "reader:count-differs-from-buffer", format!("read reported Complete({k}) but the buffer holds {} new item(s)", buf.len()));
                    }
                }
                push(&mut buf);
                if st == StreamResult::Dropped {
                    got2.borrow_mut().2 = true;
                    break;
                }
                if cap == 0 {
                    break;
                }
            },
            RMode::Next => {
                while let Some(x) = rx.next().await {
                    push(&mut vec![x]);
                }
                got2.borrow_mut().2 = true;
            }
            RMode::Collect => {
                let mut all = rx.collect().await;
                push(&mut all);
                got2.borrow_mut().2 = true;
                return;
            }
            RMode::Adapter => {
                use futures::StreamExt;
                let mut s = rx.into_stream();
                while let Some(x) = s.next().await {
                    push(&mut vec![x]);
                }
                got2.borrow_mut().2 = true;
                return;
            }
            RMode::CancelOrDrop(cap) => {
                {
                    let mut r = pin!(rx.read(Vec::with_capacity(cap)));
                    let mut dropped = false;
                    let mut polled = false;
                    let decision = poll_fn(|cx| {
                        if polled {
                            match choose("guest:read-on-wake", 3) {
                                1 => return Poll::Ready(None),
                                2 => {
                                    dropped = true;
                                    return Poll::Ready(Some((StreamResult::Cancelled, Vec::new())));
                                }
                                _ => {}
                            }
                        }
                        polled = true;
                        match r.as_mut().poll(cx) {
                            Poll::Ready(x) => Poll::Ready(Some(x)),
                            Poll::Pending => match choose("guest:read-pending", 3) {
                                0 => Poll::Pending,
                                1 => Poll::Ready(None),
                                _ => {
                                    dropped = true;
                                    Poll::Ready(Some((StreamResult::Cancelled, Vec::new())))
                                }
                            },
                        }
                    })
                    .await;
                    match decision {
                        None => {
                            let (st, mut buf) = r.as_mut().cancel();
                            got2.borrow_mut().1.push(format!("cancel -> {st:?}+{}", buf.len()));
                            if st == StreamResult::Dropped {
                                got2.borrow_mut().2 = true;
                            }
                            push(&mut buf);
                        }
                        Some(_) if dropped => {
                            got2.borrow_mut().1.push("dropped read".into());
                            // items that raced into the dropped read are lost by design of
                            // `drop`; the oracle below only demands a subsequence then
                            got2.borrow_mut().1.push("lossy".into());
                        }
                        Some((st, mut buf)) => {
                            got2.borrow_mut().1.push(format!("{st:?}+{}", buf.len()));
                            if st == StreamResult::Dropped {
                                got2.borrow_mut().2 = true;
                            }
                            push(&mut buf);
                        }
                    }
                }
                if !got2.borrow().2 {
                    while let Some(x) = rx.next().await {
                        push(&mut vec![x]);
                    }
                    got2.borrow_mut().2 = true;
                }
            }
        }
        drop(rx);
    });
    let how = driver::run(&Opts::default(), &mut vec![]);
    let g = got.borrow();
    obs(format!("{:?} got={:?} eof={}", g.1, g.0, g.2));
    if how == "done" {
        let given = with(|h| h.streams[si].given.clone());
        let want = expect_items::<T>(q);
        let lossy = g.1.iter().any(|s| s == "lossy");
        check("C19", "reader:host-gave-not-a-prefix", given[..] == want[..given.len().min(q)], || format!("host writer delivered {given:?}, not a prefix of its queue {want:?} (harness inconsistency?)"));
        if !lossy {
            check("C19", "reader:received-differs-from-delivered", g.0 == given, || format!("reader obtained {:?} but the host delivered {given:?} ({:?})", g.0, g.1));
        } else {
            let mut it = given.iter();
            let sub = g.0.iter().all(|x| it.any(|y| y == x));
            check("C19", "reader:received-not-subsequence", sub, || format!("reader obtained {:?}, not an in-order subsequence of what the host delivered {given:?}", g.0));
        }
        if g.2 && !lossy && !matches!(mode, RMode::Read(0)) {
            check("C19", "reader:eof-before-all-items", g.0 == want, || format!("reader saw end-of-stream having obtained {:?} of {want:?}", g.0));
        }
        blob_ledger_check("C19");
    }
    how
}

// ------------------------------------------------------------------------------- guest<->guest stream

fn g_scn<T: Payload>(n: usize, cap: usize, two_tasks: bool) -> &'static str {
    let got: Rc<RefCell<Vec<Item>>> = Rc::new(RefCell::new(vec![]));
    let sent: Rc<RefCell<Vec<usize>>> = Rc::new(RefCell::new(vec![]));
    let (got2, sent2) = (got.clone(), sent.clone());
    let (tx, rx) = unsafe { stream_new(T::vt()) };
    let writer = async move {
        let mut tx = tx;
        let left = tx.write_all(items::<T>(n)).await;
        sent2.borrow_mut().push(n - left.len());
        drop(tx);
    };
    let reader = async move {
        let mut rx = rx;
        loop {
            let (st, mut buf) = rx.read(Vec::with_capacity(cap)).await;
            for x in buf.drain(..) {
                got2.borrow_mut().push(x.bytes());
            }
            if st == StreamResult::Dropped {
                break;
            }
        }
        drop(rx);
    };
    if two_tasks {
        driver::start_task(writer);
        driver::start_task(reader);
    } else {
        driver::start_task(async move {
            futures::join!(writer, reader);
        });
    }
    let how = driver::run(&Opts::default(), &mut vec![]);
    obs(format!("sent={:?} got={:?}", sent.borrow(), got.borrow()));
    if how == "done" {
        let want = expect_items::<T>(n);
        check("C19", "g2g:received-differs-from-written", *got.borrow() == want, || format!("guest reader obtained {:?}, writer wrote {want:?}", got.borrow()));
        check("C19", "g2g:writer-count", sent.borrow().first() == Some(&n), || format!("write_all reported {:?} of {n} sent although the reader took everything", sent.borrow()));
        blob_ledger_check("C19");
    }
    how
}

// ------------------------------------------------------------------------------- futures

#[derive(Clone, Copy, PartialEq, Eq, Debug)]
enum FMode {
    WriteAwait,
    WriteCancelOrDrop,
    DropWriterUnwritten,
    ReadAwait,
    ReadCancelOrDrop,
    BothInGuest,
}

fn f_scn(heap: bool, mode: FMode, allow_cancel: bool) -> &'static str {
    let rep: Rc<RefCell<Vec<String>>> = Rc::new(RefCell::new(vec![]));
    let rep2 = rep.clone();
    let fi = with(|h| h.futs.len());
    with(|h| h.prefer_blocked = matches!(mode, FMode::WriteCancelOrDrop | FMode::ReadCancelOrDrop) || allow_cancel);
    macro_rules! body {
        ($vt:expr, $mk:expr, $bytes:expr, $default:expr) => {{
            driver::start_task(async move {
                let _g = Guard::new();
                let (tx, rx) = unsafe { future_new($default, $vt) };
                match mode {
                    FMode::WriteAwait => {
                        with(|h| h.give_future_end_to_host(rx.take_handle(), None));
                        drop(rx);
                        match tx.write($mk).await {
                            Ok(()) => rep2.borrow_mut().push("written".into()),
                            Err(e) => rep2.borrow_mut().push(format!("dropped, value back {:?}", $bytes(&e.value))),
                        }
                    }
                    FMode::WriteCancelOrDrop => {
                        with(|h| h.give_future_end_to_host(rx.take_handle(), None));
                        drop(rx);
                        let mut w = pin!(tx.write($mk));
                        let mut polled = false;
                        let d = poll_fn(|cx| {
                            if polled {
                                match choose("guest:fwrite-on-wake", 3) {
                                    1 => return Poll::Ready(None),
                                    2 => {
                                        rep2.borrow_mut().push("drop write future".into());
                                        return Poll::Ready(Some(Ok(())));
                                    }
                                    _ => {}
                                }
                            }
                            polled = true;
                            match w.as_mut().poll(cx) {
                                Poll::Ready(r) => Poll::Ready(Some(r)),
                                Poll::Pending => match choose("guest:fwrite-pending", 3) {
                                    0 => Poll::Pending,
                                    1 => Poll::Ready(None),
                                    _ => {
                                        rep2.borrow_mut().push("drop write future".into());
                                        Poll::Ready(Some(Ok(())))
                                    }
                                },
                            }
                        })
                        .await;
                        match d {
                            None => match w.as_mut().cancel() {
                                FutureWriteCancel::AlreadySent => rep2.borrow_mut().push("cancel: already sent".into()),
                                FutureWriteCancel::Dropped(v) => rep2.borrow_mut().push(format!("cancel: reader dropped, value back {:?}", $bytes(&v))),
                                FutureWriteCancel::Cancelled(v, writer) => {
                                    rep2.borrow_mut().push(format!("cancel: cancelled, value back {:?}", $bytes(&v)));
                                    if choose("guest:rewrite-after-cancel", 2) == 1 {
                                        match writer.write(v).await {
                                            Ok(()) => rep2.borrow_mut().push("rewritten".into()),
                                            Err(_) => rep2.borrow_mut().push("rewrite: dropped".into()),
                                        }
                                    } else {
                                        drop(writer);
                                        rep2.borrow_mut().push("writer dropped after cancel".into());
                                    }
                                }
                            },
                            Some(Ok(())) if rep2.borrow().last().map(|s| s == "drop write future").unwrap_or(false) => {}
                            Some(Ok(())) => rep2.borrow_mut().push("written".into()),
                            Some(Err(e)) => rep2.borrow_mut().push(format!("dropped, value back {:?}", $bytes(&e.value))),
                        }
                    }
                    FMode::DropWriterUnwritten => {
                        with(|h| h.give_future_end_to_host(rx.take_handle(), None));
                        drop(rx);
                        drop(tx);
                        rep2.borrow_mut().push("writer dropped unwritten".into());
                        if allow_cancel {
                            wit_bindgen::yield_async().await;
                            let mut imp = Imp::new(false, ResKind::None);
                            let p = imp.params(0x60);
                            imp.call(p).await;
                        }
                    }
                    FMode::ReadAwait => {
                        // FutureWriter has no way to give its handle away: use the raw handle
                        let wh = writer_handle(&tx);
                        std::mem::forget(tx);
                        with(|h| h.give_future_end_to_host(wh, Some(vec![0x42, 0x43, 0x44][..if heap { 3 } else { 1 }].to_vec())));
                        let v = rx.into_future().await;
                        rep2.borrow_mut().push(format!("read {:?}", $bytes(&v)));
                    }
                    FMode::ReadCancelOrDrop => {
                        let wh = writer_handle(&tx);
                        std::mem::forget(tx);
                        with(|h| h.give_future_end_to_host(wh, Some(vec![0x42, 0x43, 0x44][..if heap { 3 } else { 1 }].to_vec())));
                        let mut r = pin!(rx.into_future());
                        let mut polled = false;
                        let d = poll_fn(|cx| {
                            if polled {
                                match choose("guest:fread-on-wake", 3) {
                                    1 => return Poll::Ready(None),
                                    2 => return Poll::Ready(Some(None)),
                                    _ => {}
                                }
                            }
                            polled = true;
                            match r.as_mut().poll(cx) {
                                Poll::Ready(v) => Poll::Ready(Some(Some(v))),
                                Poll::Pending => match choose("guest:fread-pending", 3) {
                                    0 => Poll::Pending,
                                    1 => Poll::Ready(None),
                                    _ => Poll::Ready(Some(None)),
                                },
                            }
                        })
                        .await;
                        match d {
                            Some(Some(v)) => rep2.borrow_mut().push(format!("read {:?}", $bytes(&v))),
                            Some(None) => rep2.borrow_mut().push("drop read future".into()),
                            None => match r.as_mut().cancel() {
                                Ok(v) => rep2.borrow_mut().push(format!("cancel: read {:?}", $bytes(&v))),
                                Err(reader) => {
                                    rep2.borrow_mut().push("cancel: cancelled".into());
                                    if choose("guest:reread-after-cancel", 2) == 1 {
                                        let v = reader.into_future().await;
                                        rep2.borrow_mut().push(format!("read {:?}", $bytes(&v)));
                                    } else {
                                        drop(reader);
                                    }
                                }
                            },
                        }
                    }
                    FMode::BothInGuest => {
                        let order = choose("guest:future-order", 2);
                        let rep3 = rep2.clone();
                        let w = async move {
                            match tx.write($mk).await {
                                Ok(()) => rep3.borrow_mut().push("written".into()),
                                Err(_) => rep3.borrow_mut().push("write: reader dropped".into()),
                            }
                        };
                        let rep4 = rep2.clone();
                        let r = async move {
                            let v = rx.into_future().await;
                            rep4.borrow_mut().push(format!("read {:?}", $bytes(&v)));
                        };
                        if order == 0 {
                            futures::join!(w, r);
                        } else {
                            futures::join!(r, w);
                        }
                    }
                }
            });
        }};
    }
    if heap {
        body!(&BLOBF, Blob::new(0x21, 3), |b: &Blob| b.0.clone(), Blob::default);
    } else {
        body!(&U8F, 0x21u8, |b: &u8| vec![*b], || 0xD0u8);
    }
    let how = driver::run(&Opts { allow_cancel, ..Opts::default() }, &mut vec![]);
    let r = rep.borrow();
    obs(format!("{:?}", *r));
    if how == "done" {
        let (taken, given, g2g, transfers, w_owner) = with(|h| {
            let f = &h.futs[fi];
            (f.taken.clone(), f.given.clone(), f.g2g.clone(), f.transfers, f.w)
        });
        let cancelled_task = with(|h| h.tasks.iter().any(|t| t.cancel_sent));
        let val: Item = if heap { vec![0x21, 0x22, 0x23] } else { vec![0x21] };
        let dflt: Item = if heap { vec![0xD0, 0xD1] } else { vec![0xD0] };
        check("C20", "future:more-than-one-value", transfers <= 1, || format!("{transfers} values went through one future"));
        let says = |s: &str| r.iter().any(|x| x.contains(s));
        let is = |s: &str| r.iter().any(|x| x == s);
        if is("written") && !says("drop write future") {
            check("C20", "future:written-but-host-got-other", taken.as_ref() == Some(&val) || g2g.as_ref() == Some(&val), || format!("write reported success but the reader side holds {taken:?}/{g2g:?}"));
        }
        if says("cancel: already sent") {
            check("C20", "future:already-sent-but-not-taken", taken.as_ref() == Some(&val), || format!("cancel reported AlreadySent but the host reader holds {taken:?}"));
        }
        if says("cancel: cancelled, value back") || says("value back") {
            check("C20", "future:value-back-but-also-taken", taken.as_ref() != Some(&val) || says("rewritten"), || "the value was handed back to the writer although the host reader also received it".to_string());
        }
        if (says("writer dropped unwritten") || says("writer dropped after cancel") || says("drop write future")) && !cancelled_task {
            // the host reader is still there unless it dropped: then the default must arrive
            let reader_gone = with(|h| h.futs[fi].r == host::Owner::Dropped);
            if !reader_gone {
                check("C20", "future:default-not-delivered", taken.as_ref() == Some(&dflt) || taken.as_ref() == Some(&val), || format!("writer was dropped without a completed write, the reader is still waiting, but it received {taken:?} (expected the default value {dflt:?})"));
            }
        }
        if let Some(g) = &given {
            let shown = format!("read {g:?}");
            if !says("drop read future") && !(says("cancel: cancelled") && !says("read ")) {
                check("C20", "future:read-value-differs", says(&shown), || format!("host delivered {g:?} but the reader reported {:?}", *r));
            }
        }
        let _ = w_owner;
        blob_ledger_check("C20");
    }
    how
}

fn writer_handle<T>(w: &wit_bindgen::FutureWriter<T>) -> u32 {
    // `FutureWriter` prints its handle in Debug; it exposes no accessor.
    let s = format!("{w:?}");
    s.split("handle: ").nth(1).and_then(|x| x.trim_end_matches(|c: char| !c.is_ascii_digit()).parse().ok()).expect("FutureWriter debug format")
}

// ------------------------------------------------------------------------------- subtasks

fn s_scn(indirect: bool, result: ResKind, may_drop: bool, two: bool) -> &'static str {
    let rep: Rc<RefCell<Vec<String>>> = Rc::new(RefCell::new(vec![]));
    let rep2 = rep.clone();
    with(|h| h.prefer_blocked = may_drop);
    driver::start_task(async move {
        let mut imp = Imp::new(indirect, result);
        let params = imp.params(0x30);
        let call = async {
            let mut c = pin!(imp.call(params));
            let mut polled = false;
            let d = poll_fn(|cx| {
                // woken again: the call future may be dropped before it looks at a status that
                // was already delivered (select! / timeout where another branch wins)
                if polled && may_drop && choose("guest:call-on-wake", 2) == 1 {
                    return Poll::Ready(None);
                }
                polled = true;
                match c.as_mut().poll(cx) {
                    Poll::Ready(r) => Poll::Ready(Some(r)),
                    Poll::Pending => {
                        if may_drop && choose("guest:call-pending", 2) == 1 {
                            Poll::Ready(None)
                        } else {
                            Poll::Pending
                        }
                    }
                }
            })
            .await;
            match d {
                Some(r) => rep2.borrow_mut().push(format!("result {r:?}")),
                None => rep2.borrow_mut().push("call future dropped".into()),
            }
        };
        if two {
            let mut imp2 = Imp::new(!indirect, ResKind::Flat);
            let p2 = imp2.params(0x40);
            let rep3 = rep2.clone();
            let second = async move {
                let r = imp2.call(p2).await;
                rep3.borrow_mut().push(format!("second {r:?}"));
            };
            futures::join!(call, second);
        } else {
            call.await;
        }
    });
    let how = driver::run(&Opts::default(), &mut vec![]);
    let r = rep.borrow();
    obs(format!("{:?}", *r));
    if how == "done" {
        let counts = guest::IMP.with(|c| c.borrow().clone());
        let subs: Vec<(host::Phase, bool, bool, Option<(Item, usize)>)> = with(|h| h.subs.iter().map(|s| (s.phase, s.dropped, s.resolved_delivered, s.params_seen.clone())).collect());
        for (i, c) in counts.iter().enumerate() {
            let Some((phase, dropped, _res, seen)) = subs.get(i).cloned() else { continue };
            let started = seen.is_some();
            check("C21", "subtask:lower-count", c.lower == 1 && c.call_import == 1, || format!("call {i}: params lowered {} time(s), import called {} time(s)", c.lower, c.call_import));
            check("C21", "subtask:handle-not-dropped", dropped, || format!("call {i}: subtask handle never dropped (phase {phase:?})"));
            match phase {
                host::Phase::Returned => {
                    check("C21", "subtask:returned-bookkeeping", c.dealloc_lists == 1 && c.dealloc_lists_and_own == 0 && c.results_lift == 1 && c.own_dropped_by_guest == 0, || format!("call {i} returned: counts {c:?} (want lists freed once, owns untouched, results lifted once)"));
                    let id = if i == 0 { 0x30u8 } else { 0x40 };
                    check("C21", "subtask:params-seen-by-callee", seen.as_ref().map(|s| s.0 == vec![id, id + 1, id + 2] && s.1 == 100 + id as usize).unwrap_or(false), || format!("call {i}: callee saw params {seen:?}"));
                }
                host::Phase::CancelledBeforeStart => {
                    check("C21", "subtask:cancelled-before-start-bookkeeping", c.dealloc_lists == 0 && c.dealloc_lists_and_own == 1 && c.results_lift == 0 && c.own_dropped_by_guest == 1 && !started, || format!("call {i} cancelled before start: counts {c:?}, started={started}"));
                }
                host::Phase::CancelledAfterStart => {
                    check("C21", "subtask:cancelled-after-start-bookkeeping", c.dealloc_lists == 1 && c.dealloc_lists_and_own == 0 && c.results_lift == 0 && c.own_dropped_by_guest == 0, || format!("call {i} cancelled after start: counts {c:?}"));
                }
                p => violation("C21", "subtask:unresolved-at-exit", format!("call {i}: task exited while the subtask is still {p:?}")),
            }
        }
        // result value check
        if let Some(first) = r.iter().find(|s| s.starts_with("result")) {
            let want = match result {
                ResKind::None => format!("result {:?}", ImpResult::None),
                ResKind::Flat => format!("result {:?}", ImpResult::Flat(7)),
                ResKind::Heap => format!("result {:?}", ImpResult::Heap(vec![7, 8, 9])),
            };
            check("C21", "subtask:result-value", *first == want, || format!("import result {first} differs from what the callee returned ({want})"));
        }
    }
    how
}

// ------------------------------------------------------------------------------- tasks (C22)

#[derive(Clone, Copy, PartialEq, Eq, Debug)]
enum TBody {
    Immediate,
    Yield(usize),
    AwaitImport,
    AwaitStreamWrite,
    Spawn(usize),
    WriteAndForget,
    ContextProbe,
}

fn t_scn(body: TBody, allow_cancel: bool) -> &'static str {
    let done: Rc<RefCell<Vec<String>>> = Rc::new(RefCell::new(vec![]));
    let d2 = done.clone();
    with(|h| h.prefer_blocked = allow_cancel);
    let probe = || {
        let p = host::cm_context_get();
        if !p.is_null() {
            violation("C22", "context-slot:set-while-running", "context.get returned the task state pointer while a callback of that task is running (it must be absent)");
        }
    };
    driver::start_task(async move {
        let _g = Guard::new();
        probe();
        match body {
            TBody::Immediate => {}
            TBody::Yield(k) => {
                for _ in 0..k {
                    wit_bindgen::yield_async().await;
                    probe();
                }
            }
            TBody::AwaitImport => {
                let mut imp = Imp::new(false, ResKind::Flat);
                let p = imp.params(0x30);
                let r = imp.call(p).await;
                d2.borrow_mut().push(format!("{r:?}"));
            }
            TBody::AwaitStreamWrite => {
                let (mut tx, rx) = unsafe { stream_new(&U8S) };
                with(|h| h.give_stream_end_to_host(rx.take_handle(), vec![]));
                let left = tx.write_all(vec![1, 2]).await;
                d2.borrow_mut().push(format!("left {}", left.len()));
            }
            #[cfg(not(feature = "spawn"))]
            TBody::Spawn(_) => {}
            #[cfg(feature = "spawn")]
            TBody::Spawn(n) => {
                for i in 0..n {
                    let d3 = d2.clone();
                    let g = Guard::new();
                    wit_bindgen::spawn_local(async move {
                        let _g = g;
                        if i == 0 {
                            wit_bindgen::yield_async().await;
                        } else {
                            let mut imp = Imp::new(false, ResKind::None);
                            let p = imp.params(0x50);
                            imp.call(p).await;
                        }
                        d3.borrow_mut().push(format!("child {i} done"));
                    });
                }
                if choose("guest:root-waits-first", 2) == 1 {
                    wit_bindgen::yield_async().await;
                }
            }
            TBody::WriteAndForget => {
                let (tx, rx) = unsafe { future_new(|| 0xD0u8, &U8F) };
                with(|h| h.give_future_end_to_host(rx.take_handle(), None));
                drop(rx);
                drop(tx); // unwritten: writes the default in the background
                if allow_cancel {
                    // keep the root busy so that a cancellation can still arrive
                    let mut imp = Imp::new(false, ResKind::None);
                    let p = imp.params(0x60);
                    imp.call(p).await;
                }
            }
            TBody::ContextProbe => {
                let mut imp = Imp::new(true, ResKind::Heap);
                let p = imp.params(0x30);
                imp.call(p).await;
                probe();
            }
        }
        d2.borrow_mut().push("root done".into());
    });
    let how = driver::run(&Opts { allow_cancel, expects_task_return: true, ..Opts::default() }, &mut vec![]);
    obs(format!("{:?}", done.borrow()));
    if how == "done" {
        let guards = guest::guard_counts();
        check("C22", "task:destructor-count", guards.iter().all(|c| *c == 1), || format!("destructors of the task's futures ran {guards:?} time(s) each (want exactly once)"));
        let cancelled = with(|h| h.tasks[0].cancel_sent);
        if !cancelled {
            if let TBody::Spawn(n) = body {
                for i in 0..n {
                    check("C22", "task:exit-before-spawned-work", done.borrow().iter().any(|s| *s == format!("child {i} done")), || format!("task exited before spawned child {i} finished: {:?}", done.borrow()));
                }
            }
            check("C22", "task:root-not-finished", done.borrow().iter().any(|s| s == "root done"), || "task exited without cancellation before its root future finished".to_string());
        }
    }
    how
}

fn t_block_on(body: TBody) -> &'static str {
    let out = wit_bindgen::block_on(async move {
        let _g = Guard::new();
        match body {
            TBody::Immediate => 1u32,
            TBody::Yield(k) => {
                for _ in 0..k {
                    wit_bindgen::yield_async().await;
                }
                2
            }
            TBody::AwaitImport => {
                let mut imp = Imp::new(false, ResKind::Flat);
                let p = imp.params(0x30);
                match imp.call(p).await {
                    ImpResult::Flat(x) => x,
                    _ => 0,
                }
            }
            TBody::AwaitStreamWrite => {
                let (mut tx, rx) = unsafe { stream_new(&U8S) };
                with(|h| h.give_stream_end_to_host(rx.take_handle(), vec![]));
                let left = tx.write_all(vec![1, 2]).await;
                left.len() as u32 + 10
            }
            _ => 0,
        }
    });
    obs(format!("block_on -> {out}"));
    let guards = guest::guard_counts();
    check("C22", "block_on:destructor-count", guards.iter().all(|c| *c == 1), || format!("destructors ran {guards:?} time(s)"));
    "done"
}

// ------------------------------------------------------------------------------- wakeups (C23)

/// A flag future: pending until set; stores the waker so that another party can wake it.
#[derive(Default)]
struct Flag {
    set: bool,
    waker: Option<std::task::Waker>,
    polls: usize,
}

fn k_scn(wakes: usize, also_waitable: bool, allow_cancel: bool) -> &'static str {
    let flag: Rc<RefCell<Flag>> = Rc::new(RefCell::new(Flag::default()));
    let f2 = flag.clone();
    let done = Rc::new(RefCell::new(false));
    let d2 = done.clone();
    // this scenario keeps the sleeper's waker in `flag` for as long as the scenario runs
    with(|h| h.wakers_outlive_tasks = true);
    driver::start_task(async move {
        let _g = Guard::new();
        let sleeper = poll_fn(|cx| {
            let mut f = f2.borrow_mut();
            f.polls += 1;
            if f.set {
                Poll::Ready(())
            } else {
                f.waker = Some(cx.waker().clone());
                Poll::Pending
            }
        });
        if also_waitable {
            let mut imp = Imp::new(false, ResKind::None);
            let p = imp.params(0x30);
            futures::join!(sleeper, imp.call(p));
        } else {
            sleeper.await;
        }
        *d2.borrow_mut() = true;
    });
    let mut externals: Vec<(String, driver::External)> = Vec::new();
    for i in 0..wakes {
        let f3 = flag.clone();
        let last = i + 1 == wakes;
        externals.push((
            format!("wake#{i}"),
            Box::new(move || {
                let w = {
                    let mut f = f3.borrow_mut();
                    if last {
                        f.set = true;
                    }
                    f.waker.clone()
                };
                // a wake from outside any callback of the sleeping task (another task or a
                // C-ABI waitable callback would do exactly this)
                if let Some(w) = w {
                    w.wake_by_ref();
                    // A task that told the host to WAIT can only run again through an event of
                    // its set: a wake that leaves no event ready for it is a lost wakeup, even
                    // if some unrelated waitable may resolve later.
                    with(|h| {
                        if let host::TaskStatus::Waiting(s) = h.tasks[0].status {
                            if h.ready(s).is_empty() {
                                let msg = format!("the task waits on set {s}; another party woke it, but no event became ready in that set (the wake cannot reach the task until an unrelated waitable fires)");
                                violation("C23", "wakeup:no-event-for-waiting-task", msg.clone());
                                // also inconsistent as a callback answer: WAIT on a set that cannot
                                // deliver what the task is pending on
                                violation("C22", "wait:set-cannot-deliver-pending-wakeup", msg);
                            }
                        }
                    });
                }
                true
            }),
        ));
    }
    let how = driver::run(&Opts { allow_cancel, ..Opts::default() }, &mut externals);
    obs(format!("polls={} done={}", flag.borrow().polls, done.borrow()));
    if how == "done" {
        let cancelled = with(|h| h.tasks[0].cancel_sent);
        if !cancelled {
            check("C23", "wakeup:task-exited-unfinished", *done.borrow(), || "sleeping task exited although its future never completed".to_string());
        }
        // unit stream accounting: per sleep exactly one item written and read
        with(|h| {
            for s in &h.streams {
                if s.elem == host::Elem::Unit {
                    let n = s.g2g.len();
                    check("C23", "wakeup:more-items-than-wakes", n <= wakes.max(1), || format!("{n} wakeup items went through the internal stream for {wakes} wake call(s)"));
                }
            }
        });
    }
    how
}

/// The task body owns a value whose destructor wakes the task's *own* waker (the sender half
/// of an in-task notify whose receiver is in the same task). Cancelling the task while it
/// sleeps runs that destructor in the middle of cancellation: it must be a no-op.
fn k4_scn(with_waitable: bool) -> &'static str {
    struct WakeOnDrop(Rc<RefCell<Flag>>);
    impl Drop for WakeOnDrop {
        fn drop(&mut self) {
            let w = self.0.borrow_mut().waker.take();
            if let Some(w) = w {
                w.wake();
            }
        }
    }
    let flag: Rc<RefCell<Flag>> = Rc::new(RefCell::new(Flag::default()));
    let f2 = flag.clone();
    with(|h| h.prefer_blocked = true);
    driver::start_task(async move {
        let _g = Guard::new();
        let _notify_on_drop = WakeOnDrop(f2.clone());
        let sleeper = poll_fn(|cx| {
            let mut f = f2.borrow_mut();
            f.polls += 1;
            if f.set {
                Poll::Ready(())
            } else {
                f.waker = Some(cx.waker().clone());
                Poll::Pending
            }
        });
        if with_waitable {
            let mut imp = Imp::new(false, ResKind::None);
            let p = imp.params(0x30);
            futures::join!(sleeper, imp.call(p));
        } else {
            sleeper.await;
        }
    });
    let f3 = flag.clone();
    // Without `inter-task-wakeup` a wake from outside the task is documented as unsupported
    // (it panics by design), so only the destructor's own wake is exercised there.
    let mut externals: Vec<(String, driver::External)> = if !cfg!(feature = "itw") { vec![] } else { vec![(
        "set-flag-and-wake".into(),
        Box::new(move || {
            let w = {
                let mut f = f3.borrow_mut();
                f.set = true;
                f.waker.clone()
            };
            if let Some(w) = w {
                w.wake_by_ref();
            }
            true
        }),
    )] };
    let how = driver::run(&Opts { allow_cancel: true, ..Opts::default() }, &mut externals);
    obs(format!("polls={}", flag.borrow().polls));
    if how == "done" {
        let guards = guest::guard_counts();
        check("C22", "task:destructor-count", guards.iter().all(|c| *c == 1), || format!("destructors ran {guards:?} time(s) each (want exactly once)"));
    }
    how
}

/// Task B wakes sleeping task A from inside B's own callback (a channel send from one
/// component task to another).
fn k3_scn(b_yields: usize, allow_cancel: bool) -> &'static str {
    let flag: Rc<RefCell<Flag>> = Rc::new(RefCell::new(Flag::default()));
    let (fa, fb) = (flag.clone(), flag.clone());
    let done = Rc::new(RefCell::new(false));
    let d2 = done.clone();
    with(|h| h.wakers_outlive_tasks = true);
    driver::start_task(async move {
        poll_fn(|cx| {
            let mut f = fa.borrow_mut();
            f.polls += 1;
            if f.set {
                f.waker = None;
                Poll::Ready(())
            } else {
                f.waker = Some(cx.waker().clone());
                Poll::Pending
            }
        })
        .await;
        *d2.borrow_mut() = true;
    });
    driver::start_task(async move {
        for _ in 0..b_yields {
            wit_bindgen::yield_async().await;
        }
        let w = {
            let mut f = fb.borrow_mut();
            f.set = true;
            f.waker.take()
        };
        if let Some(w) = w {
            w.wake();
            with(|h| {
                if let host::TaskStatus::Waiting(s) = h.tasks[0].status {
                    if h.ready(s).is_empty() {
                        violation("C23", "wakeup:no-event-for-waiting-task", format!("task 0 waits on set {s}; task 1 woke it, but no event became ready in that set"));
                    }
                }
            });
        }
    });
    let how = driver::run(&Opts { allow_cancel, ..Opts::default() }, &mut vec![]);
    obs(format!("polls={} done={}", flag.borrow().polls, done.borrow()));
    if how == "done" {
        let cancelled = with(|h| h.tasks[0].cancel_sent);
        if !cancelled {
            check("C23", "wakeup:task-exited-unfinished", *done.borrow(), || "sleeping task exited although its future never completed".to_string());
        }
        with(|h| {
            for s in &h.streams {
                if s.elem == host::Elem::Unit {
                    check("C23", "wakeup:more-items-than-wakes", s.g2g.len() <= 1, || format!("{} wakeup items went through the internal stream for one wake", s.g2g.len()));
                }
            }
        });
    }
    how
}

// ------------------------------------------------------------------------------- two concurrent stream operations

/// One task drives a stream write (to a host reader) and a stream read (from a host writer)
/// at the same time; either may be cancelled or dropped at a pending poll, which is how a
/// cancel comes to race with an event that is already queued for the other / same operation.
fn x_scn<T: Payload>() -> &'static str {
    let rep: Rc<RefCell<(usize, Option<Vec<Item>>, Vec<Item>, Vec<String>)>> = Rc::new(RefCell::new((0, None, vec![], vec![])));
    let (ra, rb) = (rep.clone(), rep.clone());
    let si = with(|h| h.streams.len());
    with(|h| h.prefer_blocked = true);
    driver::start_task(async move {
        let (mut tx, rx) = unsafe { stream_new(T::vt()) };
        with(|h| h.give_stream_end_to_host(rx.take_handle(), vec![]));
        drop(rx);
        let (tx2, mut rx2) = unsafe { stream_new(T::vt()) };
        let wh = tx2.handle();
        std::mem::forget(tx2);
        with(|h| h.give_stream_end_to_host(wh, expect_items::<T>(2)));
        let writer = async {
            enum D<R> {
                Done(R),
                Cancel,
            }
            let mut w = pin!(tx.write(items::<T>(2)));
            let d = poll_fn(|cx| match w.as_mut().poll(cx) {
                Poll::Ready(r) => Poll::Ready(D::Done(r)),
                Poll::Pending => {
                    if choose("guest:x-write-pending", 2) == 1 {
                        Poll::Ready(D::Cancel)
                    } else {
                        Poll::Pending
                    }
                }
            })
            .await;
            let (st, buf) = match d {
                D::Done(r) => r,
                D::Cancel => w.as_mut().cancel(),
            };
            let mut r = ra.borrow_mut();
            r.3.push(format!("w:{st:?}"));
            if let StreamResult::Complete(k) = st {
                r.0 += k;
            }
            r.1 = Some(buf.into_vec().iter().map(|x| x.bytes()).collect());
        };
        let reader = async {
            enum D<R> {
                Done(R),
                Cancel,
            }
            let mut rd = pin!(rx2.read(Vec::with_capacity(2)));
            let d = poll_fn(|cx| match rd.as_mut().poll(cx) {
                Poll::Ready(r) => Poll::Ready(D::Done(r)),
                Poll::Pending => {
                    if choose("guest:x-read-pending", 2) == 1 {
                        Poll::Ready(D::Cancel)
                    } else {
                        Poll::Pending
                    }
                }
            })
            .await;
            let (st, buf) = match d {
                D::Done(r) => r,
                D::Cancel => rd.as_mut().cancel(),
            };
            let mut r = rb.borrow_mut();
            r.3.push(format!("r:{st:?}+{}", buf.len()));
            for x in buf {
                r.2.push(x.bytes());
            }
        };
        futures::join!(writer, reader);
        drop(tx);
        drop(rx2);
    });
    let how = driver::run(&Opts::default(), &mut vec![]);
    let r = rep.borrow();
    obs(format!("{:?} sent={} left={:?} got={:?}", r.3, r.0, r.1, r.2));
    if how == "done" {
        let want = expect_items::<T>(2);
        let (taken, given) = with(|h| (h.streams[si].taken.clone(), h.streams[si + 1].given.clone()));
        check("C19", "x:writer-count", r.0 == taken.len() && taken[..] == want[..taken.len()], || format!("writer reported {} sent, host took {taken:?}", r.0));
        if let Some(left) = &r.1 {
            check("C19", "x:writer-leftovers", left[..] == want[taken.len().min(2)..], || format!("leftovers {left:?} vs untransferred {:?}", &want[taken.len().min(2)..]));
        }
        check("C19", "x:reader-items", r.2 == given, || format!("reader obtained {:?}, host delivered {given:?}", r.2));
        blob_ledger_check("C19");
    }
    how
}

// ------------------------------------------------------------------------------- foreign executor / moves (C18)

#[derive(Clone, Copy, PartialEq, Eq, Debug)]
enum MOp {
    StreamWrite,
    StreamRead,
    FutureRead,
    Subtask,
}

/// One in-flight operation, driven by one or two *foreign* tasks (harness executor speaking
/// the wasip3_task C ABI `version`), optionally moved from task A to task B while pending.
fn m_scn(version: u32, op: MOp, allow_move: bool) -> &'static str {
    use crate::hexec::{self, HTask};
    with(|h| h.prefer_blocked = true);
    let tasks = [HTask::new(version), HTask::new(version)];
    let mut alive = [true, true];
    let result: Rc<RefCell<Option<String>>> = Rc::new(RefCell::new(None));
    let res2 = result.clone();
    let mut fut: Option<std::pin::Pin<Box<dyn Future<Output = ()>>>> = Some(match op {
        MOp::StreamWrite => {
            let (mut tx, rx) = unsafe { stream_new(&BLOBS) };
            with(|h| h.give_stream_end_to_host(rx.take_handle(), vec![]));
            drop(rx);
            Box::pin(async move {
                let (st, buf) = tx.write(items::<Blob>(2)).await;
                *res2.borrow_mut() = Some(format!("{st:?} rem {}", buf.remaining()));
            })
        }
        MOp::StreamRead => {
            let (tx, mut rx) = unsafe { stream_new(&BLOBS) };
            let wh = tx.handle();
            std::mem::forget(tx);
            with(|h| h.give_stream_end_to_host(wh, expect_items::<Blob>(2)));
            Box::pin(async move {
                let (st, buf) = rx.read(Vec::with_capacity(2)).await;
                *res2.borrow_mut() = Some(format!("{st:?} got {}", buf.len()));
            })
        }
        MOp::FutureRead => {
            let (tx, rx) = unsafe { future_new(Blob::default, &BLOBF) };
            let wh = writer_handle(&tx);
            std::mem::forget(tx);
            with(|h| h.give_future_end_to_host(wh, Some(vec![0x42, 0x43, 0x44])));
            Box::pin(async move {
                let v = rx.into_future().await;
                *res2.borrow_mut() = Some(format!("read {:?}", v.0));
            })
        }
        MOp::Subtask => Box::pin(async move {
            let mut imp = Imp::new(true, ResKind::Heap);
            let p = imp.params(0x30);
            let r = imp.call(p).await;
            *res2.borrow_mut() = Some(format!("{r:?}"));
        }),
    });
    let mut last_polled: Option<usize> = None;
    let mut how = "horizon";
    for _step in 0..14 {
        hexec::audit_all();
        crate::alloc::audit();
        crate::explore::fingerprint(with(|h| h.fingerprint()));
        #[derive(Clone, Copy, Debug)]
        enum A {
            Poll(usize),
            Deliver(usize, u32),
            Host(host::Progress),
            DropOp(Option<usize>),
            End(usize),
        }
        let mut acts: Vec<A> = Vec::new();
        if fut.is_some() {
            for t in 0..2 {
                if alive[t] && tasks[t].was_woken() {
                    acts.push(A::Poll(t));
                }
            }
        }
        for t in 0..2 {
            if alive[t] {
                let regs: Vec<u32> = tasks[t].st().regs.keys().copied().collect();
                for w in regs {
                    // an executor only sees events of members of its own waitable set
                    let set = tasks[t].st().set;
                    if with(|h| h.in_set(w) == Some(set) && h.entry(w).map(|e| e.pending.is_some()).unwrap_or(false)) {
                        acts.push(A::Deliver(t, w));
                    }
                }
            }
        }
        for p in with(|h| h.progress_actions()) {
            acts.push(A::Host(p));
        }
        if fut.is_some() {
            match last_polled {
                None => acts.push(A::Poll(0)),
                Some(t) => {
                    // spurious re-poll under the same task, and the move to the other task
                    if alive[t] && !tasks[t].was_woken() {
                        acts.push(A::Poll(t));
                    }
                    if allow_move && alive[1 - t] {
                        acts.push(A::Poll(1 - t));
                    }
                }
            }
            if let Some(t) = last_polled {
                if alive[t] {
                    acts.push(A::DropOp(Some(t)));
                }
                if version >= 2 {
                    acts.push(A::DropOp(None));
                }
            }
        }
        for t in 0..2 {
            // a task may end once the operation is not (or no longer) driven by it alone
            if alive[t] && (fut.is_none() || (allow_move && last_polled.is_some())) {
                acts.push(A::End(t));
            }
        }
        if acts.is_empty() {
            if fut.is_some() {
                violation("C18", "deadlock:foreign-executor", "operation pending, nothing registered that the host could complete");
                how = "deadlock";
            } else {
                how = "done";
            }
            break;
        }
        match acts[choose("m-step", acts.len())] {
            A::Poll(t) => {
                crate::explore::trace(format!("htask{t}: poll op"));
                last_polled = Some(t);
                if let Poll::Ready(()) = tasks[t].poll(fut.as_mut().unwrap()) {
                    fut = None;
                }
            }
            A::Deliver(t, w) => tasks[t].deliver(w),
            A::Host(p) => with(|h| h.apply_progress(p)),
            A::DropOp(ctx) => {
                crate::explore::trace(format!("drop op in context {ctx:?}"));
                let f = fut.take();
                match ctx {
                    Some(t) => tasks[t].enter(|_| drop(f)),
                    None => drop(f),
                }
            }
            A::End(t) => {
                crate::explore::trace(format!("htask{t}: ends"));
                tasks[t].destroy();
                alive[t] = false;
            }
        }
    }
    obs(format!("{:?}", result.borrow()));
    drop(fut);
    for t in 0..2 {
        if alive[t] {
            tasks[t].destroy();
        }
    }
    if how == "done" {
        hexec::final_check();
    }
    drop(tasks);
    hexec::free_all();
    how
}

// ------------------------------------------------------------------------------- catalogue

macro_rules! scn {
    ($name:expr, [$($p:expr),*], $f:expr) => {
        Scenario { name: $name, props: &[$($p),*], run: $f, expected_panics: &[], leak_check: true, max_bound: None, allow_single_outcome: false }
    };
}

pub fn catalogue() -> Vec<Scenario> {
    let mut v = vec![
        // stream writes
        scn!("W1-u8-await-2", ["C19", "C18"], || w_scn::<u8>(2, WMode::Await)),
        scn!("W1-blob-await-2", ["C19"], || w_scn::<Blob>(2, WMode::Await)),
        scn!("W1-u8-await-0", ["C19"], || w_scn::<u8>(0, WMode::Await)),
        scn!("W2-u8-cancel-drop-2", ["C19", "C18"], || w_scn::<u8>(2, WMode::CancelOrDrop)),
        scn!("W2-blob-cancel-drop-3", ["C19", "C18"], || w_scn::<Blob>(3, WMode::CancelOrDrop)),
        scn!("W4-blob-write_all-3", ["C19"], || w_scn::<Blob>(3, WMode::WriteAll)),
        scn!("W4-u8-write_all-3", ["C19"], || w_scn::<u8>(3, WMode::WriteAll)),
        // stream reads
        scn!("R1-u8-read-cap2-q3", ["C19", "C18"], || r_scn::<u8>(3, RMode::Read(2))),
        scn!("R1-blob-read-cap2-q3", ["C19"], || r_scn::<Blob>(3, RMode::Read(2))),
        scn!("R1-u8-read-cap0", ["C19"], || r_scn::<u8>(1, RMode::Read(0))),
        scn!("R2-blob-cancel-drop-cap2-q2", ["C19", "C18"], || r_scn::<Blob>(2, RMode::CancelOrDrop(2))),
        scn!("R2-u8-cancel-drop-cap1-q2", ["C19", "C18"], || r_scn::<u8>(2, RMode::CancelOrDrop(1))),
        scn!("R3-blob-next-q2", ["C19"], || r_scn::<Blob>(2, RMode::Next)),
        scn!("R4-u8-collect-q3", ["C19"], || r_scn::<u8>(3, RMode::Collect)),
        scn!("R4-blob-collect-q2", ["C19"], || r_scn::<Blob>(2, RMode::Collect)),
        scn!("RS-blob-adapter-q2", ["C19"], || r_scn::<Blob>(2, RMode::Adapter)),
        scn!("X1-blob-write-and-read-concurrently", ["C19", "C18"], x_scn::<Blob>),
        scn!("X1-u8-write-and-read-concurrently", ["C18"], x_scn::<u8>),
        // guest <-> guest
        scn!("G1-blob-one-task", ["C19", "C18"], || g_scn::<Blob>(3, 2, false)),
        scn!("G1-u8-two-tasks", ["C19", "C18"], || g_scn::<u8>(3, 2, true)),
        // futures
        scn!("F1-u8-write-await", ["C20", "C18"], || f_scn(false, FMode::WriteAwait, false)),
        scn!("F1-blob-write-await", ["C20"], || f_scn(true, FMode::WriteAwait, false)),
        scn!("F2-blob-write-cancel-drop", ["C20", "C18"], || f_scn(true, FMode::WriteCancelOrDrop, false)),
        scn!("F2-u8-write-cancel-drop", ["C20"], || f_scn(false, FMode::WriteCancelOrDrop, false)),
        scn!("F3-blob-drop-writer-unwritten", ["C20", "C22"], || f_scn(true, FMode::DropWriterUnwritten, false)),
        scn!("F3-u8-drop-writer-unwritten-cancel", ["C20", "C22"], || f_scn(false, FMode::DropWriterUnwritten, true)),
        scn!("F4-blob-read-await", ["C20"], || f_scn(true, FMode::ReadAwait, false)),
        scn!("F4-blob-read-cancel-drop", ["C20", "C18"], || f_scn(true, FMode::ReadCancelOrDrop, false)),
        scn!("F5-blob-both-in-guest", ["C20", "C18"], || f_scn(true, FMode::BothInGuest, false)),
        // subtasks
        scn!("S1-flat-heapres", ["C21", "C18"], || s_scn(false, ResKind::Heap, false, false)),
        scn!("S1-indirect-flatres", ["C21"], || s_scn(true, ResKind::Flat, false, false)),
        scn!("S2-flat-nores-drop", ["C21", "C18"], || s_scn(false, ResKind::None, true, false)),
        scn!("S2-indirect-heapres-drop", ["C21", "C18"], || s_scn(true, ResKind::Heap, true, false)),
        scn!("S3-two-calls", ["C21", "C18", "C22"], || s_scn(true, ResKind::Flat, true, true)),
        // tasks
        scn!("T1-immediate", ["C22"], || t_scn(TBody::Immediate, false)),
        scn!("T1-yield2", ["C22"], || t_scn(TBody::Yield(2), false)),
        scn!("T1-import", ["C22"], || t_scn(TBody::AwaitImport, false)),
        scn!("T1-stream", ["C22"], || t_scn(TBody::AwaitStreamWrite, false)),
        scn!("T1-spawn2", ["C22"], || t_scn(TBody::Spawn(2), false)),
        scn!("T1-write-and-forget", ["C22", "C20"], || t_scn(TBody::WriteAndForget, false)),
        scn!("T2-yield2-cancel", ["C22"], || t_scn(TBody::Yield(2), true)),
        scn!("T2-import-cancel", ["C22", "C18"], || t_scn(TBody::AwaitImport, true)),
        scn!("T2-stream-cancel", ["C22", "C18"], || t_scn(TBody::AwaitStreamWrite, true)),
        scn!("T2-spawn2-cancel", ["C22"], || t_scn(TBody::Spawn(2), true)),
        scn!("T2-write-and-forget-cancel", ["C22", "C20"], || t_scn(TBody::WriteAndForget, true)),
        scn!("T3-context-probe", ["C22"], || t_scn(TBody::ContextProbe, false)),
        scn!("B1-block_on-immediate", ["C22"], || t_block_on(TBody::Immediate)),
        scn!("B1-block_on-yield", ["C22"], || t_block_on(TBody::Yield(1))),
        scn!("B1-block_on-import", ["C22", "C21"], || t_block_on(TBody::AwaitImport)),
        scn!("B1-block_on-stream", ["C22", "C19"], || t_block_on(TBody::AwaitStreamWrite)),
        // foreign executors (wasip3_task C ABI v1 / v2), one task and moved between two tasks
        scn!("M0-v1-stream-write", ["C18"], || m_scn(1, MOp::StreamWrite, false)),
        scn!("M0-v1-subtask", ["C18"], || m_scn(1, MOp::Subtask, false)),
        scn!("M0-v2-stream-read", ["C18"], || m_scn(2, MOp::StreamRead, false)),
        scn!("M1-v2-stream-write-moved", ["C18"], || m_scn(2, MOp::StreamWrite, true)),
        scn!("M1-v2-future-read-moved", ["C18"], || m_scn(2, MOp::FutureRead, true)),
        scn!("M1-v2-subtask-moved", ["C18"], || m_scn(2, MOp::Subtask, true)),
        // wakeups
        scn!("K1-one-wake", ["C23", "C22"], || k_scn(1, false, false)),
        scn!("K1-two-wakes", ["C23"], || k_scn(2, false, false)),
        scn!("K1-one-wake-cancel", ["C23", "C22"], || k_scn(1, false, true)),
        scn!("K2-wake-with-waitable", ["C23", "C22", "C18"], || k_scn(1, true, false)),
        scn!("K2-two-wakes-with-waitable", ["C23", "C22"], || k_scn(2, true, false)),
        scn!("K2-three-wakes-with-waitable", ["C23"], || k_scn(3, true, false)),
        scn!("K4-destructor-wakes-own-task-on-cancel", ["C22", "C23"], || k4_scn(false)),
        scn!("K4w-destructor-wakes-own-task-on-cancel-with-waitable", ["C22", "C23"], || k4_scn(true)),
        scn!("K3-wake-from-other-task", ["C23", "C22"], || k3_scn(1, false)),
        scn!("K3-wake-from-other-task-cancel", ["C23"], || k3_scn(2, true)),
        scn!("W5-blob-write_one", ["C19"], || {
            let rep: Rc<RefCell<Option<Option<Item>>>> = Rc::new(RefCell::new(None));
            let r2 = rep.clone();
            let si = with(|h| h.streams.len());
            driver::start_task(async move {
                let (mut tx, rx) = unsafe { stream_new(&BLOBS) };
                with(|h| h.give_stream_end_to_host(rx.take_handle(), vec![]));
                drop(rx);
                let back = tx.write_one(Blob::new(0x10, 3)).await;
                *r2.borrow_mut() = Some(back.map(|b| b.0.clone()));
            });
            let how = driver::run(&Opts::default(), &mut vec![]);
            obs(format!("{:?}", rep.borrow()));
            if how == "done" {
                let taken = with(|h| h.streams[si].taken.clone());
                match &*rep.borrow() {
                    Some(None) => check("C19", "write_one:reported-sent-but-not-taken", taken == vec![vec![0x10, 0x11, 0x12]], || format!("write_one reported the value as sent but the host took {taken:?}")),
                    Some(Some(v)) => check("C19", "write_one:handed-back-but-taken", taken.is_empty() && *v == vec![0x10, 0x11, 0x12], || format!("write_one handed back {v:?} while the host took {taken:?}")),
                    None => {}
                }
                blob_ledger_check("C19");
            }
            how
        }),
    ];
    // scenarios that need a runtime feature this build does not have
    if !cfg!(feature = "spawn") {
        v.retain(|s| !s.name.contains("spawn"));
    }
    if !cfg!(feature = "itw") {
        v.retain(|s| !s.name.starts_with('K') || s.name.starts_with("K4w"));
    }
    for s in v.iter_mut() {
        if s.name.starts_with("K4w") && !cfg!(feature = "itw") {
            // by design: once the import is done the task would sleep on a Rust-only event,
            // which the runtime refuses without `inter-task-wakeup`
            s.expected_panics = &["Rust task cannot sleep waiting only on Rust-originating events"];
        }
        if s.name == "T1-immediate" || s.name == "B1-block_on-immediate" {
            s.allow_single_outcome = true;
        }
    }
    v
}
