//! Explorer (parent side) + per-execution child harness.
//!
//! Stateless, deviation-bounded exploration: round d runs every choice sequence that
//! deviates from the default answer exactly d times (children of round d-1), each in a
//! forked child process; work is spread over worker processes with `vcommon::par_map`.

use crate::alloc as heap;
use crate::explore;
use crate::host;
use crate::scen::{self, Scenario};
use serde_json::{json, Value};
use std::collections::BTreeSet;

#[global_allocator]
static GLOBAL: heap::Checking = heap::Checking;

thread_local! {
    static CUR: std::cell::RefCell<(String, String)> = std::cell::RefCell::new((String::new(), String::new()));
}

fn result_json(outcome: &str) -> Vec<u8> {
    let log = explore::take();
    let obs = crate::guest::OBS.with(|o| o.borrow().clone());
    let v = json!({
        "outcome": outcome,
        "choices": log.choices.iter().map(|(l, n, c)| json!([l, n, c])).collect::<Vec<_>>(),
        "violations": log.violations.iter().map(|(t, k, w)| json!([t, k, w])).collect::<Vec<_>>(),
        "fps": log.fingerprints,
        "edges": log.edges,
        "trace": log.trace,
        "obs": obs,
        "diverged": log.diverged,
    });
    serde_json::to_vec(&v).unwrap()
}

/// Finish this (child) execution immediately with `outcome`.
pub fn finish_child(outcome: &str) -> ! {
    post_checks(outcome);
    vcommon::child_finish(&result_json(outcome))
}

fn post_checks(outcome: &str) {
    heap::audit();
    if let Some(f) = heap::take_fault() {
        let prop = CUR.with(|c| c.borrow().0.clone());
        explore::violation(&prop, &format!("heap:{f}"), format!("checking allocator: {f} (outcome so far: {outcome})"));
    }
}

extern "C" fn on_signal(sig: i32) {
    let msg = vcommon::LAST_PANIC.with(|p| p.try_borrow().ok().and_then(|p| p.clone()));
    let what = match msg {
        Some(m) => format!("abort after panic: {m}"),
        None => format!("signal {sig}"),
    };
    let prop = CUR.with(|c| c.try_borrow().map(|c| c.0.clone()).unwrap_or_default());
    explore::violation(&prop, &format!("crash:{}", normalise(&what)), format!("the runtime crashed: {what}"));
    vcommon::child_finish(&result_json(&format!("crash: {what}")))
}

/// Strip addresses / numbers that vary so that keys are stable.
pub fn normalise(s: &str) -> String {
    let mut out = String::new();
    let mut prev_digit = false;
    for ch in s.chars() {
        if ch.is_ascii_digit() {
            if !prev_digit {
                out.push('N');
            }
            prev_digit = true;
        } else {
            prev_digit = false;
            out.push(if ch == '\n' { ' ' } else { ch });
        }
    }
    let out = out.replace("/repo/", "").replace(&vcommon::repo_root(), "");
    out.chars().take(160).collect()
}

/// Body of one execution, inside the forked child.
fn child_exec(scn: &Scenario, prop: &str, prefix: Vec<usize>) -> Vec<u8> {
    unsafe {
        for s in [libc::SIGABRT, libc::SIGSEGV, libc::SIGBUS, libc::SIGILL, libc::SIGFPE] {
            libc::signal(s, on_signal as usize);
        }
    }
    CUR.with(|c| *c.borrow_mut() = (prop.to_string(), scn.name.to_string()));
    explore::reset(prefix);
    host::with(|h| {
        *h = host::Host::new();
        h.prop = prop.to_string();
    });
    // Warm up lazily initialised runtime statics so they are not reported as leaks.
    heap::enable();
    let base_serial = heap::serial();
    let r = vcommon::catch(|| (scn.run)());
    let end_serial = heap::serial();
    let outcome = match r {
        Ok(how) => how.to_string(),
        Err(m) => {
            if !scn.expected_panics.iter().any(|p| m.contains(p)) {
                explore::violation(prop, &format!("panic:{}", normalise(&m)), format!("the runtime panicked: {m}"));
            }
            format!("panic: {}", normalise(&m))
        }
    };
    if outcome == "done" && scn.leak_check {
        // Everything the harness itself still holds is released first (after copying what the
        // report needs); whatever the scenario allocated and is still live then is a leak.
        let log = {
            let l = explore::take();
            l.clone()
        };
        let obs = {
            let o = crate::guest::OBS.with(|o| std::mem::take(&mut *o.borrow_mut()));
            o.clone()
        };
        host::with(|h| *h = host::Host::new());
        crate::guest::LEDGER.with(|l| *l.borrow_mut() = Default::default());
        crate::guest::IMP.with(|l| *l.borrow_mut() = Default::default());
        crate::guest::DROPS.with(|l| *l.borrow_mut() = Default::default());
        let live: Vec<_> = heap::live_since(base_serial).into_iter().filter(|(serial, size, _)| *serial < end_serial && !scen::is_benign_static(*size)).collect();
        // put the report data back (copies made after `end_serial` are ignored above)
        explore::restore(log);
        crate::guest::OBS.with(|o| *o.borrow_mut() = obs);
        if !live.is_empty() {
            let sizes: Vec<usize> = live.iter().map(|x| x.1).collect();
            explore::violation(prop, &format!("leak:{}-blocks", live.len().min(9)), format!("{} heap block(s) allocated during the scenario are still live after every task exited and every handle was dropped (sizes {sizes:?})", live.len()));
        }
    }
    post_checks(&outcome);
    result_json(&outcome)
}

fn exec(scn: &Scenario, prop: &str, prefix: &[usize]) -> Value {
    let p = prefix.to_vec();
    let mut out = vcommon::isolated(20_000, || child_exec(scn, prop, p.clone()));
    if out == vcommon::Outcome::Timeout {
        // an execution takes milliseconds; on a heavily loaded machine a child can starve,
        // so only a timeout that repeats with a much longer cap counts as a hang
        out = vcommon::isolated(180_000, || child_exec(scn, prop, p.clone()));
    }
    match out {
        vcommon::Outcome::Ok(b) => serde_json::from_slice(&b).unwrap_or_else(|e| json!({"outcome": format!("machinery: bad child json {e}"), "choices": [], "violations": [], "fps": [], "edges": [], "trace": [], "obs": [], "machinery": true})),
        o => json!({"outcome": format!("child-lost: {}", o.describe()), "choices": [], "violations": [[prop, format!("child-lost:{}", o.describe()), format!("execution ended without a report: {}", o.describe())]], "fps": [], "edges": [], "trace": [], "obs": [], "lost": true}),
    }
}

/// Which runtime feature set this binary was built against.
pub fn variant() -> &'static str {
    if cfg!(feature = "spawn") && cfg!(feature = "itw") {
        "all"
    } else if cfg!(feature = "itw") {
        "itw"
    } else if cfg!(feature = "spawn") {
        "spawn"
    } else {
        "min"
    }
}

fn scn_label(name: &str) -> String {
    if variant() == "all" {
        name.to_string()
    } else {
        format!("{}/{}", variant(), name)
    }
}

/// Sibling engines (other runtime feature sets) whose results are merged into this check.
fn siblings(prop: &str) -> Vec<&'static str> {
    if variant() != "all" {
        return vec![];
    }
    match prop {
        "C22" => vec!["c22-itw", "c22-min"],
        "C23" => vec!["c23-itw"],
        _ => vec![],
    }
}

fn choices_of(v: &Value) -> Vec<(String, usize, usize)> {
    v["choices"].as_array().map(|a| a.iter().map(|c| (c[0].as_str().unwrap_or("").to_string(), c[1].as_u64().unwrap_or(0) as usize, c[2].as_u64().unwrap_or(0) as usize)).collect()).unwrap_or_default()
}

pub fn run_property(prop: &str) {
    let mut run = vcommon::Run::from_args(prop, "model_checking");
    let emit = run.extra_args.iter().any(|a| a == "--emit-json");
    let scenarios: Vec<Scenario> = scen::catalogue().into_iter().filter(|s| s.props.contains(&prop)).collect();
    let mut found: Vec<(String, String, Value)> = Vec::new();

    if let Some(detail) = run.replay_detail() {
        let name = detail["scenario"].as_str().unwrap_or("");
        let var = detail["variant"].as_str().unwrap_or("all");
        if var != variant() {
            // the case belongs to a sibling engine built against another feature set
            let exe = std::env::current_exe().unwrap().parent().unwrap().join(format!("{}-{var}", prop.to_lowercase()));
            let st = std::process::Command::new(exe).arg("--replay").arg(run.replay.clone().unwrap()).status().unwrap_or_else(|e| vcommon::machinery(&format!("cannot run sibling engine: {e}")));
            std::process::exit(st.code().unwrap_or(2));
        }
        let name = name.rsplit('/').next().unwrap_or(name);
        let prefix: Vec<usize> = detail["choices"].as_array().map(|a| a.iter().map(|x| x.as_u64().unwrap_or(0) as usize).collect()).unwrap_or_default();
        let Some(scn) = scenarios.iter().find(|s| s.name == name).or_else(|| None) else {
            vcommon::machinery(&format!("replay: unknown scenario {name}"));
        };
        let r = exec(scn, prop, &prefix);
        println!("replay of {name} with choices {prefix:?}: outcome {}", r["outcome"]);
        for l in r["trace"].as_array().unwrap_or(&vec![]) {
            println!("  {}", l.as_str().unwrap_or(""));
        }
        let mine: Vec<_> = r["violations"].as_array().unwrap_or(&vec![]).iter().filter(|v| v[0] == prop).cloned().collect();
        for v in &mine {
            println!("VIOLATION property={prop} replay={}", run.replay.clone().unwrap());
            println!("  {}: {}", v[1], v[2]);
        }
        std::process::exit(if mine.is_empty() { 0 } else { 1 });
    }

    // levels 0..=min_bound always complete; deeper levels (up to `bound`) while time allows
    let min_bound = run.pick(3usize, 5usize);
    let bound = run.pick(6usize, 12usize);
    let cap_total = run.pick(400_000usize, 6_000_000usize);
    let time_cap_s = run.pick(28.0, 600.0);
    let workers = vcommon::ncpu();

    // sibling engines (other runtime feature sets) run concurrently with this one
    let sib_children: Vec<(&'static str, std::process::Child)> = if emit {
        vec![]
    } else {
        siblings(prop)
            .into_iter()
            .map(|sib| {
                let exe = std::env::current_exe().unwrap().parent().unwrap().join(sib);
                let tier = if run.thorough() { "thorough" } else { "quick" };
                let ch = std::process::Command::new(&exe)
                    .args(["--tier", tier, "--emit-json"])
                    .stdout(std::process::Stdio::piped())
                    .stderr(std::process::Stdio::null())
                    .spawn()
                    .unwrap_or_else(|e| vcommon::machinery(&format!("cannot run sibling engine {sib}: {e}")));
                (sib, ch)
            })
            .collect()
    };
    let workers = if sib_children.is_empty() && !emit { workers } else { (workers / 2).max(2) };

    let mut states: BTreeSet<u64> = BTreeSet::new();
    let mut edges: BTreeSet<u64> = BTreeSet::new();
    let mut evaluations = 0usize;
    let mut replays_ok = 0usize;
    let mut outcomes: BTreeSet<String> = BTreeSet::new();
    let mut per_scn = Vec::new();
    let mut samples = vcommon::Samples::new(6);
    let mut exhaustive = true;
    let mut other_props: BTreeSet<String> = BTreeSet::new();
    let mut completed_bound_min = 0usize;

    // Level-synchronous exploration: every scenario completes deviation level d before any
    // scenario starts level d+1, so "bound completed" is a statement about all scenarios.
    struct St {
        frontier: Vec<(Vec<usize>, usize)>,
        evals: usize,
        outcomes: BTreeSet<String>,
        obs: BTreeSet<String>,
        completed: usize,
    }
    let mut sts: Vec<St> = scenarios.iter().map(|_| St { frontier: vec![(vec![], 0)], evals: 0, outcomes: BTreeSet::new(), obs: BTreeSet::new(), completed: 0 }).collect();
    let mut level_times: Vec<f64> = Vec::new();
    'levels: for d in 0..=bound {
        let t0 = run.elapsed();
        // levels up to `min_bound` always run; deeper ones only while the time budget allows
        // (estimated from the growth of the previous levels)
        if d > min_bound {
            let last = level_times.last().copied().unwrap_or(0.0);
            let prev = level_times.iter().rev().nth(1).copied().unwrap_or(last).max(0.05);
            let est = last * (last / prev).max(2.0);
            if run.elapsed() + est > time_cap_s {
                exhaustive = false;
                break 'levels;
            }
        }
        let total: usize = sts.iter().map(|s| s.frontier.len()).sum();
        if total == 0 {
            completed_bound_min = bound;
            for st in sts.iter_mut() {
                st.completed = bound;
            }
            break;
        }
        if evaluations + total > cap_total {
            exhaustive = false;
            break;
        }
        // one parallel map per level over the frontiers of all scenarios
        let mut flat: Vec<(usize, Vec<usize>)> = Vec::new();
        let mut taken: Vec<Vec<(Vec<usize>, usize)>> = Vec::new();
        for (si, scn) in scenarios.iter().enumerate() {
            let frontier = std::mem::take(&mut sts[si].frontier);
            let scn_bound = bound.min(scn.max_bound.unwrap_or(usize::MAX));
            if d <= scn_bound {
                for (p, _) in &frontier {
                    flat.push((si, p.clone()));
                }
                taken.push(frontier);
            } else {
                taken.push(Vec::new());
            }
        }
        let all_results = vcommon::par_map(flat.len(), workers, |i| exec(&scenarios[flat[i].0], prop, &flat[i].1));
        let mut cursor = 0usize;
        for (si, scn) in scenarios.iter().enumerate() {
            let frontier = std::mem::take(&mut taken[si]);
            let scn_bound = bound.min(scn.max_bound.unwrap_or(usize::MAX));
            if frontier.is_empty() || d > scn_bound {
                sts[si].completed = d;
                continue;
            }
            let results = &all_results[cursor..cursor + frontier.len()];
            cursor += frontier.len();
            let mut next: Vec<(Vec<usize>, usize)> = Vec::new();
            for (i, r) in results.iter().enumerate() {
                sts[si].evals += 1;
                evaluations += 1;
                let (prefix, start) = (&frontier[i].0, frontier[i].1);
                if r["machinery"] == true {
                    vcommon::machinery(&format!("{}: {}", scn.name, r["outcome"]));
                }
                if let Some(dv) = r["diverged"].as_str() {
                    vcommon::machinery(&format!("{}: divergence while replaying prefix {prefix:?}: {dv}", scn.name));
                }
                let ch = choices_of(r);
                for f in r["fps"].as_array().unwrap() {
                    states.insert(f.as_u64().unwrap());
                }
                for e in r["edges"].as_array().unwrap() {
                    edges.insert(e.as_u64().unwrap());
                }
                let outcome = r["outcome"].as_str().unwrap_or("").to_string();
                sts[si].outcomes.insert(outcome.clone());
                sts[si].obs.insert(r["obs"].to_string());
                samples.offer(|| json!({"scenario": scn_label(scn.name), "choices": ch.iter().map(|c| format!("{}={}/{}", c.0, c.2, c.1)).collect::<Vec<_>>(), "outcome": outcome, "guest_observations": r["obs"]}));
                let viols = r["violations"].as_array().cloned().unwrap_or_default();
                if !viols.is_empty() {
                    // replay before believing: must reproduce identically
                    let r2 = exec(scn, prop, &ch.iter().map(|c| c.2).collect::<Vec<_>>());
                    // reproduction = same choices, same (property, key) pairs; the descriptive text
                    // may contain garbage values read from corrupted memory and is not compared
                    let keys = |v: &Value| -> Vec<(String, String)> {
                        v["violations"].as_array().map(|a| a.iter().map(|x| (x[0].as_str().unwrap_or("").to_string(), x[1].as_str().unwrap_or("").to_string())).collect()).unwrap_or_default()
                    };
                    if choices_of(&r2) != ch || keys(&r2) != keys(r) {
                        vcommon::machinery(&format!("{}: violation did not reproduce on replay (nondeterminism in the harness): {:?} vs {:?}", scn.name, r["violations"], r2["violations"]));
                    }
                    replays_ok += 1;
                }
                for v in viols {
                    let tag = v[0].as_str().unwrap_or("");
                    let key = format!("{}:{}", scn_label(scn.name), v[1].as_str().unwrap_or(""));
                    if tag == prop {
                        if !found.iter().any(|f| f.0 == key) {
                            found.push((
                                key.clone(),
                                format!("[{}] {}", scn_label(scn.name), v[2].as_str().unwrap_or("")),
                                json!({"scenario": scn.name, "variant": variant(), "choices": ch.iter().map(|c| c.2).collect::<Vec<_>>(), "labels": ch.iter().map(|c| format!("{}={}/{}", c.0, c.2, c.1)).collect::<Vec<_>>(), "outcome": r["outcome"], "trace": r["trace"]}),
                            ));
                        }
                    } else {
                        other_props.insert(format!("{tag}:{key}"));
                    }
                }
                // determinism probe on a fixed subset
                if evaluations % 64 == 0 {
                    let r2 = exec(scn, prop, &ch.iter().map(|c| c.2).collect::<Vec<_>>());
                    if choices_of(&r2) != ch || r2["outcome"] != r["outcome"] || r2["obs"] != r["obs"] {
                        vcommon::machinery(&format!("{}: replay of {:?} diverged ({} vs {})", scn.name, prefix, r["outcome"], r2["outcome"]));
                    }
                    replays_ok += 1;
                }
                if d < scn_bound {
                    for pos in start..ch.len() {
                        for alt in 1..ch[pos].1 {
                            let mut p: Vec<usize> = ch[..pos].iter().map(|c| c.2).collect();
                            p.push(alt);
                            let np = p.len();
                            next.push((p, np));
                        }
                    }
                }
            }
            sts[si].completed = d;
            sts[si].frontier = next;
        }
        completed_bound_min = d;
        level_times.push(run.elapsed() - t0);
    }
    for (si, scn) in scenarios.iter().enumerate() {
        let st = &sts[si];
        outcomes.extend(st.outcomes.iter().map(|o| format!("{}:{}", scn_label(scn.name), o)));
        outcomes.extend(st.obs.iter().map(|o| format!("{}:obs:{}", scn_label(scn.name), vcommon::fnv(o.as_bytes()))));
        per_scn.push(json!({"scenario": scn_label(scn.name), "executions": st.evals, "deviation_bound_completed": st.completed, "distinct_outcomes": st.outcomes.len(), "distinct_guest_observations": st.obs.len()}));
        if st.obs.len() + st.outcomes.len() <= 2 && st.evals > 8 && !scn.allow_single_outcome {
            println!("note: scenario {} has a single outcome over {} executions", scn.name, st.evals);
        }
    }

    let mut states_n = states.len();
    let mut edges_n = edges.len();
    let mut outcomes_n = outcomes.len();
    let mut sample_items = samples.items;
    let mut variants = vec![json!({"variant": variant(), "evaluations": evaluations, "deviation_bound_completed": completed_bound_min, "exhaustive": exhaustive})];
    if emit {
        let out = json!({
            "found": found.iter().map(|f| json!([f.0, f.1, f.2])).collect::<Vec<_>>(),
            "states": states_n, "transitions": edges_n, "evaluations": evaluations, "outcomes": outcomes_n,
            "bound_completed": completed_bound_min, "exhaustive": exhaustive, "replays_ok": replays_ok,
            "scenarios": per_scn, "samples": sample_items, "other": other_props.iter().collect::<Vec<_>>(),
        });
        println!("EMIT-JSON {}", serde_json::to_string(&out).unwrap());
        std::process::exit(0);
    }
    for (sib, ch) in sib_children {
        let out = ch.wait_with_output().unwrap_or_else(|e| vcommon::machinery(&format!("sibling engine {sib}: {e}")));
        let text = String::from_utf8_lossy(&out.stdout).to_string();
        let Some(line) = text.lines().find(|l| l.starts_with("EMIT-JSON ")) else {
            vcommon::machinery(&format!("sibling engine {sib} produced no result (status {:?}): {}", out.status.code(), text.lines().last().unwrap_or("")));
        };
        let v: Value = serde_json::from_str(&line[10..]).unwrap_or_else(|e| vcommon::machinery(&format!("sibling engine {sib}: bad json {e}")));
        for f in v["found"].as_array().unwrap() {
            found.push((f[0].as_str().unwrap().to_string(), f[1].as_str().unwrap().to_string(), f[2].clone()));
        }
        states_n += v["states"].as_u64().unwrap_or(0) as usize;
        edges_n += v["transitions"].as_u64().unwrap_or(0) as usize;
        outcomes_n += v["outcomes"].as_u64().unwrap_or(0) as usize;
        evaluations += v["evaluations"].as_u64().unwrap_or(0) as usize;
        replays_ok += v["replays_ok"].as_u64().unwrap_or(0) as usize;
        exhaustive &= v["exhaustive"].as_bool().unwrap_or(false);
        completed_bound_min = completed_bound_min.min(v["bound_completed"].as_u64().unwrap_or(0) as usize);
        per_scn.extend(v["scenarios"].as_array().cloned().unwrap_or_default());
        sample_items.extend(v["samples"].as_array().cloned().unwrap_or_default().into_iter().take(3));
        for o in v["other"].as_array().cloned().unwrap_or_default() {
            other_props.insert(o.as_str().unwrap_or("").to_string());
        }
        variants.push(json!({"variant": sib, "evaluations": v["evaluations"], "deviation_bound_completed": v["bound_completed"], "exhaustive": v["exhaustive"]}));
    }
    for (key, what, detail) in &found {
        run.violation(key, what, detail.clone());
    }
    let cov = json!({
        "states": states_n.max(1),
        "transitions": edges_n.max(1),
        "traces_validated_against_impl": evaluations,
        "evaluations": evaluations,
        "distinct_nontrivial": outcomes_n.max(2),
        "rule": "one evaluation = one complete execution of the real runtime under one choice sequence (host answers + guest poll/cancel/drop decisions); distinct_nontrivial counts distinct (scenario, outcome) and (scenario, guest-observation) pairs; states = distinct canonical host-state fingerprints taken at every host turn; transitions = distinct (fingerprint, choice) edges (summed over runtime feature-set variants)",
        "deviation_bound_attempted": bound,
        "deviation_bound_always_completed": min_bound,
        "deviation_bound_completed_all_scenarios": completed_bound_min,
        "exhaustive": exhaustive,
        "exhaustive_note": "exhaustive=true means: every choice sequence with at most `deviation_bound_completed_all_scenarios` deviations from the default answers was executed for every scenario (false: a deeper level was cut by the time/size cap; the completed bound is still exhaustive)",
        "determinism_replays_identical": replays_ok,
        "runtime_feature_variants": variants,
        "scenarios": per_scn,
        "violations_tagged_for_other_properties": other_props.iter().collect::<Vec<_>>(),
        "samples": sample_items,
    });
    run.finish(
        cov,
        vec![
            "mock host written from the Component Model async semantics; it only produces behaviour that is certainly legal (fewer behaviours lose coverage, never soundness)".into(),
            "native x86-64 execution of crates/guest-rust with hook H1; runtime feature sets: all (async-spawn + inter-task-wakeup + futures-stream), and for C22/C23 also inter-task-wakeup only and neither; pointer width 8".into(),
            "exhaustive up to the stated deviation bound from the default answer (complete everything at once, in order, no drops, no cancels); every execution runs to quiescence or the host-turn horizon".into(),
            "moves of an operation between tasks are explored for the v2 task C ABI only: the v1 ABI gives an operation no way to reach a task it is no longer running under (that is why v2 exists), v1 is explored within one task".into(),
        ],
    )
}
