//! Mock component-model host, async half (DESIGN §3.3, Appendix A).
//!
//! Written from the Component Model async semantics (waitables, waitable sets, stream /
//! future copy states, subtask states, canonical built-ins). Nothing is taken from /repo.
//! The host only *produces* behaviour that is certainly legal; the rules a guest must not
//! break are checked on every call and reported through `explore::violation`.
//!
//! Single-threaded: one global `Host` per (forked) execution.

use crate::alloc as heap;
use crate::explore::{choose, trace, violation};
use std::cell::RefCell;
use std::collections::{BTreeSet, VecDeque};
use std::ffi::c_void;

pub const EVENT_NONE: u32 = 0;
pub const EVENT_SUBTASK: u32 = 1;
pub const EVENT_STREAM_READ: u32 = 2;
pub const EVENT_STREAM_WRITE: u32 = 3;
pub const EVENT_FUTURE_READ: u32 = 4;
pub const EVENT_FUTURE_WRITE: u32 = 5;
pub const EVENT_CANCEL: u32 = 6;

pub const BLOCKED: u32 = 0xffff_ffff;
pub const COMPLETED: u32 = 0;
pub const DROPPED: u32 = 1;
pub const CANCELLED: u32 = 2;

pub const ST_STARTING: u32 = 0;
pub const ST_STARTED: u32 = 1;
pub const ST_RETURNED: u32 = 2;
pub const ST_STARTED_CANCELLED: u32 = 3;
pub const ST_RETURNED_CANCELLED: u32 = 4;

#[derive(Clone, Copy, Debug, PartialEq, Eq)]
pub enum Elem {
    /// canonical `u8`, size 1
    U8,
    /// (ptr, len) of a `list<u8>`: needs lift/lower, owns heap
    Heap,
    /// zero-sized (`stream` with no payload), used by inter-task wakeup
    Unit,
}

impl Elem {
    pub fn size(self) -> usize {
        match self {
            Elem::U8 => 1,
            Elem::Heap => 2 * std::mem::size_of::<usize>(),
            Elem::Unit => 0,
        }
    }
}

pub type Item = Vec<u8>;

#[derive(Clone, Copy, Debug, PartialEq, Eq)]
pub enum Copy_ {
    Idle,
    Copying,
    Done,
}

#[derive(Clone, Copy, Debug, PartialEq, Eq)]
pub enum Side {
    W,
    R,
}

#[derive(Clone, Debug, PartialEq, Eq)]
pub enum Kind {
    StreamEnd { stream: usize, side: Side },
    FutureEnd { fut: usize, side: Side },
    Subtask { sub: usize },
    Set { members: BTreeSet<u32> },
}

#[derive(Clone, Debug)]
pub struct Entry {
    pub kind: Kind,
    /// waitable fields (unused for sets)
    pub set: Option<u32>,
    /// pending event payload (the event code is implied by kind)
    pub pending: Option<u32>,
    pub copy: Copy_,
}

#[derive(Clone, Copy, Debug, PartialEq, Eq)]
pub enum Owner {
    Guest(u32),
    Host,
    Dropped,
}

#[derive(Debug)]
pub struct Stream {
    pub elem: Elem,
    pub w: Owner,
    pub r: Owner,
    /// pending guest write: (ptr, n, progress)
    pub pw: Option<(usize, usize, usize)>,
    /// pending guest read: (ptr, cap, progress)
    pub pr: Option<(usize, usize, usize)>,
    /// host writer: items still to send; drops its end when empty
    pub host_q: VecDeque<Item>,
    /// items a host reader took from the guest writer, in order
    pub taken: Vec<Item>,
    /// items a host writer delivered to the guest reader, in order
    pub given: Vec<Item>,
    /// items copied guest->guest
    pub g2g: Vec<Item>,
}

#[derive(Debug)]
pub struct Fut {
    pub elem: Elem,
    pub w: Owner,
    pub r: Owner,
    pub pw: Option<usize>,
    pub pr: Option<usize>,
    /// value a host writer will write
    pub host_value: Option<Item>,
    /// value the host reader received from the guest writer
    pub taken: Option<Item>,
    pub given: Option<Item>,
    pub g2g: Option<Item>,
    /// number of values that went through (must never exceed 1)
    pub transfers: usize,
}

#[derive(Clone, Copy, Debug, PartialEq, Eq)]
pub enum Phase {
    Starting,
    Started,
    Returned,
    CancelledBeforeStart,
    CancelledAfterStart,
}

#[derive(Debug)]
pub struct Sub {
    pub handle: u32,
    pub phase: Phase,
    /// resolution (returned / cancelled) has been reported to the guest
    pub resolved_delivered: bool,
    pub cancel_requested: bool,
    /// flat core arguments as passed (`(ptr, len, handle)`, or `(record_ptr, 0, 0)` when indirect)
    pub flat: [usize; 3],
    pub results_ptr: usize,
    pub spec: usize,
    /// what the host read as parameters when the callee started: (list bytes, handle)
    pub params_seen: Option<(Item, usize)>,
    pub dropped: bool,
}

#[derive(Clone, Copy, Debug, PartialEq, Eq)]
pub enum TaskStatus {
    Running,
    Yielded,
    Waiting(u32),
    Exited,
}

#[derive(Debug)]
pub struct Task {
    pub ctx: usize,
    pub status: TaskStatus,
    pub cancel_sent: bool,
    pub returns: usize,
    pub cancels: usize,
    pub sets_created: Vec<u32>,
}

#[derive(Clone, Copy, Debug, PartialEq, Eq)]
pub enum ResKind {
    None,
    /// one `u32` written at the results pointer
    Flat,
    /// a `list<u8>` (ptr, len) allocated by the host on the guest heap
    Heap,
}

/// How an async import looks and behaves, registered by scenarios.
/// Parameters are always `(list<u8>, handle)` lowered as the triple `(ptr, len, handle)`,
/// either flat or through the parameter record (`indirect`).
#[derive(Clone, Debug)]
pub struct ImportSpec {
    pub indirect: bool,
    pub result: ResKind,
    pub result_item: Item,
}

pub struct Host {
    pub table: Vec<Option<Entry>>,
    pub streams: Vec<Stream>,
    pub futs: Vec<Fut>,
    pub subs: Vec<Sub>,
    pub tasks: Vec<Task>,
    pub cur_task: Option<usize>,
    pub p3_task: *mut c_void,
    pub imports: Vec<ImportSpec>,
    /// Context slot used when no component task is current (`block_on` at top level).
    pub root_ctx: usize,
    pub prop: String,
    pub allow_partial: bool,
    pub allow_peer_drop: bool,
    /// the scenario itself keeps wakers of a task beyond that task's life (then the task's
    /// shared state, including its waitable set, legitimately outlives the task)
    pub wakers_outlive_tasks: bool,
    /// scenario focus: make BLOCKED / STARTING the default (first) answer of the host so that
    /// cancel / drop paths need fewer deviations
    pub prefer_blocked: bool,
}

thread_local! {
    pub static HOST: RefCell<Host> = RefCell::new(Host::new());
}

pub fn with<R>(f: impl FnOnce(&mut Host) -> R) -> R {
    HOST.with(|h| f(&mut h.borrow_mut()))
}

/// Raised (as a panic payload) to stop an execution that cannot continue.
pub struct Abort(pub String);

pub fn abort(why: &str) -> ! {
    trace(format!("ABORT: {why}"));
    // Host entry points are `extern "C"`: unwinding out of them would abort the process,
    // so an execution that cannot continue is finished right here.
    crate::engine::finish_child(&format!("abort: {why}"))
}

fn pack(code: u32, n: usize) -> u32 {
    code | ((n as u32) << 4)
}

impl Host {
    pub fn new() -> Host {
        Host {
            table: vec![None],
            streams: vec![],
            futs: vec![],
            subs: vec![],
            tasks: vec![],
            cur_task: None,
            p3_task: std::ptr::null_mut(),
            imports: vec![],
            root_ctx: 0,
            prop: String::new(),
            allow_partial: true,
            allow_peer_drop: true,
            wakers_outlive_tasks: false,
            prefer_blocked: false,
        }
    }

    fn alloc_index(&mut self, e: Entry) -> u32 {
        // lowest free index: indices are reused after a drop (stale registrations collide)
        for i in 1..self.table.len() {
            if self.table[i].is_none() {
                self.table[i] = Some(e);
                return i as u32;
            }
        }
        self.table.push(Some(e));
        (self.table.len() - 1) as u32
    }

    fn waitable(kind: Kind) -> Entry {
        Entry { kind, set: None, pending: None, copy: Copy_::Idle }
    }

    pub fn entry(&mut self, h: u32) -> Option<&mut Entry> {
        self.table.get_mut(h as usize).and_then(|e| e.as_mut())
    }

    fn leave_set(&mut self, h: u32) {
        let Some(e) = self.entry(h) else { return };
        if let Some(s) = e.set.take() {
            if let Some(Entry { kind: Kind::Set { members }, .. }) = self.entry(s) {
                members.remove(&h);
            }
        }
    }

    pub fn in_set(&mut self, h: u32) -> Option<u32> {
        self.entry(h).and_then(|e| e.set)
    }

    /// Tag for rules about a stream/future end: unit streams belong to inter-task wakeup.
    fn tag_for(&self, h: u32, default: &str) -> String {
        if let Some(Some(Entry { kind: Kind::StreamEnd { stream, .. }, .. })) = self.table.get(h as usize) {
            if self.streams[*stream].elem == Elem::Unit {
                return "C23".into();
            }
        }
        default.to_string()
    }

    // ---------------------------------------------------------------- memory access

    /// Host reads `n` elements at `ptr` (guest -> host copy).
    fn read_items(&self, elem: Elem, ptr: usize, n: usize, owner_tag: &str, what: &str) -> Vec<Item> {
        let mut out = Vec::new();
        if elem == Elem::Unit {
            return vec![vec![]; n];
        }
        if n > 0 && !heap::is_live(ptr as *const u8, n * elem.size()) {
            violation(
                owner_tag,
                &format!("host-read-dead-buffer:{what}"),
                format!("host copies {n} element(s) out of a guest buffer that is not a live allocation ({what})"),
            );
            return vec![vec![0xEE]; n];
        }
        for i in 0..n {
            let p = ptr + i * elem.size();
            match elem {
                Elem::U8 => out.push(vec![unsafe { *(p as *const u8) }]),
                Elem::Heap => {
                    let lp = unsafe { *(p as *const usize) };
                    let ll = unsafe { *((p + std::mem::size_of::<usize>()) as *const usize) };
                    if ll > (1 << 20) || (ll > 0 && !heap::is_live(lp as *const u8, ll)) {
                        violation(
                            owner_tag,
                            &format!("host-read-dead-list:{what}"),
                            format!("lowered element {i} points to a list (len {ll}) that is not a live allocation ({what})"),
                        );
                        out.push(vec![0xEE]);
                    } else {
                        out.push(unsafe { std::slice::from_raw_parts(lp as *const u8, ll) }.to_vec());
                    }
                }
                Elem::Unit => unreachable!(),
            }
        }
        out
    }

    /// Host writes items into the guest read buffer (host -> guest copy).
    fn write_items(&self, elem: Elem, ptr: usize, items: &[Item], owner_tag: &str, what: &str) {
        if elem == Elem::Unit || items.is_empty() {
            return;
        }
        if !heap::is_live(ptr as *const u8, items.len() * elem.size()) {
            violation(
                owner_tag,
                &format!("host-write-dead-buffer:{what}"),
                format!("host copies {} element(s) into a guest buffer that is not a live allocation ({what})", items.len()),
            );
            return;
        }
        for (i, it) in items.iter().enumerate() {
            let p = ptr + i * elem.size();
            match elem {
                Elem::U8 => unsafe { *(p as *mut u8) = it[0] },
                Elem::Heap => unsafe {
                    // what `cabi_realloc` + copy does on behalf of the host
                    let lp = if it.is_empty() {
                        1usize
                    } else {
                        let l = std::alloc::Layout::from_size_align(it.len(), 1).unwrap();
                        let b = std::alloc::alloc(l);
                        std::ptr::copy_nonoverlapping(it.as_ptr(), b, it.len());
                        b as usize
                    };
                    *(p as *mut usize) = lp;
                    *((p + std::mem::size_of::<usize>()) as *mut usize) = it.len();
                },
                Elem::Unit => {}
            }
        }
    }

    // ---------------------------------------------------------------- streams

    pub fn stream_new(&mut self, elem: Elem) -> u64 {
        let si = self.streams.len();
        self.streams.push(Stream {
            elem,
            w: Owner::Dropped,
            r: Owner::Dropped,
            pw: None,
            pr: None,
            host_q: VecDeque::new(),
            taken: vec![],
            given: vec![],
            g2g: vec![],
        });
        // readable end first, as `stream.new` does
        let r = self.alloc_index(Self::waitable(Kind::StreamEnd { stream: si, side: Side::R }));
        let w = self.alloc_index(Self::waitable(Kind::StreamEnd { stream: si, side: Side::W }));
        self.streams[si].w = Owner::Guest(w);
        self.streams[si].r = Owner::Guest(r);
        trace(format!("stream.new({elem:?}) = [w{w}, r{r}]"));
        ((w as u64) << 32) | r as u64
    }

    fn stream_of(&mut self, h: u32, side: Side, op: &str, tag: &str) -> Option<usize> {
        match self.entry(h) {
            Some(Entry { kind: Kind::StreamEnd { stream, side: s }, .. }) if *s == side => Some(*stream),
            _ => {
                violation(tag, &format!("{op}:bad-handle"), format!("{op}({h}): not a live {side:?} stream end"));
                None
            }
        }
    }

    pub fn stream_write(&mut self, h: u32, ptr: usize, n: usize) -> u32 {
        let tag = self.tag_for(h, "C19");
        let Some(si) = self.stream_of(h, Side::W, "stream.write", &tag) else { return pack(DROPPED, 0) };
        let copy = self.entry(h).unwrap().copy;
        if copy != Copy_::Idle {
            violation(&tag, &format!("stream.write:end-{copy:?}"), format!("stream.write({h}) on an end that is {copy:?} (must be idle; after a DROPPED result the end is done)"));
            return pack(DROPPED, 0);
        }
        let elem = self.streams[si].elem;
        let rc = match self.streams[si].r {
            Owner::Dropped => {
                self.entry(h).unwrap().copy = Copy_::Done;
                pack(DROPPED, 0)
            }
            Owner::Guest(rh) => {
                if let Some((rptr, cap, _)) = self.streams[si].pr {
                    if cap == 0 || n == 0 {
                        // zero-length rendezvous: keep it simple and block the writer
                        self.streams[si].pw = Some((ptr, n, 0));
                        self.entry(h).unwrap().copy = Copy_::Copying;
                        BLOCKED
                    } else {
                        let k = n.min(cap);
                        let items = self.read_items(elem, ptr, k, &tag, "guest->guest stream write");
                        self.write_items(elem, rptr, &items, &tag, "guest->guest stream write");
                        self.streams[si].g2g.extend(items);
                        self.streams[si].pr = None;
                        if let Some(e) = self.entry(rh) {
                            e.pending = Some(pack(COMPLETED, k));
                        }
                        pack(COMPLETED, k)
                    }
                } else {
                    self.streams[si].pw = Some((ptr, n, 0));
                    self.entry(h).unwrap().copy = Copy_::Copying;
                    BLOCKED
                }
            }
            Owner::Host => {
                let mut opts: Vec<u32> = Vec::new();
                opts.push(pack(COMPLETED, n));
                opts.push(BLOCKED);
                if n > 1 && self.allow_partial {
                    opts.push(pack(COMPLETED, 1));
                }
                if self.allow_peer_drop {
                    opts.push(pack(DROPPED, 0));
                }
                if self.prefer_blocked {
                    if let Some(i) = opts.iter().position(|o| *o == BLOCKED) {
                        opts.swap(0, i);
                    }
                }
                let c = opts[choose("stream.write", opts.len())];
                if c == BLOCKED {
                    self.streams[si].pw = Some((ptr, n, 0));
                    self.entry(h).unwrap().copy = Copy_::Copying;
                } else if c & 0xf == DROPPED {
                    self.streams[si].r = Owner::Dropped;
                    self.entry(h).unwrap().copy = Copy_::Done;
                } else {
                    let k = (c >> 4) as usize;
                    let items = self.read_items(elem, ptr, k, &tag, "stream.write to host reader");
                    self.streams[si].taken.extend(items);
                }
                c
            }
        };
        trace(format!("stream.write(w{h}, n={n}) = {}", show_rc(rc)));
        rc
    }

    pub fn stream_read(&mut self, h: u32, ptr: usize, cap: usize) -> u32 {
        let tag = self.tag_for(h, "C19");
        let Some(si) = self.stream_of(h, Side::R, "stream.read", &tag) else { return pack(DROPPED, 0) };
        let copy = self.entry(h).unwrap().copy;
        if copy != Copy_::Idle {
            violation(&tag, &format!("stream.read:end-{copy:?}"), format!("stream.read({h}) on an end that is {copy:?} (must be idle; after a DROPPED result the end is done)"));
            return pack(DROPPED, 0);
        }
        let elem = self.streams[si].elem;
        let rc = match self.streams[si].w {
            Owner::Dropped => {
                self.entry(h).unwrap().copy = Copy_::Done;
                pack(DROPPED, 0)
            }
            Owner::Guest(wh) => {
                if let Some((wptr, n, prog)) = self.streams[si].pw {
                    let left = n - prog;
                    if cap == 0 || left == 0 {
                        self.streams[si].pr = Some((ptr, cap, 0));
                        self.entry(h).unwrap().copy = Copy_::Copying;
                        BLOCKED
                    } else {
                        let k = left.min(cap);
                        let items = self.read_items(elem, wptr + prog * elem.size(), k, &tag, "guest->guest stream read");
                        self.write_items(elem, ptr, &items, &tag, "guest->guest stream read");
                        self.streams[si].g2g.extend(items);
                        self.streams[si].pw = None;
                        if let Some(e) = self.entry(wh) {
                            e.pending = Some(pack(COMPLETED, prog + k));
                        }
                        pack(COMPLETED, k)
                    }
                } else {
                    self.streams[si].pr = Some((ptr, cap, 0));
                    self.entry(h).unwrap().copy = Copy_::Copying;
                    BLOCKED
                }
            }
            Owner::Host => {
                let q = self.streams[si].host_q.len();
                let mut opts: Vec<u32> = Vec::new();
                if q == 0 {
                    // the host writer has nothing more to say: it hangs up (now or later)
                    opts.push(pack(DROPPED, 0));
                    opts.push(BLOCKED);
                } else if cap == 0 {
                    opts.push(pack(COMPLETED, 0));
                    opts.push(BLOCKED);
                } else {
                    let m = q.min(cap);
                    opts.push(pack(COMPLETED, m));
                    opts.push(BLOCKED);
                    if m > 1 && self.allow_partial {
                        opts.push(pack(COMPLETED, 1));
                    }
                }
                if self.prefer_blocked {
                    if let Some(i) = opts.iter().position(|o| *o == BLOCKED) {
                        opts.swap(0, i);
                    }
                }
                let c = opts[choose("stream.read", opts.len())];
                if c == BLOCKED {
                    self.streams[si].pr = Some((ptr, cap, 0));
                    self.entry(h).unwrap().copy = Copy_::Copying;
                } else if c & 0xf == DROPPED {
                    self.streams[si].w = Owner::Dropped;
                    self.entry(h).unwrap().copy = Copy_::Done;
                } else {
                    let k = (c >> 4) as usize;
                    let items: Vec<Item> = self.streams[si].host_q.drain(..k).collect();
                    self.write_items(elem, ptr, &items, &tag, "stream.read from host writer");
                    self.streams[si].given.extend(items);
                }
                c
            }
        };
        trace(format!("stream.read(r{h}, cap={cap}) = {}", show_rc(rc)));
        rc
    }

    /// `stream.cancel-{read,write}` (synchronous form, as the runtime uses it).
    pub fn stream_cancel(&mut self, h: u32, side: Side) -> u32 {
        let tag = self.tag_for(h, "C18");
        let op = if side == Side::W { "stream.cancel-write" } else { "stream.cancel-read" };
        let Some(si) = self.stream_of(h, side, op, &tag) else { return pack(CANCELLED, 0) };
        self.rule_not_in_set(h, op, &tag);
        let e = self.entry(h).unwrap();
        if e.copy != Copy_::Copying {
            let c = e.copy;
            violation(&tag, &format!("{op}:not-copying"), format!("{op}({h}) while no copy is in progress (end is {c:?})"));
            return pack(CANCELLED, 0);
        }
        let rc = if let Some(p) = e.pending.take() {
            p
        } else {
            let elem = self.streams[si].elem;
            match side {
                Side::W => {
                    let (ptr, n, prog) = self.streams[si].pw.take().expect("copying write has a pending buffer");
                    match self.streams[si].r {
                        Owner::Host => {
                            let mut opts = vec![pack(CANCELLED, prog)];
                            if n - prog >= 1 {
                                opts.push(pack(CANCELLED, prog + 1));
                                opts.push(pack(COMPLETED, n));
                            }
                            if self.allow_peer_drop {
                                opts.push(pack(DROPPED, prog));
                            }
                            let c = opts[choose("cancel-write", opts.len())];
                            let k = (c >> 4) as usize - prog;
                            let items = self.read_items(elem, ptr + prog * elem.size(), k, &tag, "cancel-write race");
                            self.streams[si].taken.extend(items);
                            if c & 0xf == DROPPED {
                                self.streams[si].r = Owner::Dropped;
                            }
                            c
                        }
                        _ => pack(CANCELLED, prog),
                    }
                }
                Side::R => {
                    let (ptr, cap, prog) = self.streams[si].pr.take().expect("copying read has a pending buffer");
                    match self.streams[si].w {
                        Owner::Host => {
                            let q = self.streams[si].host_q.len();
                            let mut opts = vec![pack(CANCELLED, prog)];
                            let room = cap - prog;
                            if room >= 1 && q >= 1 {
                                opts.push(pack(CANCELLED, prog + 1));
                                opts.push(pack(COMPLETED, prog + room.min(q)));
                            }
                            if q == 0 && self.allow_peer_drop {
                                opts.push(pack(DROPPED, prog));
                            }
                            let c = opts[choose("cancel-read", opts.len())];
                            let k = (c >> 4) as usize - prog;
                            let items: Vec<Item> = self.streams[si].host_q.drain(..k).collect();
                            self.write_items(elem, ptr + prog * elem.size(), &items, &tag, "cancel-read race");
                            self.streams[si].given.extend(items);
                            if c & 0xf == DROPPED {
                                self.streams[si].w = Owner::Dropped;
                            }
                            c
                        }
                        _ => pack(CANCELLED, prog),
                    }
                }
            }
        };
        // whatever was pending is now resolved
        match side {
            Side::W => self.streams[si].pw = None,
            Side::R => self.streams[si].pr = None,
        }
        self.entry(h).unwrap().copy = if rc & 0xf == DROPPED { Copy_::Done } else { Copy_::Idle };
        trace(format!("{op}({h}) = {}", show_rc(rc)));
        rc
    }

    pub fn stream_drop(&mut self, h: u32, side: Side) {
        let tag = self.tag_for(h, "C18");
        let op = if side == Side::W { "stream.drop-writable" } else { "stream.drop-readable" };
        let Some(si) = self.stream_of(h, side, op, &tag) else { return };
        self.rule_not_in_set(h, op, &tag);
        let e = self.entry(h).unwrap();
        if e.copy == Copy_::Copying {
            violation(&tag, &format!("{op}:while-copying"), format!("{op}({h}) while a copy is still in progress"));
        }
        if e.pending.is_some() {
            // an undelivered event is discarded with the end; the runtime is supposed to have
            // consumed or cancelled it first (a copy in progress is covered above)
        }
        self.leave_set(h);
        self.table[h as usize] = None;
        trace(format!("{op}({h})"));
        match side {
            Side::W => {
                self.streams[si].w = Owner::Dropped;
                self.streams[si].pw = None;
                if let Owner::Guest(rh) = self.streams[si].r {
                    if let Some((_, _, prog)) = self.streams[si].pr.take() {
                        if let Some(e) = self.entry(rh) {
                            e.pending = Some(pack(DROPPED, prog));
                        }
                    }
                }
            }
            Side::R => {
                self.streams[si].r = Owner::Dropped;
                self.streams[si].pr = None;
                if let Owner::Guest(wh) = self.streams[si].w {
                    if let Some((_, _, prog)) = self.streams[si].pw.take() {
                        if let Some(e) = self.entry(wh) {
                            e.pending = Some(pack(DROPPED, prog));
                        }
                    }
                }
            }
        }
    }

    fn rule_not_in_set(&mut self, h: u32, op: &str, tag: &str) {
        if let Some(s) = self.in_set(h) {
            violation(tag, &format!("{op}:still-in-set"), format!("{op}({h}) while the waitable is still a member of waitable set {s}"));
        }
    }

    /// Scenario helper: the guest hands one end of a stream to the host (as if passed to an
    /// import or returned from an export).
    pub fn give_stream_end_to_host(&mut self, h: u32, items_to_send: Vec<Item>) {
        let Some(Entry { kind: Kind::StreamEnd { stream, side }, copy, set, .. }) = self.entry(h).cloned() else {
            crate::explore::violation("HARNESS", "give-bad-handle", format!("scenario gave bad handle {h}"));
            return;
        };
        assert!(copy == Copy_::Idle && set.is_none(), "scenario bug: transferred a busy end");
        self.table[h as usize] = None;
        match side {
            Side::W => {
                self.streams[stream].w = Owner::Host;
                self.streams[stream].host_q = items_to_send.into();
            }
            Side::R => self.streams[stream].r = Owner::Host,
        }
        trace(format!("(end {h} of stream {stream} transferred to host)"));
    }

    // ---------------------------------------------------------------- futures

    pub fn future_new(&mut self, elem: Elem) -> u64 {
        let fi = self.futs.len();
        self.futs.push(Fut {
            elem,
            w: Owner::Dropped,
            r: Owner::Dropped,
            pw: None,
            pr: None,
            host_value: None,
            taken: None,
            given: None,
            g2g: None,
            transfers: 0,
        });
        let r = self.alloc_index(Self::waitable(Kind::FutureEnd { fut: fi, side: Side::R }));
        let w = self.alloc_index(Self::waitable(Kind::FutureEnd { fut: fi, side: Side::W }));
        self.futs[fi].w = Owner::Guest(w);
        self.futs[fi].r = Owner::Guest(r);
        trace(format!("future.new({elem:?}) = [w{w}, r{r}]"));
        ((w as u64) << 32) | r as u64
    }

    fn future_of(&mut self, h: u32, side: Side, op: &str) -> Option<usize> {
        match self.entry(h) {
            Some(Entry { kind: Kind::FutureEnd { fut, side: s }, .. }) if *s == side => Some(*fut),
            _ => {
                violation("C20", &format!("{op}:bad-handle"), format!("{op}({h}): not a live {side:?} future end"));
                None
            }
        }
    }

    pub fn future_write(&mut self, h: u32, ptr: usize) -> u32 {
        let Some(fi) = self.future_of(h, Side::W, "future.write") else { return DROPPED };
        let copy = self.entry(h).unwrap().copy;
        if copy != Copy_::Idle {
            violation("C20", &format!("future.write:end-{copy:?}"), format!("future.write({h}) on an end that is {copy:?}"));
            return DROPPED;
        }
        let elem = self.futs[fi].elem;
        let rc = match self.futs[fi].r {
            Owner::Dropped => {
                self.entry(h).unwrap().copy = Copy_::Done;
                DROPPED
            }
            Owner::Guest(rh) => {
                if let Some(rptr) = self.futs[fi].pr.take() {
                    let items = self.read_items(elem, ptr, 1, "C20", "guest->guest future write");
                    self.write_items(elem, rptr, &items, "C20", "guest->guest future write");
                    self.futs[fi].g2g = Some(items[0].clone());
                    self.futs[fi].transfers += 1;
                    if let Some(e) = self.entry(rh) {
                        e.pending = Some(COMPLETED);
                    }
                    self.entry(h).unwrap().copy = Copy_::Done;
                    COMPLETED
                } else {
                    self.futs[fi].pw = Some(ptr);
                    self.entry(h).unwrap().copy = Copy_::Copying;
                    BLOCKED
                }
            }
            Owner::Host => {
                let mut opts = vec![COMPLETED, BLOCKED];
                if self.allow_peer_drop {
                    opts.push(DROPPED);
                }
                if self.prefer_blocked {
                    if let Some(i) = opts.iter().position(|o| *o == BLOCKED) {
                        opts.swap(0, i);
                    }
                }
                let c = opts[choose("future.write", opts.len())];
                match c {
                    BLOCKED => {
                        self.futs[fi].pw = Some(ptr);
                        self.entry(h).unwrap().copy = Copy_::Copying;
                    }
                    DROPPED => {
                        self.futs[fi].r = Owner::Dropped;
                        self.entry(h).unwrap().copy = Copy_::Done;
                    }
                    _ => {
                        let items = self.read_items(elem, ptr, 1, "C20", "future.write to host reader");
                        self.futs[fi].taken = Some(items[0].clone());
                        self.futs[fi].transfers += 1;
                        self.entry(h).unwrap().copy = Copy_::Done;
                    }
                }
                c
            }
        };
        trace(format!("future.write(w{h}) = {}", show_rc(rc)));
        rc
    }

    pub fn future_read(&mut self, h: u32, ptr: usize) -> u32 {
        let Some(fi) = self.future_of(h, Side::R, "future.read") else { return BLOCKED };
        let copy = self.entry(h).unwrap().copy;
        if copy != Copy_::Idle {
            violation("C20", &format!("future.read:end-{copy:?}"), format!("future.read({h}) on an end that is {copy:?}"));
            return BLOCKED;
        }
        let elem = self.futs[fi].elem;
        let rc = match self.futs[fi].w {
            Owner::Dropped => {
                // A writable end can only be dropped after it wrote (or saw the reader go);
                // a reader that is still here with no value is a harness/host inconsistency.
                self.futs[fi].pr = Some(ptr);
                self.entry(h).unwrap().copy = Copy_::Copying;
                BLOCKED
            }
            Owner::Guest(wh) => {
                if let Some(wptr) = self.futs[fi].pw.take() {
                    let items = self.read_items(elem, wptr, 1, "C20", "guest->guest future read");
                    self.write_items(elem, ptr, &items, "C20", "guest->guest future read");
                    self.futs[fi].g2g = Some(items[0].clone());
                    self.futs[fi].transfers += 1;
                    if let Some(e) = self.entry(wh) {
                        e.pending = Some(COMPLETED);
                    }
                    self.entry(h).unwrap().copy = Copy_::Done;
                    COMPLETED
                } else {
                    self.futs[fi].pr = Some(ptr);
                    self.entry(h).unwrap().copy = Copy_::Copying;
                    BLOCKED
                }
            }
            Owner::Host => {
                let mut opts = if self.futs[fi].host_value.is_some() { vec![COMPLETED, BLOCKED] } else { vec![BLOCKED] };
                if self.prefer_blocked {
                    if let Some(i) = opts.iter().position(|o| *o == BLOCKED) {
                        opts.swap(0, i);
                    }
                }
                let c = opts[choose("future.read", opts.len())];
                if c == BLOCKED {
                    self.futs[fi].pr = Some(ptr);
                    self.entry(h).unwrap().copy = Copy_::Copying;
                } else {
                    let v = self.futs[fi].host_value.take().unwrap();
                    self.write_items(elem, ptr, &[v.clone()], "C20", "future.read from host writer");
                    self.futs[fi].given = Some(v);
                    self.futs[fi].transfers += 1;
                    self.entry(h).unwrap().copy = Copy_::Done;
                }
                c
            }
        };
        trace(format!("future.read(r{h}) = {}", show_rc(rc)));
        rc
    }

    pub fn future_cancel(&mut self, h: u32, side: Side) -> u32 {
        let op = if side == Side::W { "future.cancel-write" } else { "future.cancel-read" };
        let Some(fi) = self.future_of(h, side, op) else { return CANCELLED };
        self.rule_not_in_set(h, op, "C18");
        let elem = self.futs[fi].elem;
        let e = self.entry(h).unwrap();
        if e.copy != Copy_::Copying {
            let c = e.copy;
            violation("C18", &format!("{op}:not-copying"), format!("{op}({h}) while no copy is in progress (end is {c:?})"));
            return CANCELLED;
        }
        let rc = if let Some(p) = e.pending.take() {
            p
        } else {
            match side {
                Side::W => {
                    let ptr = self.futs[fi].pw.take().expect("pending write");
                    match self.futs[fi].r {
                        Owner::Host => {
                            let mut opts = vec![CANCELLED, COMPLETED];
                            if self.allow_peer_drop {
                                opts.push(DROPPED);
                            }
                            let c = opts[choose("future.cancel-write", opts.len())];
                            if c == COMPLETED {
                                let items = self.read_items(elem, ptr, 1, "C20", "future cancel-write race");
                                self.futs[fi].taken = Some(items[0].clone());
                                self.futs[fi].transfers += 1;
                            }
                            if c == DROPPED {
                                self.futs[fi].r = Owner::Dropped;
                            }
                            c
                        }
                        _ => CANCELLED,
                    }
                }
                Side::R => {
                    let ptr = self.futs[fi].pr.take().expect("pending read");
                    match self.futs[fi].w {
                        Owner::Host if self.futs[fi].host_value.is_some() => {
                            let opts = [CANCELLED, COMPLETED];
                            let c = opts[choose("future.cancel-read", 2)];
                            if c == COMPLETED {
                                let v = self.futs[fi].host_value.take().unwrap();
                                self.write_items(elem, ptr, &[v.clone()], "C20", "future cancel-read race");
                                self.futs[fi].given = Some(v);
                                self.futs[fi].transfers += 1;
                            }
                            c
                        }
                        _ => CANCELLED,
                    }
                }
            }
        };
        match side {
            Side::W => self.futs[fi].pw = None,
            Side::R => self.futs[fi].pr = None,
        }
        self.entry(h).unwrap().copy = if rc == CANCELLED { Copy_::Idle } else { Copy_::Done };
        trace(format!("{op}({h}) = {}", show_rc(rc)));
        rc
    }

    pub fn future_drop(&mut self, h: u32, side: Side) {
        let op = if side == Side::W { "future.drop-writable" } else { "future.drop-readable" };
        let Some(fi) = self.future_of(h, side, op) else { return };
        self.rule_not_in_set(h, op, "C18");
        let e = self.entry(h).unwrap();
        let copy = e.copy;
        if copy == Copy_::Copying {
            violation("C18", &format!("{op}:while-copying"), format!("{op}({h}) while a copy is still in progress"));
        }
        if side == Side::W && copy != Copy_::Done {
            violation(
                "C20",
                "future.drop-writable:before-done",
                format!("future.drop-writable({h}) before the writable end delivered a value or observed that the reader is gone (end is {copy:?})"),
            );
        }
        self.leave_set(h);
        self.table[h as usize] = None;
        trace(format!("{op}({h})"));
        match side {
            Side::W => self.futs[fi].w = Owner::Dropped,
            Side::R => {
                self.futs[fi].r = Owner::Dropped;
                self.futs[fi].pr = None;
                if let Owner::Guest(wh) = self.futs[fi].w {
                    if self.futs[fi].pw.take().is_some() {
                        if let Some(e) = self.entry(wh) {
                            e.pending = Some(DROPPED);
                        }
                    }
                }
            }
        }
    }

    pub fn give_future_end_to_host(&mut self, h: u32, value_to_send: Option<Item>) {
        let Some(Entry { kind: Kind::FutureEnd { fut, side }, copy, set, .. }) = self.entry(h).cloned() else {
            crate::explore::violation("HARNESS", "give-bad-handle", format!("scenario gave bad handle {h}"));
            return;
        };
        assert!(copy == Copy_::Idle && set.is_none(), "scenario bug: transferred a busy end");
        self.table[h as usize] = None;
        match side {
            Side::W => {
                self.futs[fut].w = Owner::Host;
                self.futs[fut].host_value = value_to_send;
            }
            Side::R => self.futs[fut].r = Owner::Host,
        }
        trace(format!("(end {h} of future {fut} transferred to host)"));
    }

    // ---------------------------------------------------------------- subtasks

    /// Read the lowered parameters of an import call (happens when the callee starts).
    fn read_params(&self, spec: usize, flat: [usize; 3]) -> (Item, usize) {
        let w = std::mem::size_of::<usize>();
        let triple = if self.imports[spec].indirect {
            if !heap::is_live(flat[0] as *const u8, 3 * w) {
                violation("C21", "params-record-dead-at-start", "the parameter record of an async import call is no longer a live allocation when the callee starts");
                return (vec![0xEE], 0);
            }
            unsafe { [*(flat[0] as *const usize), *((flat[0] + w) as *const usize), *((flat[0] + 2 * w) as *const usize)] }
        } else {
            flat
        };
        let (lp, ll, hd) = (triple[0], triple[1], triple[2]);
        if ll > (1 << 20) || (ll > 0 && !heap::is_live(lp as *const u8, ll)) {
            violation("C21", "params-list-dead-at-start", "a list among the lowered parameters of an async import call was freed before the callee started");
            return (vec![0xEE], hd);
        }
        (unsafe { std::slice::from_raw_parts(lp as *const u8, ll) }.to_vec(), hd)
    }

    fn write_results(&self, spec: usize, rp: usize) {
        let sp = &self.imports[spec];
        match sp.result {
            ResKind::None => {}
            ResKind::Flat => {
                if !heap::is_live(rp as *const u8, 4) {
                    violation("C21", "results-area-dead-at-return", "the results area of an async import call is not a live allocation when the callee returns");
                    return;
                }
                unsafe { *(rp as *mut u32) = sp.result_item[0] as u32 }
            }
            ResKind::Heap => {
                if !heap::is_live(rp as *const u8, 2 * std::mem::size_of::<usize>()) {
                    violation("C21", "results-area-dead-at-return", "the results area of an async import call is not a live allocation when the callee returns");
                    return;
                }
                self.write_items(Elem::Heap, rp, &[sp.result_item.clone()], "C21", "import results");
            }
        }
    }

    pub fn import_call(&mut self, spec: usize, flat: [usize; 3], results_ptr: usize) -> u32 {
        let opts = if self.prefer_blocked { [ST_STARTING, ST_STARTED, ST_RETURNED] } else { [ST_RETURNED, ST_STARTED, ST_STARTING] };
        let c = opts[choose("import-call", 3)];
        if c == ST_RETURNED {
            let p = self.read_params(spec, flat);
            trace(format!("<import {spec}> = RETURNED (params {p:?})"));
            self.write_results(spec, results_ptr);
            self.subs.push(Sub {
                handle: 0,
                phase: Phase::Returned,
                resolved_delivered: true,
                cancel_requested: false,
                flat,
                results_ptr,
                spec,
                params_seen: Some(p),
                dropped: true,
            });
            return ST_RETURNED;
        }
        let si = self.subs.len();
        let h = self.alloc_index(Self::waitable(Kind::Subtask { sub: si }));
        let mut sub = Sub {
            handle: h,
            phase: Phase::Starting,
            resolved_delivered: false,
            cancel_requested: false,
            flat,
            results_ptr,
            spec,
            params_seen: None,
            dropped: false,
        };
        if c == ST_STARTED {
            sub.params_seen = Some(self.read_params(spec, flat));
            sub.phase = Phase::Started;
        }
        self.subs.push(sub);
        trace(format!("<import {spec}> = {} handle {h}", if c == ST_STARTED { "STARTED" } else { "STARTING" }));
        c | (h << 4)
    }

    fn sub_of(&mut self, h: u32, op: &str) -> Option<usize> {
        match self.entry(h) {
            Some(Entry { kind: Kind::Subtask { sub }, .. }) => Some(*sub),
            _ => {
                violation("C21", &format!("{op}:bad-handle"), format!("{op}({h}): not a live subtask"));
                None
            }
        }
    }

    fn sub_start(&mut self, si: usize) {
        if self.subs[si].params_seen.is_none() {
            let p = self.read_params(self.subs[si].spec, self.subs[si].flat);
            self.subs[si].params_seen = Some(p);
        }
    }

    fn sub_return(&mut self, si: usize) {
        self.sub_start(si);
        self.write_results(self.subs[si].spec, self.subs[si].results_ptr);
        self.subs[si].phase = Phase::Returned;
    }

    pub fn subtask_cancel(&mut self, h: u32) -> u32 {
        let Some(si) = self.sub_of(h, "subtask.cancel") else { return ST_RETURNED_CANCELLED };
        self.rule_not_in_set(h, "subtask.cancel", "C18");
        if self.subs[si].resolved_delivered {
            violation("C21", "subtask.cancel:already-resolved", format!("subtask.cancel({h}) after its resolution was already delivered (only a call still in progress may be cancelled)"));
            return ST_RETURNED;
        }
        if self.subs[si].cancel_requested {
            violation("C21", "subtask.cancel:twice", format!("subtask.cancel({h}) requested twice"));
        }
        self.subs[si].cancel_requested = true;
        // a queued, undelivered event is subsumed by the answer
        self.entry(h).unwrap().pending = None;
        let rc = match self.subs[si].phase {
            Phase::Starting => {
                let opts = [ST_STARTED_CANCELLED, ST_RETURNED_CANCELLED, ST_RETURNED];
                let c = opts[choose("subtask.cancel(starting)", 3)];
                match c {
                    ST_STARTED_CANCELLED => self.subs[si].phase = Phase::CancelledBeforeStart,
                    ST_RETURNED_CANCELLED => {
                        self.sub_start(si);
                        self.subs[si].phase = Phase::CancelledAfterStart;
                    }
                    _ => self.sub_return(si),
                }
                c
            }
            Phase::Started => {
                let opts = [ST_RETURNED_CANCELLED, ST_RETURNED];
                let c = opts[choose("subtask.cancel(started)", 2)];
                if c == ST_RETURNED {
                    self.sub_return(si);
                } else {
                    self.subs[si].phase = Phase::CancelledAfterStart;
                }
                c
            }
            Phase::Returned => ST_RETURNED,
            Phase::CancelledBeforeStart => ST_STARTED_CANCELLED,
            Phase::CancelledAfterStart => ST_RETURNED_CANCELLED,
        };
        self.subs[si].resolved_delivered = true;
        trace(format!("subtask.cancel({h}) = {rc}"));
        rc
    }

    pub fn subtask_drop(&mut self, h: u32) {
        let Some(si) = self.sub_of(h, "subtask.drop") else { return };
        self.rule_not_in_set(h, "subtask.drop", "C18");
        if !self.subs[si].resolved_delivered {
            violation("C21", "subtask.drop:unresolved", format!("subtask.drop({h}) before the subtask's resolution was delivered"));
        }
        self.leave_set(h);
        self.table[h as usize] = None;
        self.subs[si].dropped = true;
        trace(format!("subtask.drop({h})"));
    }

    // ---------------------------------------------------------------- waitable sets

    pub fn set_new(&mut self) -> u32 {
        let s = self.alloc_index(Entry { kind: Kind::Set { members: BTreeSet::new() }, set: None, pending: None, copy: Copy_::Idle });
        if let Some(t) = self.cur_task {
            self.tasks[t].sets_created.push(s);
        }
        trace(format!("waitable-set.new() = {s}"));
        s
    }

    pub fn set_drop(&mut self, s: u32) {
        match self.entry(s) {
            Some(Entry { kind: Kind::Set { members }, .. }) => {
                if !members.is_empty() {
                    let m = members.clone();
                    violation("C18", "waitable-set.drop:non-empty", format!("waitable-set.drop({s}) while it still has members {m:?}"));
                    for w in m {
                        if let Some(e) = self.entry(w) {
                            e.set = None;
                        }
                    }
                }
                if self.tasks.iter().any(|t| t.status == TaskStatus::Waiting(s)) {
                    violation("C22", "waitable-set.drop:task-waiting", format!("waitable-set.drop({s}) while a task is waiting on it"));
                }
                self.table[s as usize] = None;
                trace(format!("waitable-set.drop({s})"));
            }
            _ => violation("C18", "waitable-set.drop:bad-handle", format!("waitable-set.drop({s}): not a set")),
        }
    }

    pub fn join(&mut self, w: u32, s: u32) {
        let is_waitable = matches!(self.entry(w), Some(Entry { kind: Kind::StreamEnd { .. } | Kind::FutureEnd { .. } | Kind::Subtask { .. }, .. }));
        if !is_waitable {
            let tag = "C18";
            violation(tag, "waitable.join:unknown-waitable", format!("waitable.join({w}, {s}): {w} is not a live waitable (stale registration?)"));
            return;
        }
        self.leave_set(w);
        if s != 0 {
            match self.entry(s) {
                Some(Entry { kind: Kind::Set { members }, .. }) => {
                    members.insert(w);
                    self.entry(w).unwrap().set = Some(s);
                }
                _ => violation("C18", "waitable.join:unknown-set", format!("waitable.join({w}, {s}): {s} is not a live set")),
            }
        }
        trace(format!("waitable.join({w}, {s})"));
    }

    pub fn members(&mut self, s: u32) -> Vec<u32> {
        match self.entry(s) {
            Some(Entry { kind: Kind::Set { members }, .. }) => members.iter().copied().collect(),
            _ => vec![],
        }
    }

    /// Members of `s` that currently hold a pending event.
    pub fn ready(&mut self, s: u32) -> Vec<u32> {
        self.members(s).into_iter().filter(|w| self.entry(*w).map(|e| e.pending.is_some()).unwrap_or(false)).collect()
    }

    /// Take the pending event of `w` (this is the moment the copy state changes).
    pub fn take_event(&mut self, w: u32) -> (u32, u32, u32) {
        let e = self.entry(w).unwrap();
        let p = e.pending.take().unwrap();
        let code = match &e.kind {
            Kind::StreamEnd { side: Side::R, .. } => EVENT_STREAM_READ,
            Kind::StreamEnd { side: Side::W, .. } => EVENT_STREAM_WRITE,
            Kind::FutureEnd { side: Side::R, .. } => EVENT_FUTURE_READ,
            Kind::FutureEnd { side: Side::W, .. } => EVENT_FUTURE_WRITE,
            Kind::Subtask { .. } => EVENT_SUBTASK,
            Kind::Set { .. } => unreachable!(),
        };
        match e.kind.clone() {
            Kind::StreamEnd { .. } => {
                e.copy = if p != BLOCKED && p & 0xf == DROPPED { Copy_::Done } else { Copy_::Idle };
            }
            Kind::FutureEnd { .. } => {
                e.copy = if p == CANCELLED { Copy_::Idle } else { Copy_::Done };
            }
            Kind::Subtask { sub } => {
                if matches!(p, ST_RETURNED | ST_STARTED_CANCELLED | ST_RETURNED_CANCELLED) {
                    self.subs[sub].resolved_delivered = true;
                }
            }
            Kind::Set { .. } => {}
        }
        (code, w, p)
    }

    // ---------------------------------------------------------------- host-side progress

    /// Everything the host side could do now to make an in-flight guest operation progress.
    pub fn progress_actions(&mut self) -> Vec<Progress> {
        let mut v = Vec::new();
        for (si, s) in self.streams.iter().enumerate() {
            if let (Some((_, n, prog)), Owner::Host, Owner::Guest(h)) = (s.pw, s.r, s.w) {
                if self.table[h as usize].as_ref().map(|e| e.pending.is_none()).unwrap_or(false) {
                    v.push(Progress::StreamTake { si, k: n - prog });
                    if n - prog > 1 && self.allow_partial {
                        v.push(Progress::StreamTake { si, k: 1 });
                    }
                    if self.allow_peer_drop {
                        v.push(Progress::StreamReaderDrop { si });
                        if n - prog >= 1 {
                            // the host reader takes one more item and then hangs up before the
                            // writer is told: DROPPED(k) with k > 0
                            v.push(Progress::StreamTakeThenDrop { si, k: 1 });
                        }
                    }
                }
            }
            if let (Some((_, cap, prog)), Owner::Host, Owner::Guest(h)) = (s.pr, s.w, s.r) {
                if self.table[h as usize].as_ref().map(|e| e.pending.is_none()).unwrap_or(false) {
                    let q = s.host_q.len();
                    let room = cap - prog;
                    if q == 0 {
                        v.push(Progress::StreamWriterDrop { si });
                    } else if room > 0 {
                        v.push(Progress::StreamGive { si, k: room.min(q) });
                        if q <= room && self.allow_peer_drop {
                            // the host writer sends its last items and hangs up at once
                            v.push(Progress::StreamGiveThenDrop { si, k: q });
                        }
                        if room.min(q) > 1 && self.allow_partial {
                            v.push(Progress::StreamGive { si, k: 1 });
                        }
                    } else {
                        v.push(Progress::StreamGive { si, k: 0 });
                    }
                }
            }
        }
        for (fi, f) in self.futs.iter().enumerate() {
            if let (Some(_), Owner::Host, Owner::Guest(h)) = (f.pw, f.r, f.w) {
                if self.table[h as usize].as_ref().map(|e| e.pending.is_none()).unwrap_or(false) {
                    v.push(Progress::FutureTake { fi });
                    if self.allow_peer_drop {
                        v.push(Progress::FutureReaderDrop { fi });
                    }
                }
            }
            if let (Some(_), Owner::Host, Owner::Guest(h)) = (f.pr, f.w, f.r) {
                if f.host_value.is_some() && self.table[h as usize].as_ref().map(|e| e.pending.is_none()).unwrap_or(false) {
                    v.push(Progress::FutureGive { fi });
                }
            }
        }
        for (si, s) in self.subs.iter().enumerate() {
            if s.dropped || s.resolved_delivered || s.cancel_requested {
                continue;
            }
            let queued = self.table[s.handle as usize].as_ref().and_then(|e| e.pending);
            match s.phase {
                Phase::Starting => {
                    v.push(Progress::SubReturn { si });
                    v.push(Progress::SubStart { si });
                }
                Phase::Started => {
                    let _ = queued;
                    v.push(Progress::SubReturn { si });
                }
                _ => {}
            }
        }
        v
    }

    pub fn apply_progress(&mut self, p: Progress) {
        trace(format!("host: {p:?}"));
        match p {
            Progress::StreamTake { si, k } => {
                let (ptr, n, prog) = self.streams[si].pw.unwrap();
                let elem = self.streams[si].elem;
                let items = self.read_items(elem, ptr + prog * elem.size(), k, "C19", "pending stream.write completion");
                self.streams[si].taken.extend(items);
                let Owner::Guest(h) = self.streams[si].w else { unreachable!() };
                // the copy completes (possibly partially) and the event is queued
                self.streams[si].pw = None;
                let _ = n;
                self.entry(h).unwrap().pending = Some(pack(COMPLETED, prog + k));
            }
            Progress::StreamTakeThenDrop { si, k } => {
                let (ptr, _n, prog) = self.streams[si].pw.take().unwrap();
                let elem = self.streams[si].elem;
                let items = self.read_items(elem, ptr + prog * elem.size(), k, "C19", "pending stream.write completion");
                self.streams[si].taken.extend(items);
                self.streams[si].r = Owner::Dropped;
                let Owner::Guest(h) = self.streams[si].w else { unreachable!() };
                self.entry(h).unwrap().pending = Some(pack(DROPPED, prog + k));
            }
            Progress::StreamGiveThenDrop { si, k } => {
                let (ptr, _cap, prog) = self.streams[si].pr.take().unwrap();
                let elem = self.streams[si].elem;
                let items: Vec<Item> = self.streams[si].host_q.drain(..k).collect();
                self.write_items(elem, ptr + prog * elem.size(), &items, "C19", "pending stream.read completion");
                self.streams[si].given.extend(items);
                self.streams[si].w = Owner::Dropped;
                let Owner::Guest(h) = self.streams[si].r else { unreachable!() };
                self.entry(h).unwrap().pending = Some(pack(DROPPED, prog + k));
            }
            Progress::StreamReaderDrop { si } => {
                let (_, _, prog) = self.streams[si].pw.take().unwrap();
                self.streams[si].r = Owner::Dropped;
                let Owner::Guest(h) = self.streams[si].w else { unreachable!() };
                self.entry(h).unwrap().pending = Some(pack(DROPPED, prog));
            }
            Progress::StreamGive { si, k } => {
                let (ptr, _cap, prog) = self.streams[si].pr.take().unwrap();
                let elem = self.streams[si].elem;
                let items: Vec<Item> = self.streams[si].host_q.drain(..k).collect();
                self.write_items(elem, ptr + prog * elem.size(), &items, "C19", "pending stream.read completion");
                self.streams[si].given.extend(items);
                let Owner::Guest(h) = self.streams[si].r else { unreachable!() };
                self.entry(h).unwrap().pending = Some(pack(COMPLETED, prog + k));
            }
            Progress::StreamWriterDrop { si } => {
                let (_, _, prog) = self.streams[si].pr.take().unwrap();
                self.streams[si].w = Owner::Dropped;
                let Owner::Guest(h) = self.streams[si].r else { unreachable!() };
                self.entry(h).unwrap().pending = Some(pack(DROPPED, prog));
            }
            Progress::FutureTake { fi } => {
                let ptr = self.futs[fi].pw.take().unwrap();
                let elem = self.futs[fi].elem;
                let items = self.read_items(elem, ptr, 1, "C20", "pending future.write completion");
                self.futs[fi].taken = Some(items[0].clone());
                self.futs[fi].transfers += 1;
                let Owner::Guest(h) = self.futs[fi].w else { unreachable!() };
                self.entry(h).unwrap().pending = Some(COMPLETED);
            }
            Progress::FutureReaderDrop { fi } => {
                self.futs[fi].pw = None;
                self.futs[fi].r = Owner::Dropped;
                let Owner::Guest(h) = self.futs[fi].w else { unreachable!() };
                self.entry(h).unwrap().pending = Some(DROPPED);
            }
            Progress::FutureGive { fi } => {
                let ptr = self.futs[fi].pr.take().unwrap();
                let elem = self.futs[fi].elem;
                let v = self.futs[fi].host_value.take().unwrap();
                self.write_items(elem, ptr, &[v.clone()], "C20", "pending future.read completion");
                self.futs[fi].given = Some(v);
                self.futs[fi].transfers += 1;
                let Owner::Guest(h) = self.futs[fi].r else { unreachable!() };
                self.entry(h).unwrap().pending = Some(COMPLETED);
            }
            Progress::SubStart { si } => {
                self.sub_start(si);
                self.subs[si].phase = Phase::Started;
                let h = self.subs[si].handle;
                self.entry(h).unwrap().pending = Some(ST_STARTED);
            }
            Progress::SubReturn { si } => {
                self.sub_return(si);
                let h = self.subs[si].handle;
                self.entry(h).unwrap().pending = Some(ST_RETURNED);
            }
        }
    }

    /// `waitable-set.wait` (used by `block_on`): must come back with an event of a member.
    pub fn set_wait(&mut self, s: u32) -> (u32, u32, u32) {
        let mut guard = 0;
        loop {
            let ready = self.ready(s);
            if !ready.is_empty() {
                let w = ready[choose("wait:which-event", ready.len())];
                let ev = self.take_event(w);
                trace(format!("waitable-set.wait({s}) = {ev:?}"));
                return ev;
            }
            let acts = self.progress_actions();
            if acts.is_empty() {
                let prop = self.prop.clone();
                let m = self.members(s);
                violation(&prop, "deadlock:waitable-set.wait", format!("waitable-set.wait({s}) can never return: members {m:?}, nothing in flight on the host side"));
                abort("deadlock in waitable-set.wait");
            }
            let a = acts[choose("wait:host-progress", acts.len())];
            self.apply_progress(a);
            guard += 1;
            if guard > 64 {
                abort("horizon in waitable-set.wait");
            }
        }
    }

    pub fn set_poll(&mut self, s: u32) -> (u32, u32, u32) {
        let ready = self.ready(s);
        if ready.is_empty() {
            trace(format!("waitable-set.poll({s}) = NONE"));
            return (EVENT_NONE, 0, 0);
        }
        let w = ready[choose("poll:which-event", ready.len())];
        let ev = self.take_event(w);
        trace(format!("waitable-set.poll({s}) = {ev:?}"));
        ev
    }

    /// Canonical, pointer-free description of the host state (for state counting).
    pub fn fingerprint(&self) -> u64 {
        let mut s = String::new();
        for (i, e) in self.table.iter().enumerate() {
            if let Some(e) = e {
                s.push_str(&format!("{i}:{:?}/{:?}/{:?}/{:?};", e.kind, e.set, e.pending, e.copy));
            }
        }
        for st in &self.streams {
            s.push_str(&format!("S{:?}{:?}{:?}pw{:?}pr{:?}q{}t{}g{}gg{};", st.elem, st.w, st.r, st.pw.map(|x| (x.1, x.2)), st.pr.map(|x| (x.1, x.2)), st.host_q.len(), st.taken.len(), st.given.len(), st.g2g.len()));
        }
        for f in &self.futs {
            s.push_str(&format!("F{:?}{:?}{:?}{}{}{};", f.elem, f.w, f.r, f.pw.is_some(), f.pr.is_some(), f.transfers));
        }
        for sub in &self.subs {
            s.push_str(&format!("T{:?}{}{}{};", sub.phase, sub.resolved_delivered, sub.cancel_requested, sub.dropped));
        }
        for t in &self.tasks {
            s.push_str(&format!("K{:?}{}{}{}{};", t.status, t.ctx != 0, t.cancel_sent, t.returns, t.cancels));
        }
        vcommon::fnv(s.as_bytes())
    }
}

#[derive(Clone, Copy, Debug, PartialEq, Eq)]
pub enum Progress {
    StreamTake { si: usize, k: usize },
    StreamReaderDrop { si: usize },
    StreamTakeThenDrop { si: usize, k: usize },
    StreamGiveThenDrop { si: usize, k: usize },
    StreamGive { si: usize, k: usize },
    StreamWriterDrop { si: usize },
    FutureTake { fi: usize },
    FutureReaderDrop { fi: usize },
    FutureGive { fi: usize },
    SubStart { si: usize },
    SubReturn { si: usize },
}

pub fn show_rc(rc: u32) -> String {
    if rc == BLOCKED {
        return "BLOCKED".into();
    }
    let n = rc >> 4;
    match rc & 0xf {
        COMPLETED => format!("COMPLETED({n})"),
        DROPPED => format!("DROPPED({n})"),
        CANCELLED => format!("CANCELLED({n})"),
        x => format!("?{x}({n})"),
    }
}

// =====================================================================================
// C symbols the runtime links against (hook H1 turns its built-ins into these symbols)
// =====================================================================================

#[unsafe(export_name = "[waitable-set-new]")]
pub extern "C" fn cm_waitable_set_new() -> u32 {
    with(|h| h.set_new())
}
#[unsafe(export_name = "[waitable-set-drop]")]
pub extern "C" fn cm_waitable_set_drop(s: u32) {
    with(|h| h.set_drop(s))
}
#[unsafe(export_name = "[waitable-join]")]
pub extern "C" fn cm_waitable_join(w: u32, s: u32) {
    with(|h| h.join(w, s))
}
#[unsafe(export_name = "[waitable-set-wait]")]
pub unsafe extern "C" fn cm_waitable_set_wait(s: u32, payload: *mut [u32; 2]) -> u32 {
    let (a, b, c) = with(|h| h.set_wait(s));
    unsafe { *payload = [b, c] };
    a
}
#[unsafe(export_name = "[waitable-set-poll]")]
pub unsafe extern "C" fn cm_waitable_set_poll(s: u32, payload: *mut [u32; 2]) -> u32 {
    let (a, b, c) = with(|h| h.set_poll(s));
    unsafe { *payload = [b, c] };
    a
}
#[unsafe(export_name = "[context-get-0]")]
pub extern "C" fn cm_context_get() -> *mut u8 {
    with(|h| match h.cur_task {
        Some(t) => h.tasks[t].ctx as *mut u8,
        None => h.root_ctx as *mut u8,
    })
}
#[unsafe(export_name = "[context-set-0]")]
pub extern "C" fn cm_context_set(v: *mut u8) {
    with(|h| match h.cur_task {
        Some(t) => h.tasks[t].ctx = v as usize,
        None => h.root_ctx = v as usize,
    })
}
#[unsafe(export_name = "[thread-yield]")]
pub extern "C" fn cm_thread_yield() -> bool {
    false
}
#[unsafe(export_name = "[backpressure-inc]")]
pub extern "C" fn cm_backpressure_inc() {}
#[unsafe(export_name = "[backpressure-dec]")]
pub extern "C" fn cm_backpressure_dec() {}
#[unsafe(export_name = "[task-cancel]")]
pub extern "C" fn cm_task_cancel() {
    with(|h| {
        if let Some(t) = h.cur_task {
            h.tasks[t].cancels += 1;
            if !h.tasks[t].cancel_sent {
                violation("C22", "task.cancel:without-request", "task.cancel called although the host never requested cancellation");
            }
            trace(format!("task.cancel (task {t})"));
        } else {
            violation("C22", "task.cancel:no-task", "task.cancel outside any task");
        }
    })
}
#[unsafe(export_name = "[subtask-cancel]")]
pub extern "C" fn cm_subtask_cancel(h_: u32) -> u32 {
    with(|h| h.subtask_cancel(h_))
}
#[unsafe(export_name = "[subtask-drop]")]
pub extern "C" fn cm_subtask_drop(h_: u32) {
    with(|h| h.subtask_drop(h_))
}
#[unsafe(export_name = "wasip3_task_set")]
pub extern "C" fn cm_wasip3_task_set(p: *mut c_void) -> *mut c_void {
    with(|h| std::mem::replace(&mut h.p3_task, p))
}
#[unsafe(export_name = "[error-context-new-utf8]")]
pub extern "C" fn cm_errctx_new(_p: *const u8, _l: usize) -> u32 {
    0
}
#[unsafe(export_name = "[error-context-drop]")]
pub extern "C" fn cm_errctx_drop(_h: u32) {}
#[unsafe(export_name = "[error-context-debug-message-utf8]")]
pub extern "C" fn cm_errctx_msg(_h: u32, _ret: *mut u8) {}

// unit stream built-ins (inter-task wakeup)
#[unsafe(export_name = "[stream-new-unit]")]
pub extern "C" fn cm_unit_new() -> u64 {
    with(|h| h.stream_new(Elem::Unit))
}
#[unsafe(export_name = "[async-lower][stream-write-unit]")]
pub extern "C" fn cm_unit_write(s: u32, p: *const u8, n: usize) -> u32 {
    with(|h| h.stream_write(s, p as usize, n))
}
#[unsafe(export_name = "[async-lower][stream-read-unit]")]
pub extern "C" fn cm_unit_read(s: u32, p: *mut u8, n: usize) -> u32 {
    with(|h| h.stream_read(s, p as usize, n))
}
#[unsafe(export_name = "[stream-cancel-read-unit]")]
pub extern "C" fn cm_unit_cancel_read(s: u32) -> u32 {
    with(|h| h.stream_cancel(s, Side::R))
}
#[unsafe(export_name = "[stream-cancel-write-unit]")]
pub extern "C" fn cm_unit_cancel_write(s: u32) -> u32 {
    with(|h| h.stream_cancel(s, Side::W))
}
#[unsafe(export_name = "[stream-drop-readable-unit]")]
pub extern "C" fn cm_unit_drop_readable(s: u32) {
    with(|h| h.stream_drop(s, Side::R))
}
#[unsafe(export_name = "[stream-drop-writable-unit]")]
pub extern "C" fn cm_unit_drop_writable(s: u32) {
    with(|h| h.stream_drop(s, Side::W))
}

// typed stream / future intrinsics handed to the runtime through harness-built vtables
pub extern "C" fn s_new_u8() -> u64 {
    with(|h| h.stream_new(Elem::U8))
}
pub extern "C" fn s_new_heap() -> u64 {
    with(|h| h.stream_new(Elem::Heap))
}
pub extern "C" fn s_write(s: u32, p: *const u8, n: usize) -> u32 {
    with(|h| h.stream_write(s, p as usize, n))
}
pub extern "C" fn s_read(s: u32, p: *mut u8, n: usize) -> u32 {
    with(|h| h.stream_read(s, p as usize, n))
}
pub extern "C" fn s_cancel_read(s: u32) -> u32 {
    with(|h| h.stream_cancel(s, Side::R))
}
pub extern "C" fn s_cancel_write(s: u32) -> u32 {
    with(|h| h.stream_cancel(s, Side::W))
}
pub extern "C" fn s_drop_readable(s: u32) {
    with(|h| h.stream_drop(s, Side::R))
}
pub extern "C" fn s_drop_writable(s: u32) {
    with(|h| h.stream_drop(s, Side::W))
}
pub extern "C" fn f_new_u8() -> u64 {
    with(|h| h.future_new(Elem::U8))
}
pub extern "C" fn f_new_heap() -> u64 {
    with(|h| h.future_new(Elem::Heap))
}
pub extern "C" fn f_write(s: u32, p: *const u8) -> u32 {
    with(|h| h.future_write(s, p as usize))
}
pub extern "C" fn f_read(s: u32, p: *mut u8) -> u32 {
    with(|h| h.future_read(s, p as usize))
}
pub extern "C" fn f_cancel_read(s: u32) -> u32 {
    with(|h| h.future_cancel(s, Side::R))
}
pub extern "C" fn f_cancel_write(s: u32) -> u32 {
    with(|h| h.future_cancel(s, Side::W))
}
pub extern "C" fn f_drop_readable(s: u32) {
    with(|h| h.future_drop(s, Side::R))
}
pub extern "C" fn f_drop_writable(s: u32) {
    with(|h| h.future_drop(s, Side::W))
}
