//! The host's event loop for async exports: starts component tasks through the real
//! `start_task`, interprets the callback codes, and at every turn picks (a choice point)
//! one of the things a component-model host may legally do next.

use crate::explore::{choose, fingerprint, trace, violation};
use crate::host::{self, with, Progress, Task, TaskStatus, EVENT_CANCEL, EVENT_NONE};
use std::future::Future;
use wit_bindgen::rt::async_support as rt;

pub struct Opts {
    /// may the host send EVENT_CANCEL to a suspended task?
    pub allow_cancel: bool,
    /// max host turns
    pub horizon: usize,
    /// scenario glue calls task.return itself (then exactly one of return/cancel is required)
    pub expects_task_return: bool,
}

impl Default for Opts {
    fn default() -> Self {
        Opts { allow_cancel: false, horizon: 24, expects_task_return: false }
    }
}

#[derive(Clone, Copy, Debug, PartialEq, Eq)]
enum Action {
    Deliver(usize, u32),
    Host(Progress),
    Resume(usize),
    Cancel(usize),
    External(usize),
}

/// Called by scenario glue where generated code would call `task.return`.
pub fn task_return() {
    with(|h| match h.cur_task {
        Some(t) => {
            h.tasks[t].returns += 1;
            trace(format!("task.return (task {t})"));
        }
        None => violation("C22", "task.return:no-task", "task.return outside any task"),
    })
}

fn interpret(t: usize, code: u32) {
    with(|h| {
        let prop = h.prop.clone();
        let st = match code & 0xf {
            0 => TaskStatus::Exited,
            1 => TaskStatus::Yielded,
            2 => TaskStatus::Waiting(code >> 4),
            x => {
                violation(&prop, "callback-code:unknown", format!("callback returned unknown code {x}"));
                TaskStatus::Exited
            }
        };
        trace(format!("task {t} -> {st:?}"));
        h.tasks[t].status = st;
        match st {
            TaskStatus::Waiting(s) => {
                let own = h.tasks[t].sets_created.contains(&s);
                let live = matches!(h.entry(s), Some(host::Entry { kind: host::Kind::Set { .. }, .. }));
                if !live {
                    violation("C22", "wait:dead-set", format!("task {t} asked to wait on {s}, which is not a live waitable set"));
                } else if !own {
                    violation("C22", "wait:foreign-set", format!("task {t} asked to wait on set {s}, which it did not create"));
                }
                if h.tasks[t].ctx == 0 {
                    violation("C22", "wait:no-task-state", format!("task {t} suspended without storing its state in the context slot"));
                }
            }
            TaskStatus::Yielded => {
                if h.tasks[t].ctx == 0 {
                    violation("C22", "yield:no-task-state", format!("task {t} yielded without storing its state in the context slot"));
                }
            }
            TaskStatus::Exited => {
                // Everything the task registered must be gone: its sets dropped, nothing joined.
                for s in h.tasks[t].sets_created.clone() {
                    if let Some(host::Entry { kind: host::Kind::Set { members }, .. }) = h.entry(s) {
                        let m = members.clone();
                        if !h.tasks[t].cancel_sent && !h.wakers_outlive_tasks {
                            violation("C22", "exit:set-left-behind", format!("task {t} exited but its waitable set {s} still exists (members {m:?})"));
                        } else if !m.is_empty() {
                            violation("C22", "cancel-exit:waitables-left-in-set", format!("task {t} exited after cancellation but waitables {m:?} are still joined to its set {s}"));
                        }
                    }
                }
            }
            TaskStatus::Running => {}
        }
    });
}

/// Start component task `t` (must be `tasks.len()`) running `fut` through the real runtime.
pub fn start_task(fut: impl Future<Output = ()> + 'static) -> usize {
    let t = with(|h| {
        h.tasks.push(Task { ctx: 0, status: TaskStatus::Running, cancel_sent: false, returns: 0, cancels: 0, sets_created: vec![] });
        let t = h.tasks.len() - 1;
        h.cur_task = Some(t);
        t
    });
    trace(format!("host: start task {t}"));
    // what generated glue does around the user's future: report the result with task.return,
    // or task.cancel if the future is dropped (cancellation) before finishing
    let code = rt::start_task(async move {
        let guard = rt::TaskCancelOnDrop::new();
        fut.await;
        task_return();
        guard.forget();
    }) as u32;
    with(|h| h.cur_task = None);
    interpret(t, code);
    t
}

fn callback(t: usize, e0: u32, e1: u32, e2: u32) {
    with(|h| {
        h.cur_task = Some(t);
        h.tasks[t].status = TaskStatus::Running;
    });
    trace(format!("host: callback(task {t}, {e0}, {e1}, {})", if e0 == EVENT_NONE || e0 == EVENT_CANCEL { "-".to_string() } else if e0 == host::EVENT_SUBTASK { format!("status {e2}") } else { host::show_rc(e2) }));
    let code = unsafe { rt::callback(e0, e1, e2) };
    with(|h| h.cur_task = None);
    interpret(t, code);
}

/// External actions a scenario can offer to the host loop (e.g. "another party wakes task 0").
pub type External = Box<dyn FnMut() -> bool>;

/// Run the host loop until every task exited, deadlock, or horizon.
/// Returns "done" / "deadlock" / "horizon".
pub fn run(opts: &Opts, externals: &mut Vec<(String, External)>) -> &'static str {
    let mut ext_used = vec![false; externals.len()];
    for turn in 0..opts.horizon {
        fingerprint(with(|h| h.fingerprint()));
        crate::alloc::audit();
        let mut acts: Vec<Action> = Vec::new();
        with(|h| {
            for t in 0..h.tasks.len() {
                if let TaskStatus::Waiting(s) = h.tasks[t].status {
                    for w in h.ready(s) {
                        acts.push(Action::Deliver(t, w));
                    }
                }
            }
            for p in h.progress_actions() {
                acts.push(Action::Host(p));
            }
            for t in 0..h.tasks.len() {
                if h.tasks[t].status == TaskStatus::Yielded {
                    acts.push(Action::Resume(t));
                }
            }
        });
        for (i, used) in ext_used.iter().enumerate() {
            if !used {
                acts.push(Action::External(i));
            }
        }
        if opts.allow_cancel {
            with(|h| {
                for t in 0..h.tasks.len() {
                    // a task that already reported its result can no longer be cancelled
                    if matches!(h.tasks[t].status, TaskStatus::Waiting(_) | TaskStatus::Yielded) && !h.tasks[t].cancel_sent && h.tasks[t].returns == 0 {
                        acts.push(Action::Cancel(t));
                    }
                }
            });
        }
        let all_exited = with(|h| h.tasks.iter().all(|t| t.status == TaskStatus::Exited));
        // external actions still outstanding also run after every task is gone (e.g. a wake
        // through a waker that outlived its task)
        if all_exited && acts.is_empty() {
            return finish(opts, "done");
        }
        if acts.is_empty() {
            let (prop, desc) = with(|h| (h.prop.clone(), format!("{:?}", h.tasks.iter().map(|t| t.status).collect::<Vec<_>>())));
            violation(&prop, "deadlock:no-enabled-action", format!("tasks {desc} are suspended but the host has no event to deliver and nothing in flight (turn {turn})"));
            return finish(opts, "deadlock");
        }
        let a = acts[choose("turn", acts.len())];
        match a {
            Action::Deliver(t, w) => {
                let (e0, e1, e2) = with(|h| h.take_event(w));
                callback(t, e0, e1, e2);
            }
            Action::Host(p) => with(|h| h.apply_progress(p)),
            Action::Resume(t) => callback(t, EVENT_NONE, 0, 0),
            Action::Cancel(t) => {
                with(|h| h.tasks[t].cancel_sent = true);
                callback(t, EVENT_CANCEL, 0, 0);
            }
            Action::External(i) => {
                trace(format!("host: external action {}", externals[i].0));
                ext_used[i] = (externals[i].1)();
            }
        }
    }
    finish(opts, "horizon")
}

fn finish(opts: &Opts, how: &'static str) -> &'static str {
    fingerprint(with(|h| h.fingerprint()));
    trace(format!("host loop: {how}"));
    let _ = opts.expects_task_return;
    if how == "done" {
        with(|h| {
            for (t, task) in h.tasks.iter().enumerate() {
                let total = task.returns + task.cancels;
                if total != 1 {
                    violation(
                        "C22",
                        &format!("task-result:{}-returns-{}-cancels", task.returns, task.cancels),
                        format!("task {t} exited having called task.return {} time(s) and task.cancel {} time(s) (exactly one report is required)", task.returns, task.cancels),
                    );
                }
            }
        });
    }
    how
}
