//! E2: bounded exhaustive exploration of the real async guest runtime against a mock host.
pub mod alloc;
pub mod driver;
pub mod engine;
pub mod explore;
pub mod guest;
pub mod hexec;
pub mod host;
pub mod scen;
