//! A *foreign* task executor speaking the documented `wasip3_task` C ABI (v1 and v2), as a
//! second `wit-bindgen` version or a C executor would. The harness owns the registration map,
//! so "no pointer to freed operation state stays registered" is checked directly.
//!
//! The ABI structs are re-declared here from the interface documentation in
//! `crates/guest-rust/src/rt/async_support/cabi.rs` (that module is private).

use crate::alloc as heap;
use crate::explore::{trace, violation};
use crate::host::{self, with};
use std::cell::RefCell;
use std::collections::BTreeMap;
use std::ffi::c_void;
use std::future::Future;
use std::pin::Pin;
use std::rc::Rc;
use std::sync::atomic::{AtomicBool, Ordering::Relaxed};
use std::sync::Arc;
use std::task::{Context, Poll, Wake, Waker};

type Callback = unsafe extern "C" fn(*mut c_void, u32);

#[repr(C)]
pub struct CTask {
    pub version: u32,
    pub ptr: *mut c_void,
    pub waitable_register: unsafe extern "C" fn(*mut c_void, u32, Callback, *mut c_void) -> *mut c_void,
    pub waitable_unregister: unsafe extern "C" fn(*mut c_void, u32) -> *mut c_void,
}

#[repr(C)]
pub struct CTaskV2 {
    pub v1: CTask,
    pub vtable: &'static CVtable,
}

#[repr(C)]
pub struct CVtable {
    pub waitable_register: unsafe extern "C" fn(*mut c_void, u32, Callback, *mut c_void) -> *mut c_void,
    pub waitable_unregister: unsafe extern "C" fn(*mut c_void, u32) -> *mut c_void,
    pub clone: unsafe extern "C" fn(*mut c_void) -> *mut c_void,
    pub drop: unsafe extern "C" fn(*mut c_void),
}

/// Executor-side state of one foreign task. Lives in a leaked Box so that the raw pointer
/// handed out through `clone` stays valid; `alive=false` marks it as destroyed by its owner.
pub struct HState {
    pub id: usize,
    pub version: u32,
    pub regs: BTreeMap<u32, (Callback, usize)>,
    pub set: u32,
    pub clones: isize,
    pub alive: bool,
}

thread_local! {
    pub static HTASKS: RefCell<Vec<*mut HState>> = const { RefCell::new(Vec::new()) };
}

unsafe extern "C" fn h_register(p: *mut c_void, w: u32, cb: Callback, cp: *mut c_void) -> *mut c_void {
    let st = unsafe { &mut *(p as *mut HState) };
    if !st.alive {
        violation("C18", "foreign-task:register-on-dead-task", format!("waitable {w} registered with foreign task {} after that task was destroyed", st.id));
    }
    trace(format!("htask{}: register({w}, {cp:?})", st.id));
    with(|h| h.join(w, st.set));
    match st.regs.insert(w, (cb, cp as usize)) {
        Some(prev) => prev.1 as *mut c_void,
        None => std::ptr::null_mut(),
    }
}

unsafe extern "C" fn h_unregister(p: *mut c_void, w: u32) -> *mut c_void {
    let st = unsafe { &mut *(p as *mut HState) };
    trace(format!("htask{}: unregister({w})", st.id));
    let prev = st.regs.remove(&w);
    if prev.is_some() {
        with(|h| h.join(w, 0));
    }
    prev.map(|x| x.1 as *mut c_void).unwrap_or(std::ptr::null_mut())
}

unsafe extern "C" fn h_clone(p: *mut c_void) -> *mut c_void {
    let st = unsafe { &mut *(p as *mut HState) };
    st.clones += 1;
    p
}

unsafe extern "C" fn h_drop(p: *mut c_void) {
    let st = unsafe { &mut *(p as *mut HState) };
    st.clones -= 1;
    if st.clones < 0 {
        violation("C18", "foreign-task:clone-dropped-too-often", format!("foreign task {}: `drop` called more often than `clone`", st.id));
    }
}

static VTABLE: CVtable = CVtable { waitable_register: h_register, waitable_unregister: h_unregister, clone: h_clone, drop: h_drop };

struct FlagWaker(AtomicBool);
impl Wake for FlagWaker {
    fn wake(self: Arc<Self>) {
        self.0.store(true, Relaxed)
    }
}

pub struct HTask {
    pub st: *mut HState,
    woken: Arc<FlagWaker>,
}

impl HTask {
    pub fn new(version: u32) -> HTask {
        let set = with(|h| h.set_new());
        let id = HTASKS.with(|t| t.borrow().len());
        let st = Box::into_raw(Box::new(HState { id, version, regs: BTreeMap::new(), set, clones: 0, alive: true }));
        HTASKS.with(|t| t.borrow_mut().push(st));
        HTask { st, woken: Arc::new(FlagWaker(AtomicBool::new(false))) }
    }

    pub fn st(&self) -> &mut HState {
        unsafe { &mut *self.st }
    }

    /// Run `f` with this task installed as the current `wasip3_task`.
    pub fn enter<R>(&self, f: impl FnOnce(&mut Context<'_>) -> R) -> R {
        let mut ct = CTaskV2 {
            v1: CTask { version: self.st().version, ptr: self.st as *mut c_void, waitable_register: h_register, waitable_unregister: h_unregister },
            vtable: &VTABLE,
        };
        let prev = host::cm_wasip3_task_set(&mut ct as *mut CTaskV2 as *mut c_void);
        let waker = Waker::from(self.woken.clone());
        let mut cx = Context::from_waker(&waker);
        let r = f(&mut cx);
        host::cm_wasip3_task_set(prev);
        r
    }

    pub fn poll<T>(&self, fut: &mut Pin<Box<dyn Future<Output = T>>>) -> Poll<T> {
        self.woken.0.store(false, Relaxed);
        self.enter(|cx| fut.as_mut().poll(cx))
    }

    /// Deliver the pending host event of registered waitable `w` the way an executor does:
    /// leave the set, forget the registration, invoke the callback.
    pub fn deliver(&self, w: u32) {
        let (_, _, code) = with(|h| h.take_event(w));
        with(|h| h.join(w, 0));
        let Some((cb, cp)) = self.st().regs.remove(&w) else {
            violation("C18", "foreign-task:event-without-registration", format!("event for waitable {w} but foreign task {} has no registration for it", self.st().id));
            return;
        };
        audit_ptr(self.st().id, w, cp);
        trace(format!("htask{}: deliver({w}, {})", self.st().id, host::show_rc(code)));
        self.enter(|_| unsafe { cb(cp as *mut c_void, code) });
    }

    pub fn was_woken(&self) -> bool {
        self.woken.0.load(Relaxed)
    }

    /// The executor is done with this task: it drops its set. Whatever is still registered is
    /// a registration the runtime failed to remove.
    pub fn destroy(&self) {
        let st = self.st();
        st.alive = false;
        // Operations owned elsewhere may legitimately still be registered here (they hold a
        // clone of this task under the v2 ABI and unregister through it later); what must hold
        // is that their callback state stays live while registered (`audit_all`) and that
        // nothing is left at the very end (`final_check`).
        for (w, (_, cp)) in st.regs.iter() {
            trace(format!("htask{}: ends with waitable {w} still registered ({cp:#x})", st.id));
        }
        with(|h| {
            for w in h.members(st.set) {
                h.join(w, 0);
            }
            h.set_drop(st.set)
        });
    }
}

fn audit_ptr(task: usize, w: u32, cp: usize) {
    if !heap::is_live(cp as *const u8, 8) {
        violation("C18", "registered-callback-state-freed", format!("task {task}: the callback state {cp:#x} registered for waitable {w} is not inside a live allocation (operation state was freed or moved while registered)"));
    }
}

/// Check every registration of every foreign task against the allocator ledger, and that a
/// waitable registered with a live task is a member of that task's waitable set (otherwise its
/// completion can never be delivered to the registered callback).
pub fn audit_all() {
    HTASKS.with(|t| {
        for p in t.borrow().iter() {
            let st = unsafe { &**p };
            for (w, (_, cp)) in st.regs.iter() {
                audit_ptr(st.id, *w, *cp);
                if st.alive {
                    let set = with(|h| h.in_set(*w));
                    if set != Some(st.set) {
                        violation("C18", "foreign-task:registered-but-not-in-its-set", format!("waitable {w} is registered with foreign task {} (set {}) but is joined to {set:?}: its completion cannot be delivered", st.id, st.set));
                    }
                }
            }
        }
    });
}

/// At the very end: clones balanced, nothing registered anywhere.
pub fn final_check() {
    HTASKS.with(|t| {
        for p in t.borrow().iter() {
            let st = unsafe { &**p };
            if st.clones != 0 {
                violation("C18", "foreign-task:clone-not-dropped", format!("foreign task {}: {} clone(s) of the task pointer were never dropped", st.id, st.clones));
            }
            if !st.regs.is_empty() {
                violation("C18", "foreign-task:registration-left-at-end", format!("foreign task {}: registrations {:?} remain after every operation is gone", st.id, st.regs.keys().collect::<Vec<_>>()));
            }
        }
    });
}

pub type Shared<T> = Rc<RefCell<Option<Pin<Box<dyn Future<Output = T>>>>>>;

/// Release the executor-side task states (end of scenario).
pub fn free_all() {
    HTASKS.with(|t| {
        for p in std::mem::take(&mut *t.borrow_mut()) {
            drop(unsafe { Box::from_raw(p) });
        }
    });
}
