//! Guest-side harness pieces: what generated bindings would provide to the runtime
//! (stream / future vtables, `Subtask` impls) written by hand against the mock host, plus
//! instrumented payload types.

use crate::explore::violation;
use crate::host::{self, with, ImportSpec, ResKind};
use std::alloc::Layout;
use std::cell::RefCell;
use wit_bindgen::rt::async_support::{FutureVtable, StreamVtable, Subtask};

const W: usize = std::mem::size_of::<usize>();

// ------------------------------------------------------------------ payload with heap

#[derive(Default, Debug, Clone)]
pub struct Ledger {
    pub created: Vec<u8>,
    pub dropped: Vec<u8>,
    pub lowered: Vec<u8>,
    pub lifted: Vec<u8>,
    pub dealloc: Vec<u8>,
}

thread_local! {
    pub static LEDGER: RefCell<Ledger> = RefCell::new(Ledger::default());
    /// free-form observations of what the guest API reported, compared with the host's logs
    pub static OBS: RefCell<Vec<String>> = RefCell::new(Vec::new());
}

pub fn obs(s: impl Into<String>) {
    let s = s.into();
    crate::explore::trace(format!("guest: {s}"));
    OBS.with(|o| o.borrow_mut().push(s));
}

/// A payload that owns heap memory and needs lifting/lowering: lowered as `list<u8>`.
/// Byte 0 is the value's identity.
#[derive(Debug, PartialEq, Eq)]
pub struct Blob(pub Vec<u8>);

impl Blob {
    pub fn new(id: u8, len: usize) -> Blob {
        LEDGER.with(|l| l.borrow_mut().created.push(id));
        let mut v = vec![id; len.max(1)];
        for (i, b) in v.iter_mut().enumerate().skip(1) {
            *b = id.wrapping_add(i as u8);
        }
        Blob(v)
    }
    pub fn id(&self) -> u8 {
        self.0.first().copied().unwrap_or(0)
    }
}

impl Default for Blob {
    fn default() -> Self {
        Blob::new(0xD0, 2)
    }
}

impl Drop for Blob {
    fn drop(&mut self) {
        let id = self.id();
        LEDGER.with(|l| l.borrow_mut().dropped.push(id));
    }
}

/// What generated code does for `list<u8>`: leak the boxed slice into (ptr, len).
pub unsafe fn blob_lower(value: Blob, dst: *mut u8) {
    let id = value.id();
    LEDGER.with(|l| l.borrow_mut().lowered.push(id));
    let mut value = std::mem::ManuallyDrop::new(value);
    let vec = std::mem::take(&mut value.0).into_boxed_slice();
    let ptr = vec.as_ptr() as usize;
    let len = vec.len();
    std::mem::forget(vec);
    unsafe {
        *(dst as *mut usize) = ptr;
        *(dst.add(W) as *mut usize) = len;
    }
}

pub unsafe fn blob_dealloc_lists(dst: *mut u8) {
    unsafe {
        let ptr = *(dst as *const usize);
        let len = *(dst.add(W) as *const usize);
        let id = if len > 0 && crate::alloc::is_live(ptr as *const u8, 1) { *(ptr as *const u8) } else { 0xEE };
        LEDGER.with(|l| l.borrow_mut().dealloc.push(id));
        if len > 0 {
            std::alloc::dealloc(ptr as *mut u8, Layout::from_size_align_unchecked(len, 1));
        }
    }
}

pub unsafe fn blob_lift(dst: *mut u8) -> Blob {
    unsafe {
        let ptr = *(dst as *const usize);
        let len = *(dst.add(W) as *const usize);
        let v = if len == 0 { Vec::new() } else { Vec::from_raw_parts(ptr as *mut u8, len, len) };
        let b = Blob(v);
        let id = b.id();
        LEDGER.with(|l| l.borrow_mut().lifted.push(id));
        b
    }
}

pub static U8S: StreamVtable<u8> = StreamVtable {
    layout: Layout::new::<u8>(),
    lower: None,
    dealloc_lists: None,
    lift: None,
    start_write: host::s_write,
    start_read: host::s_read,
    cancel_write: host::s_cancel_write,
    cancel_read: host::s_cancel_read,
    drop_writable: host::s_drop_writable,
    drop_readable: host::s_drop_readable,
    new: host::s_new_u8,
};

pub static BLOBS: StreamVtable<Blob> = StreamVtable {
    layout: Layout::new::<[usize; 2]>(),
    lower: Some(blob_lower),
    dealloc_lists: Some(blob_dealloc_lists),
    lift: Some(blob_lift),
    start_write: host::s_write,
    start_read: host::s_read,
    cancel_write: host::s_cancel_write,
    cancel_read: host::s_cancel_read,
    drop_writable: host::s_drop_writable,
    drop_readable: host::s_drop_readable,
    new: host::s_new_heap,
};

unsafe fn u8_lower(v: u8, dst: *mut u8) {
    unsafe { *dst = v }
}
unsafe fn u8_dealloc(_dst: *mut u8) {}
unsafe fn u8_lift(dst: *mut u8) -> u8 {
    unsafe { *dst }
}

pub static U8F: FutureVtable<u8> = FutureVtable {
    layout: Layout::new::<u8>(),
    lower: u8_lower,
    dealloc_lists: u8_dealloc,
    lift: u8_lift,
    start_write: host::f_write,
    start_read: host::f_read,
    cancel_write: host::f_cancel_write,
    cancel_read: host::f_cancel_read,
    drop_writable: host::f_drop_writable,
    drop_readable: host::f_drop_readable,
    new: host::f_new_u8,
};

pub static BLOBF: FutureVtable<Blob> = FutureVtable {
    layout: Layout::new::<[usize; 2]>(),
    lower: blob_lower,
    dealloc_lists: blob_dealloc_lists,
    lift: blob_lift,
    start_write: host::f_write,
    start_read: host::f_read,
    cancel_write: host::f_cancel_write,
    cancel_read: host::f_cancel_read,
    drop_writable: host::f_drop_writable,
    drop_readable: host::f_drop_readable,
    new: host::f_new_heap,
};

// ------------------------------------------------------------------ async import (Subtask)

#[derive(Default, Debug, Clone, PartialEq, Eq)]
pub struct ImpCounts {
    pub lower: usize,
    pub dealloc_lists: usize,
    pub dealloc_lists_and_own: usize,
    pub results_lift: usize,
    /// owned handles released by the guest (only legal when cancelled before start)
    pub own_dropped_by_guest: usize,
    pub call_import: usize,
}

thread_local! {
    pub static IMP: RefCell<Vec<ImpCounts>> = RefCell::new(Vec::new());
}

/// An owned resource handle as a parameter: dropping it in the guest is observable.
#[derive(Debug)]
pub struct Own {
    pub handle: usize,
    pub call: usize,
}

impl Drop for Own {
    fn drop(&mut self) {
        IMP.with(|c| c.borrow_mut()[self.call].own_dropped_by_guest += 1);
    }
}

/// Hand-written stand-in for the `Subtask` impl the Rust generator emits for
/// `f: async func(data: list<u8>, h: own<r>) -> R` (flat or indirect parameters).
pub struct Imp {
    pub spec: usize,
    pub call: usize,
    pub indirect: bool,
    pub result: ResKind,
}

#[derive(Debug, PartialEq, Eq)]
pub enum ImpResult {
    None,
    Flat(u32),
    Heap(Vec<u8>),
}

impl Imp {
    pub fn new(indirect: bool, result: ResKind) -> Imp {
        let spec = with(|h| {
            h.imports.push(ImportSpec { indirect, result, result_item: vec![7, 8, 9] });
            h.imports.len() - 1
        });
        let call = IMP.with(|c| {
            c.borrow_mut().push(ImpCounts::default());
            c.borrow().len() - 1
        });
        Imp { spec, call, indirect, result }
    }
    fn count(&self, f: impl FnOnce(&mut ImpCounts)) {
        IMP.with(|c| f(&mut c.borrow_mut()[self.call]));
    }
    pub fn params(&self, id: u8) -> (Vec<u8>, Own) {
        (vec![id, id + 1, id + 2], Own { handle: 100 + id as usize, call: self.call })
    }
}

unsafe impl Subtask for Imp {
    type Params = (Vec<u8>, Own);
    type ParamsLower = (usize, usize, usize);
    type Results = ImpResult;

    fn abi_layout(&mut self) -> Layout {
        // params record (3 words, used when indirect) followed by results (2 words)
        Layout::from_size_align(5 * W, W).unwrap()
    }
    fn results_offset(&mut self) -> usize {
        3 * W
    }
    unsafe fn call_import(&mut self, p: Self::ParamsLower, results: *mut u8) -> u32 {
        self.count(|c| c.call_import += 1);
        with(|h| h.import_call(self.spec, [p.0, p.1, p.2], results as usize))
    }
    unsafe fn params_lower(&mut self, params: Self::Params, dst: *mut u8) -> Self::ParamsLower {
        self.count(|c| c.lower += 1);
        let (data, own) = params;
        let boxed = data.into_boxed_slice();
        let (ptr, len) = (boxed.as_ptr() as usize, boxed.len());
        std::mem::forget(boxed);
        let handle = own.handle;
        std::mem::forget(own); // ownership moves into the lowered form
        if self.indirect {
            unsafe {
                *(dst as *mut usize) = ptr;
                *(dst.add(W) as *mut usize) = len;
                *(dst.add(2 * W) as *mut usize) = handle;
            }
            (dst as usize, 0, 0)
        } else {
            (ptr, len, handle)
        }
    }
    unsafe fn params_dealloc_lists(&mut self, lower: Self::ParamsLower) {
        self.count(|c| c.dealloc_lists += 1);
        let started = with(|h| h.subs.iter().rev().find(|s| s.spec == self.spec).map(|s| s.params_seen.is_some()).unwrap_or(false));
        if !started {
            violation("C21", "params-freed-before-start", "params_dealloc_lists ran before the host reported that the callee started");
        }
        unsafe { self.free_list(lower) }
    }
    unsafe fn params_dealloc_lists_and_own(&mut self, lower: Self::ParamsLower) {
        self.count(|c| c.dealloc_lists_and_own += 1);
        unsafe {
            let t = self.triple(lower);
            self.free_list(lower);
            drop(Own { handle: t.2, call: self.call });
        }
    }
    unsafe fn results_lift(&mut self, src: *mut u8) -> Self::Results {
        self.count(|c| c.results_lift += 1);
        match self.result {
            ResKind::None => ImpResult::None,
            ResKind::Flat => ImpResult::Flat(unsafe { *(src as *const u32) }),
            ResKind::Heap => unsafe {
                let ptr = *(src as *const usize);
                let len = *(src.add(W) as *const usize);
                ImpResult::Heap(if len == 0 { vec![] } else { Vec::from_raw_parts(ptr as *mut u8, len, len) })
            },
        }
    }
}

impl Imp {
    unsafe fn triple(&self, lower: (usize, usize, usize)) -> (usize, usize, usize) {
        if self.indirect {
            let p = lower.0 as *const usize;
            unsafe { (*p, *p.add(1), *p.add(2)) }
        } else {
            lower
        }
    }
    unsafe fn free_list(&self, lower: (usize, usize, usize)) {
        unsafe {
            let (ptr, len, _) = self.triple(lower);
            if len > 0 {
                std::alloc::dealloc(ptr as *mut u8, Layout::from_size_align_unchecked(len, 1));
            }
        }
    }
}

// ------------------------------------------------------------------ drop counters

thread_local! {
    pub static DROPS: RefCell<Vec<usize>> = RefCell::new(Vec::new());
}

/// A guard whose destructor is counted (C22: destructors run exactly once).
pub struct Guard(pub usize);

impl Guard {
    pub fn new() -> Guard {
        DROPS.with(|d| {
            d.borrow_mut().push(0);
            Guard(d.borrow().len() - 1)
        })
    }
}

impl Drop for Guard {
    fn drop(&mut self) {
        DROPS.with(|d| d.borrow_mut()[self.0] += 1);
    }
}

pub fn guard_counts() -> Vec<usize> {
    DROPS.with(|d| d.borrow().clone())
}
