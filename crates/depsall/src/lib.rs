// lock-file anchor only
