//! The canonical ABI, written from the Component Model `CanonicalABI.md` definitions
//! (`alignment`, `elem_size`, `discriminant_type`, `flatten_type`, `join`, `load`, `store`,
//! `lift_flat`, `lower_flat`, `flatten_functype`, `lift_flat_values`, `lower_flat_values`).
//!
//! Nothing here calls into wit-parser or /repo.
//!
//! Assumptions (also echoed in evidence by the engines):
//! * pointer width 8 ("memory64") is the extrapolation in which every `ptr`/length the spec
//!   writes as `i32`/4 bytes becomes `i64`/8 bytes, 8-aligned; everything else is unchanged;
//! * `flags` with more than 32 labels use the pre-2024 multi-`i32` representation
//!   (`ceil(n/32)` `i32`s, 4-aligned); `flags` with 0 labels has size 0, alignment 1, no flat
//!   values (same older text; the current spec requires 0 < n <= 32);
//! * `map<K,V>` is `list<tuple<K,V>>`; `list<T,N>` is the fixed-length list of the spec;
//! * string encoding is utf-8; strings are stored with alignment 1;
//! * NaN payloads: the spec permits canonicalisation, so "any NaN" is a valid image of a NaN.

use crate::ty::{Ty, Val};

/// Pointer width in bytes.
#[derive(Clone, Copy, Debug, PartialEq, Eq, Hash, PartialOrd, Ord)]
pub enum Width {
    W4,
    W8,
}

impl Width {
    pub fn bytes(self) -> u64 {
        match self {
            Width::W4 => 4,
            Width::W8 => 8,
        }
    }
    pub fn both() -> [Width; 2] {
        [Width::W4, Width::W8]
    }
    /// The core type of a pointer / length at this width.
    pub fn ptr_ty(self) -> CoreTy {
        match self {
            Width::W4 => CoreTy::I32,
            Width::W8 => CoreTy::I64,
        }
    }
}

#[derive(Clone, Copy, Debug, PartialEq, Eq, Hash, PartialOrd, Ord)]
pub enum CoreTy {
    I32,
    I64,
    F32,
    F64,
}

/// A core value as a bit pattern (`i32`/`f32`: low 32 bits, high bits zero).
#[derive(Clone, Copy, Debug, PartialEq, Eq, Hash)]
pub struct CoreVal {
    pub ty: CoreTy,
    pub bits: u64,
}

impl CoreVal {
    pub fn i32(x: u32) -> CoreVal {
        CoreVal { ty: CoreTy::I32, bits: x as u64 }
    }
    pub fn i64(x: u64) -> CoreVal {
        CoreVal { ty: CoreTy::I64, bits: x }
    }
    pub fn ptr(w: Width, x: u64) -> CoreVal {
        CoreVal { ty: w.ptr_ty(), bits: x }
    }
}

pub const MAX_FLAT_PARAMS: usize = 16;
pub const MAX_FLAT_RESULTS: usize = 1;
pub const MAX_FLAT_ASYNC_PARAMS: usize = 4;

pub fn align_to(x: u64, a: u64) -> u64 {
    x.div_ceil(a) * a
}

// ---------------------------------------------------------------------------------------------
// despecialisation helpers

/// `discriminant_type(cases)`: byte width of the discriminant (1, 2 or 4).
pub fn discriminant_size(ncases: usize) -> u64 {
    assert!(ncases > 0, "variant without cases");
    // match math.ceil(math.log2(n)/8): 0|1 -> u8, 2 -> u16, 3 -> u32
    if ncases <= 1 << 8 {
        1
    } else if ncases <= 1 << 16 {
        2
    } else {
        4
    }
}

fn num_i32_flags(n: u32) -> u64 {
    (n as u64).div_ceil(32)
}

// ---------------------------------------------------------------------------------------------
// alignment / size

pub fn alignment(t: &Ty, w: Width) -> u64 {
    match t {
        Ty::Bool | Ty::S8 | Ty::U8 => 1,
        Ty::S16 | Ty::U16 => 2,
        Ty::S32 | Ty::U32 | Ty::F32 | Ty::Char => 4,
        Ty::S64 | Ty::U64 | Ty::F64 => 8,
        Ty::String | Ty::List(_) | Ty::Map(..) => w.bytes(),
        Ty::ErrorContext => 4,
        Ty::FixedList(e, _) => alignment(e, w),
        Ty::Record(f) | Ty::Tuple(f) => f.iter().map(|t| alignment(t, w)).max().unwrap_or(1),
        Ty::Variant(_) | Ty::Enum(_) | Ty::Option(_) | Ty::Result(..) => {
            let cases = t.cases().unwrap();
            discriminant_size(cases.len()).max(max_case_alignment(&cases, w))
        }
        Ty::Flags(n) => {
            if *n <= 8 {
                1
            } else if *n <= 16 {
                2
            } else {
                4
            }
        }
        Ty::Own(_) | Ty::Borrow(_) | Ty::Future(_) | Ty::Stream(_) => 4,
    }
}

pub fn max_case_alignment(cases: &[Option<Ty>], w: Width) -> u64 {
    cases
        .iter()
        .flatten()
        .map(|t| alignment(t, w))
        .max()
        .unwrap_or(1)
}

/// `elem_size`
pub fn size(t: &Ty, w: Width) -> u64 {
    match t {
        Ty::Bool | Ty::S8 | Ty::U8 => 1,
        Ty::S16 | Ty::U16 => 2,
        Ty::S32 | Ty::U32 | Ty::F32 | Ty::Char => 4,
        Ty::S64 | Ty::U64 | Ty::F64 => 8,
        Ty::String | Ty::List(_) | Ty::Map(..) => 2 * w.bytes(),
        Ty::ErrorContext => 4,
        Ty::FixedList(e, n) => *n as u64 * size(e, w),
        Ty::Record(f) | Ty::Tuple(f) => record_layout(f, w).1,
        Ty::Variant(_) | Ty::Enum(_) | Ty::Option(_) | Ty::Result(..) => {
            let cases = t.cases().unwrap();
            let mut s = discriminant_size(cases.len());
            s = align_to(s, max_case_alignment(&cases, w));
            s += cases.iter().flatten().map(|t| size(t, w)).max().unwrap_or(0);
            align_to(s, alignment(t, w))
        }
        Ty::Flags(n) => {
            if *n == 0 {
                0
            } else if *n <= 8 {
                1
            } else if *n <= 16 {
                2
            } else {
                4 * num_i32_flags(*n)
            }
        }
        Ty::Own(_) | Ty::Borrow(_) | Ty::Future(_) | Ty::Stream(_) => 4,
    }
}

/// Field offsets and total size of a record / tuple / parameter list laid out as a tuple.
pub fn record_layout(fields: &[Ty], w: Width) -> (Vec<u64>, u64, u64) {
    let mut s = 0u64;
    let mut offs = Vec::new();
    let mut al = 1;
    for f in fields {
        let a = alignment(f, w);
        al = al.max(a);
        s = align_to(s, a);
        offs.push(s);
        s += size(f, w);
    }
    (offs, align_to(s, al), al)
}

/// Offset of the payload of a variant-like type.
pub fn payload_offset(t: &Ty, w: Width) -> u64 {
    let cases = t.cases().expect("payload_offset of non-variant");
    align_to(discriminant_size(cases.len()), max_case_alignment(&cases, w))
}

/// ABI view of a map: `list<tuple<K,V>>`.
pub fn map_entry(k: &Ty, v: &Ty) -> Ty {
    Ty::Tuple(vec![k.clone(), v.clone()])
}

// ---------------------------------------------------------------------------------------------
// flattening

pub fn join(a: CoreTy, b: CoreTy) -> CoreTy {
    if a == b {
        return a;
    }
    match (a, b) {
        (CoreTy::I32, CoreTy::F32) | (CoreTy::F32, CoreTy::I32) => CoreTy::I32,
        _ => CoreTy::I64,
    }
}

pub fn flatten(t: &Ty, w: Width) -> Vec<CoreTy> {
    match t {
        Ty::Bool
        | Ty::S8
        | Ty::U8
        | Ty::S16
        | Ty::U16
        | Ty::S32
        | Ty::U32
        | Ty::Char
        | Ty::ErrorContext
        | Ty::Own(_)
        | Ty::Borrow(_)
        | Ty::Future(_)
        | Ty::Stream(_) => vec![CoreTy::I32],
        Ty::S64 | Ty::U64 => vec![CoreTy::I64],
        Ty::F32 => vec![CoreTy::F32],
        Ty::F64 => vec![CoreTy::F64],
        Ty::String | Ty::List(_) | Ty::Map(..) => vec![w.ptr_ty(), w.ptr_ty()],
        Ty::FixedList(e, n) => {
            let one = flatten(e, w);
            let mut out = Vec::new();
            for _ in 0..*n {
                out.extend(one.iter().copied());
            }
            out
        }
        Ty::Record(f) | Ty::Tuple(f) => f.iter().flat_map(|t| flatten(t, w)).collect(),
        Ty::Variant(_) | Ty::Enum(_) | Ty::Option(_) | Ty::Result(..) => {
            let mut out = vec![CoreTy::I32];
            out.extend(flatten_variant_payload(&t.cases().unwrap(), w));
            out
        }
        Ty::Flags(n) => vec![CoreTy::I32; num_i32_flags(*n) as usize],
    }
}

pub fn flatten_variant_payload(cases: &[Option<Ty>], w: Width) -> Vec<CoreTy> {
    let mut flat: Vec<CoreTy> = Vec::new();
    for c in cases.iter().flatten() {
        for (i, ft) in flatten(c, w).into_iter().enumerate() {
            if i < flat.len() {
                flat[i] = join(flat[i], ft);
            } else {
                flat.push(ft);
            }
        }
    }
    flat
}

pub fn flatten_types(ts: &[Ty], w: Width) -> Vec<CoreTy> {
    ts.iter().flat_map(|t| flatten(t, w)).collect()
}

// ---------------------------------------------------------------------------------------------
// function types

/// Which canonical built-in the core function belongs to.
#[derive(Clone, Copy, Debug, PartialEq, Eq, Hash)]
pub enum Context {
    /// `canon lift`: a core function exported by the guest.
    Lift,
    /// `canon lower`: a core function imported by the guest.
    Lower,
}

#[derive(Clone, Copy, Debug, PartialEq, Eq, Hash)]
pub struct CanonOpts {
    pub async_: bool,
    /// async lift with a `callback` (stackless): the core function returns an `i32` code.
    pub callback: bool,
}

#[derive(Clone, Debug, PartialEq, Eq)]
pub struct CoreSig {
    pub params: Vec<CoreTy>,
    pub results: Vec<CoreTy>,
    /// parameters are passed as one pointer to a tuple-laid-out record
    pub params_indirect: bool,
    /// the result travels through memory: for `Lower` an extra trailing pointer parameter,
    /// for sync `Lift` the single pointer result
    pub result_indirect: bool,
}

/// `flatten_functype(opts, ft, context)`.
pub fn flatten_functype(
    opts: CanonOpts,
    params: &[Ty],
    result: Option<&Ty>,
    context: Context,
    w: Width,
) -> CoreSig {
    let mut flat_params = flatten_types(params, w);
    let mut flat_results = result.map(|t| flatten(t, w)).unwrap_or_default();
    let mut params_indirect = false;
    let mut result_indirect = false;
    let p = w.ptr_ty();
    if !opts.async_ {
        if flat_params.len() > MAX_FLAT_PARAMS {
            flat_params = vec![p];
            params_indirect = true;
        }
        if flat_results.len() > MAX_FLAT_RESULTS {
            result_indirect = true;
            match context {
                Context::Lift => flat_results = vec![p],
                Context::Lower => {
                    flat_params.push(p);
                    flat_results = vec![];
                }
            }
        }
    } else {
        match context {
            Context::Lift => {
                if flat_params.len() > MAX_FLAT_PARAMS {
                    flat_params = vec![p];
                    params_indirect = true;
                }
                flat_results = if opts.callback { vec![CoreTy::I32] } else { vec![] };
            }
            Context::Lower => {
                if flat_params.len() > MAX_FLAT_ASYNC_PARAMS {
                    flat_params = vec![p];
                    params_indirect = true;
                }
                if !flat_results.is_empty() {
                    flat_params.push(p);
                    result_indirect = true;
                }
                flat_results = vec![CoreTy::I32];
            }
        }
    }
    CoreSig { params: flat_params, results: flat_results, params_indirect, result_indirect }
}

/// Core parameter types of `task.return` for a function with this result:
/// `flatten_functype(sync opts, (func (param $result)), 'lower')` — i.e. the result flattened
/// as *parameters* (limit `MAX_FLAT_PARAMS`), otherwise one pointer. `.1` = indirect.
pub fn task_return_params(result: Option<&Ty>, w: Width) -> (Vec<CoreTy>, bool) {
    let flat = result.map(|t| flatten(t, w)).unwrap_or_default();
    if flat.len() > MAX_FLAT_PARAMS {
        (vec![w.ptr_ty()], true)
    } else {
        (flat, false)
    }
}

// ---------------------------------------------------------------------------------------------
// memory

/// Read access to a linear memory. Errors are traps ("out of bounds").
pub trait MemRead {
    fn read(&self, addr: u64, len: u64) -> Result<Vec<u8>, String>;
}

/// The reference linear memory: a growable byte array starting at `base`, a bump allocator, and
/// a *defined-bytes mask*: `store` marks exactly the bytes the spec defines; padding and
/// inactive-variant bytes keep the fill pattern and stay unmarked.
#[derive(Clone, Debug)]
pub struct RefMem {
    pub width: Width,
    pub base: u64,
    pub bytes: Vec<u8>,
    pub defined: Vec<bool>,
    pub fill: u8,
    /// `(addr, size, align)` of every allocation in order (size 0 allocations included).
    pub allocs: Vec<(u64, u64, u64)>,
}

impl RefMem {
    pub fn new(width: Width, base: u64, fill: u8) -> RefMem {
        RefMem { width, base, bytes: vec![], defined: vec![], fill, allocs: vec![] }
    }
    fn end(&self) -> u64 {
        self.base + self.bytes.len() as u64
    }
    /// `realloc(0, 0, align, size)`: fresh block, `align`-aligned, preceded by a small gap.
    pub fn alloc(&mut self, size: u64, align: u64) -> u64 {
        let start = align_to(self.end() + 3, align.max(1));
        let new_len = (start + size - self.base) as usize;
        self.bytes.resize(new_len, self.fill);
        self.defined.resize(new_len, false);
        self.allocs.push((start, size, align));
        start
    }
    pub fn write(&mut self, addr: u64, data: &[u8]) {
        assert!(addr >= self.base && addr + data.len() as u64 <= self.end(), "refmem write oob");
        let o = (addr - self.base) as usize;
        self.bytes[o..o + data.len()].copy_from_slice(data);
        for d in &mut self.defined[o..o + data.len()] {
            *d = true;
        }
    }
    /// Overwrite every *undefined* byte with `fill` (to present the same encoding with different
    /// garbage).
    pub fn refill(&mut self, fill: u8) {
        self.fill = fill;
        for (b, d) in self.bytes.iter_mut().zip(&self.defined) {
            if !*d {
                *b = fill;
            }
        }
    }
}

impl MemRead for RefMem {
    fn read(&self, addr: u64, len: u64) -> Result<Vec<u8>, String> {
        if addr < self.base || addr + len > self.end() {
            return Err(format!("out of bounds read {addr:#x}+{len}"));
        }
        let o = (addr - self.base) as usize;
        Ok(self.bytes[o..o + len as usize].to_vec())
    }
}

fn le(x: u64, n: u64) -> Vec<u8> {
    x.to_le_bytes()[..n as usize].to_vec()
}

fn from_le(b: &[u8]) -> u64 {
    let mut x = [0u8; 8];
    x[..b.len()].copy_from_slice(b);
    u64::from_le_bytes(x)
}

pub fn char_valid(c: u32) -> bool {
    c < 0x110000 && !(0xD800..=0xDFFF).contains(&c)
}

fn flags_to_int(bits: &[bool]) -> u128 {
    let mut i = 0u128;
    for (k, b) in bits.iter().enumerate() {
        if *b {
            i |= 1 << k;
        }
    }
    i
}

// ---------------------------------------------------------------------------------------------
// store

/// `store(cx, v, t, ptr)`. Heap data (strings, lists, maps) is allocated from `mem`.
/// Panics on an ill-typed `(v, t)` pair (harness bug).
pub fn store(mem: &mut RefMem, v: &Val, t: &Ty, ptr: u64) {
    let w = mem.width;
    debug_assert_eq!(ptr % alignment(t, w), 0, "store: misaligned {t} at {ptr:#x}");
    match (t, v) {
        (Ty::Bool, Val::Bool(b)) => mem.write(ptr, &[*b as u8]),
        (Ty::U8 | Ty::U16 | Ty::U32 | Ty::U64, Val::U(x)) => mem.write(ptr, &le(*x, size(t, w))),
        (Ty::S8 | Ty::S16 | Ty::S32 | Ty::S64, Val::S(x)) => {
            mem.write(ptr, &le(*x as u64, size(t, w)))
        }
        (Ty::F32, Val::F32(b)) => mem.write(ptr, &le(*b as u64, 4)),
        (Ty::F64, Val::F64(b)) => mem.write(ptr, &le(*b, 8)),
        (Ty::Char, Val::Char(c)) => mem.write(ptr, &le(*c as u64, 4)),
        (Ty::String, Val::Str(s)) => {
            let p = mem.alloc(s.len() as u64, 1);
            mem.write(p, s.as_bytes());
            mem.write(ptr, &le(p, w.bytes()));
            mem.write(ptr + w.bytes(), &le(s.len() as u64, w.bytes()));
        }
        (Ty::List(e), Val::List(xs)) => {
            let p = store_array(mem, xs, e);
            mem.write(ptr, &le(p, w.bytes()));
            mem.write(ptr + w.bytes(), &le(xs.len() as u64, w.bytes()));
        }
        (Ty::Map(k, x), Val::Map(es)) => {
            let e = map_entry(k, x);
            let xs: Vec<Val> =
                es.iter().map(|(a, b)| Val::Record(vec![a.clone(), b.clone()])).collect();
            let p = store_array(mem, &xs, &e);
            mem.write(ptr, &le(p, w.bytes()));
            mem.write(ptr + w.bytes(), &le(xs.len() as u64, w.bytes()));
        }
        (Ty::FixedList(e, n), Val::List(xs)) => {
            assert_eq!(xs.len(), *n as usize);
            let es = size(e, w);
            for (i, x) in xs.iter().enumerate() {
                store(mem, x, e, ptr + i as u64 * es);
            }
        }
        (Ty::Record(f) | Ty::Tuple(f), Val::Record(xs)) => {
            assert_eq!(xs.len(), f.len());
            let (offs, _, _) = record_layout(f, w);
            for ((ft, x), o) in f.iter().zip(xs).zip(offs) {
                store(mem, x, ft, ptr + o);
            }
        }
        (Ty::Variant(_) | Ty::Enum(_) | Ty::Option(_) | Ty::Result(..), Val::Variant(i, p)) => {
            let cases = t.cases().unwrap();
            let ds = discriminant_size(cases.len());
            mem.write(ptr, &le(*i as u64, ds));
            match (&cases[*i as usize], p) {
                (Some(ct), Some(p)) => store(mem, p, ct, ptr + payload_offset(t, w)),
                (None, None) => {}
                _ => panic!("store: payload mismatch {t} / {v}"),
            }
        }
        (Ty::Flags(n), Val::Flags(bits)) => {
            assert_eq!(bits.len(), *n as usize);
            let i = flags_to_int(bits);
            let s = size(t, w);
            mem.write(ptr, &i.to_le_bytes()[..s as usize]);
        }
        (
            Ty::Own(_) | Ty::Borrow(_) | Ty::Future(_) | Ty::Stream(_) | Ty::ErrorContext,
            Val::Handle(h),
        ) => mem.write(ptr, &le(*h as u64, 4)),
        _ => panic!("store: ill-typed value {v} for {t}"),
    }
}

fn store_array(mem: &mut RefMem, xs: &[Val], e: &Ty) -> u64 {
    let w = mem.width;
    let es = size(e, w);
    let p = mem.alloc(xs.len() as u64 * es, alignment(e, w));
    for (i, x) in xs.iter().enumerate() {
        store(mem, x, e, p + i as u64 * es);
    }
    p
}

// ---------------------------------------------------------------------------------------------
// load

/// `load(cx, ptr, t)`; `Err` = the spec traps.
pub fn load(mem: &dyn MemRead, w: Width, ptr: u64, t: &Ty) -> Result<Val, String> {
    let rd = |a: u64, n: u64| mem.read(a, n).map(|b| from_le(&b));
    Ok(match t {
        Ty::Bool => Val::Bool(rd(ptr, 1)? != 0),
        Ty::U8 | Ty::U16 | Ty::U32 | Ty::U64 => Val::U(rd(ptr, size(t, w))?),
        Ty::S8 | Ty::S16 | Ty::S32 | Ty::S64 => {
            let n = size(t, w);
            let x = rd(ptr, n)?;
            let sh = 64 - 8 * n as u32;
            Val::S(((x << sh) as i64) >> sh)
        }
        Ty::F32 => Val::F32(rd(ptr, 4)? as u32),
        Ty::F64 => Val::F64(rd(ptr, 8)?),
        Ty::Char => {
            let c = rd(ptr, 4)? as u32;
            if !char_valid(c) {
                return Err(format!("invalid char {c:#x}"));
            }
            Val::Char(c)
        }
        Ty::String => {
            let p = rd(ptr, w.bytes())?;
            let n = rd(ptr + w.bytes(), w.bytes())?;
            let b = mem.read(p, n)?;
            Val::Str(String::from_utf8(b).map_err(|_| "invalid utf-8".to_string())?)
        }
        Ty::List(e) => {
            let p = rd(ptr, w.bytes())?;
            let n = rd(ptr + w.bytes(), w.bytes())?;
            Val::List(load_array(mem, w, p, n, e)?)
        }
        Ty::Map(k, x) => {
            let p = rd(ptr, w.bytes())?;
            let n = rd(ptr + w.bytes(), w.bytes())?;
            let es = load_array(mem, w, p, n, &map_entry(k, x))?;
            Val::Map(
                es.into_iter()
                    .map(|e| match e {
                        Val::Record(mut kv) => {
                            let b = kv.pop().unwrap();
                            let a = kv.pop().unwrap();
                            (a, b)
                        }
                        _ => unreachable!(),
                    })
                    .collect(),
            )
        }
        Ty::FixedList(e, n) => {
            let es = size(e, w);
            let mut out = Vec::new();
            for i in 0..*n as u64 {
                out.push(load(mem, w, ptr + i * es, e)?);
            }
            Val::List(out)
        }
        Ty::Record(f) | Ty::Tuple(f) => {
            let (offs, _, _) = record_layout(f, w);
            let mut out = Vec::new();
            for (ft, o) in f.iter().zip(offs) {
                out.push(load(mem, w, ptr + o, ft)?);
            }
            Val::Record(out)
        }
        Ty::Variant(_) | Ty::Enum(_) | Ty::Option(_) | Ty::Result(..) => {
            let cases = t.cases().unwrap();
            let i = rd(ptr, discriminant_size(cases.len()))?;
            if i >= cases.len() as u64 {
                return Err(format!("invalid discriminant {i} for {t}"));
            }
            match &cases[i as usize] {
                None => Val::Variant(i as u32, None),
                Some(ct) => Val::Variant(
                    i as u32,
                    Some(Box::new(load(mem, w, ptr + payload_offset(t, w), ct)?)),
                ),
            }
        }
        Ty::Flags(n) => {
            let b = mem.read(ptr, size(t, w))?;
            Val::Flags((0..*n as usize).map(|k| b[k / 8] >> (k % 8) & 1 == 1).collect())
        }
        Ty::Own(_) | Ty::Borrow(_) | Ty::Future(_) | Ty::Stream(_) | Ty::ErrorContext => {
            Val::Handle(rd(ptr, 4)? as u32)
        }
    })
}

/// `load_list_from_range`: traps on a misaligned pointer.
pub fn load_array(
    mem: &dyn MemRead,
    w: Width,
    p: u64,
    n: u64,
    e: &Ty,
) -> Result<Vec<Val>, String> {
    if p % alignment(e, w) != 0 {
        return Err(format!("misaligned list pointer {p:#x} for element {e}"));
    }
    let es = size(e, w);
    if n.checked_mul(es).is_none() || n > 1 << 24 {
        return Err(format!("list length {n} out of range"));
    }
    // bounds check of the whole range first, as the spec does
    mem.read(p, n * es)?;
    let mut out = Vec::new();
    for i in 0..n {
        out.push(load(mem, w, p + i * es, e)?);
    }
    Ok(out)
}

// ---------------------------------------------------------------------------------------------
// flat lowering / lifting

/// `lower_flat(cx, v, t)`.
pub fn lower_flat(mem: &mut RefMem, v: &Val, t: &Ty) -> Vec<CoreVal> {
    let w = mem.width;
    match (t, v) {
        (Ty::Bool, Val::Bool(b)) => vec![CoreVal::i32(*b as u32)],
        (Ty::U8 | Ty::U16 | Ty::U32, Val::U(x)) => vec![CoreVal::i32(*x as u32)],
        (Ty::U64, Val::U(x)) => vec![CoreVal::i64(*x)],
        // lower_flat_signed: negative values wrap to the core width (sign extension)
        (Ty::S8 | Ty::S16 | Ty::S32, Val::S(x)) => vec![CoreVal::i32(*x as i32 as u32)],
        (Ty::S64, Val::S(x)) => vec![CoreVal::i64(*x as u64)],
        (Ty::F32, Val::F32(b)) => vec![CoreVal { ty: CoreTy::F32, bits: *b as u64 }],
        (Ty::F64, Val::F64(b)) => vec![CoreVal { ty: CoreTy::F64, bits: *b }],
        (Ty::Char, Val::Char(c)) => vec![CoreVal::i32(*c)],
        (Ty::String, Val::Str(s)) => {
            let p = mem.alloc(s.len() as u64, 1);
            mem.write(p, s.as_bytes());
            vec![CoreVal::ptr(w, p), CoreVal::ptr(w, s.len() as u64)]
        }
        (Ty::List(e), Val::List(xs)) => {
            let p = store_array(mem, xs, e);
            vec![CoreVal::ptr(w, p), CoreVal::ptr(w, xs.len() as u64)]
        }
        (Ty::Map(k, x), Val::Map(es)) => {
            let xs: Vec<Val> =
                es.iter().map(|(a, b)| Val::Record(vec![a.clone(), b.clone()])).collect();
            let p = store_array(mem, &xs, &map_entry(k, x));
            vec![CoreVal::ptr(w, p), CoreVal::ptr(w, xs.len() as u64)]
        }
        (Ty::FixedList(e, n), Val::List(xs)) => {
            assert_eq!(xs.len(), *n as usize);
            xs.iter().flat_map(|x| lower_flat(mem, x, e)).collect()
        }
        (Ty::Record(f) | Ty::Tuple(f), Val::Record(xs)) => {
            assert_eq!(xs.len(), f.len());
            f.iter().zip(xs).flat_map(|(t, x)| lower_flat(mem, x, t)).collect()
        }
        (Ty::Variant(_) | Ty::Enum(_) | Ty::Option(_) | Ty::Result(..), Val::Variant(i, p)) => {
            let cases = t.cases().unwrap();
            let joined = flatten_variant_payload(&cases, w);
            let mut out = vec![CoreVal::i32(*i)];
            let mut k = 0;
            if let (Some(ct), Some(p)) = (&cases[*i as usize], p) {
                for fv in lower_flat(mem, p, ct) {
                    let want = joined[k];
                    k += 1;
                    // (f32,i32) reinterpret; (i32,i64) zero-extend; (f32,i64) reinterpret then
                    // zero-extend; (f64,i64) reinterpret — on bit patterns all four are "same bits"
                    match (fv.ty, want) {
                        (a, b) if a == b => {}
                        (CoreTy::F32, CoreTy::I32)
                        | (CoreTy::I32, CoreTy::I64)
                        | (CoreTy::F32, CoreTy::I64)
                        | (CoreTy::F64, CoreTy::I64) => {}
                        (a, b) => panic!("lower_flat_variant: {a:?} into {b:?}"),
                    }
                    out.push(CoreVal { ty: want, bits: fv.bits });
                }
            }
            for want in &joined[k..] {
                out.push(CoreVal { ty: *want, bits: 0 });
            }
            out
        }
        (Ty::Flags(n), Val::Flags(bits)) => {
            let i = flags_to_int(bits);
            (0..num_i32_flags(*n)).map(|k| CoreVal::i32((i >> (32 * k)) as u32)).collect()
        }
        (
            Ty::Own(_) | Ty::Borrow(_) | Ty::Future(_) | Ty::Stream(_) | Ty::ErrorContext,
            Val::Handle(h),
        ) => vec![CoreVal::i32(*h)],
        _ => panic!("lower_flat: ill-typed value {v} for {t}"),
    }
}

/// Iterator over core values with the type check the spec's `CoreValueIter.next(t)` performs.
pub struct FlatIter<'a> {
    pub vals: &'a [CoreVal],
    pub pos: usize,
}

impl FlatIter<'_> {
    fn next(&mut self, want: CoreTy) -> Result<u64, String> {
        let v = self.vals.get(self.pos).ok_or("flat values exhausted")?;
        self.pos += 1;
        if v.ty != want {
            return Err(format!("flat value {} has type {:?}, expected {want:?}", self.pos - 1, v.ty));
        }
        Ok(v.bits)
    }
}

/// `lift_flat(cx, vi, t)`; `Err` = trap.
pub fn lift_flat(mem: &dyn MemRead, w: Width, vi: &mut FlatIter, t: &Ty) -> Result<Val, String> {
    lift_flat_as(mem, w, vi, t, None)
}

/// `joined`: when lifting a variant payload, the (already popped) list of joined slot types still
/// to be consumed — implements `CoerceValueIter`.
fn lift_flat_as(
    mem: &dyn MemRead,
    w: Width,
    vi: &mut FlatIter,
    t: &Ty,
    joined: Option<&mut std::collections::VecDeque<CoreTy>>,
) -> Result<Val, String> {
    // A coercing `next`.
    struct Nx<'a, 'b, 'c> {
        vi: &'a mut FlatIter<'b>,
        joined: Option<&'c mut std::collections::VecDeque<CoreTy>>,
    }
    impl Nx<'_, '_, '_> {
        fn next(&mut self, want: CoreTy) -> Result<u64, String> {
            match &mut self.joined {
                None => self.vi.next(want),
                Some(j) => {
                    let have = j.pop_front().ok_or("joined types exhausted")?;
                    let x = self.vi.next(have)?;
                    Ok(match (have, want) {
                        (a, b) if a == b => x,
                        (CoreTy::I32, CoreTy::F32) => x,
                        (CoreTy::I64, CoreTy::I32) => x & 0xffff_ffff,
                        (CoreTy::I64, CoreTy::F32) => x & 0xffff_ffff,
                        (CoreTy::I64, CoreTy::F64) => x,
                        (a, b) => return Err(format!("cannot coerce {a:?} to {b:?}")),
                    })
                }
            }
        }
    }
    let mut nx = Nx { vi, joined };
    let p = w.ptr_ty();
    Ok(match t {
        Ty::Bool => Val::Bool(nx.next(CoreTy::I32)? != 0),
        Ty::U8 => Val::U(nx.next(CoreTy::I32)? & 0xff),
        Ty::U16 => Val::U(nx.next(CoreTy::I32)? & 0xffff),
        Ty::U32 => Val::U(nx.next(CoreTy::I32)? & 0xffff_ffff),
        Ty::U64 => Val::U(nx.next(CoreTy::I64)?),
        Ty::S8 => Val::S(nx.next(CoreTy::I32)? as u8 as i8 as i64),
        Ty::S16 => Val::S(nx.next(CoreTy::I32)? as u16 as i16 as i64),
        Ty::S32 => Val::S(nx.next(CoreTy::I32)? as u32 as i32 as i64),
        Ty::S64 => Val::S(nx.next(CoreTy::I64)? as i64),
        Ty::F32 => Val::F32(nx.next(CoreTy::F32)? as u32),
        Ty::F64 => Val::F64(nx.next(CoreTy::F64)?),
        Ty::Char => {
            let c = nx.next(CoreTy::I32)? as u32;
            if !char_valid(c) {
                return Err(format!("invalid char {c:#x}"));
            }
            Val::Char(c)
        }
        Ty::String => {
            let a = nx.next(p)?;
            let n = nx.next(p)?;
            let b = mem.read(a, n)?;
            Val::Str(String::from_utf8(b).map_err(|_| "invalid utf-8".to_string())?)
        }
        Ty::List(e) => {
            let a = nx.next(p)?;
            let n = nx.next(p)?;
            Val::List(load_array(mem, w, a, n, e)?)
        }
        Ty::Map(k, x) => {
            let a = nx.next(p)?;
            let n = nx.next(p)?;
            let es = load_array(mem, w, a, n, &map_entry(k, x))?;
            Val::Map(
                es.into_iter()
                    .map(|e| match e {
                        Val::Record(mut kv) => {
                            let b = kv.pop().unwrap();
                            let a = kv.pop().unwrap();
                            (a, b)
                        }
                        _ => unreachable!(),
                    })
                    .collect(),
            )
        }
        Ty::FixedList(e, n) => {
            let mut out = Vec::new();
            for _ in 0..*n {
                out.push(lift_flat_as(mem, w, nx.vi, e, nx.joined.as_deref_mut())?);
            }
            Val::List(out)
        }
        Ty::Record(f) | Ty::Tuple(f) => {
            let mut out = Vec::new();
            for ft in f {
                out.push(lift_flat_as(mem, w, nx.vi, ft, nx.joined.as_deref_mut())?);
            }
            Val::Record(out)
        }
        Ty::Variant(_) | Ty::Enum(_) | Ty::Option(_) | Ty::Result(..) => {
            let cases = t.cases().unwrap();
            let i = nx.next(CoreTy::I32)?;
            if i >= cases.len() as u64 {
                return Err(format!("invalid discriminant {i} for {t}"));
            }
            // The payload slots are read at the *joined* types of this variant, through the
            // outer coercion (if any) slot by slot.
            let my_joined = flatten_variant_payload(&cases, w);
            // materialise the payload slots at my joined types
            let mut slots = Vec::new();
            for jt in &my_joined {
                slots.push(CoreVal { ty: *jt, bits: nx.next(*jt)? });
            }
            let mut inner = FlatIter { vals: &slots, pos: 0 };
            let mut dq: std::collections::VecDeque<CoreTy> = my_joined.iter().copied().collect();
            match &cases[i as usize] {
                None => Val::Variant(i as u32, None),
                Some(ct) => Val::Variant(
                    i as u32,
                    Some(Box::new(lift_flat_as(mem, w, &mut inner, ct, Some(&mut dq))?)),
                ),
            }
        }
        Ty::Flags(n) => {
            let mut i: u128 = 0;
            for k in 0..num_i32_flags(*n) {
                i |= (nx.next(CoreTy::I32)? as u128) << (32 * k);
            }
            Val::Flags((0..*n).map(|k| i >> k & 1 == 1).collect())
        }
        Ty::Own(_) | Ty::Borrow(_) | Ty::Future(_) | Ty::Stream(_) | Ty::ErrorContext => {
            Val::Handle(nx.next(CoreTy::I32)? as u32)
        }
    })
}

// ---------------------------------------------------------------------------------------------
// whole parameter / result lists

/// How a list of values crosses the boundary.
#[derive(Clone, Debug, PartialEq)]
pub enum Lowered {
    Flat(Vec<CoreVal>),
    /// pointer to a tuple-laid-out record (`size`, `align`)
    Indirect { ptr: u64, size: u64, align: u64 },
}

/// `lower_flat_values(cx, max_flat, vs, ts, out_param)`: `out_ptr = Some(p)` stores into
/// caller-provided memory, `None` allocates.
pub fn lower_flat_values(
    mem: &mut RefMem,
    max_flat: usize,
    vs: &[Val],
    ts: &[Ty],
    out_ptr: Option<u64>,
) -> Lowered {
    let w = mem.width;
    if flatten_types(ts, w).len() > max_flat {
        let (offs, sz, al) = record_layout(ts, w);
        let ptr = out_ptr.unwrap_or_else(|| mem.alloc(sz, al));
        assert_eq!(ptr % al, 0);
        for ((t, v), o) in ts.iter().zip(vs).zip(offs) {
            store(mem, v, t, ptr + o);
        }
        Lowered::Indirect { ptr, size: sz, align: al }
    } else {
        Lowered::Flat(ts.iter().zip(vs).flat_map(|(t, v)| lower_flat(mem, v, t)).collect())
    }
}

/// `lift_flat_values(cx, max_flat, vi, ts)`.
pub fn lift_flat_values(
    mem: &dyn MemRead,
    w: Width,
    max_flat: usize,
    flat: &[CoreVal],
    ts: &[Ty],
) -> Result<Vec<Val>, String> {
    let mut vi = FlatIter { vals: flat, pos: 0 };
    if flatten_types(ts, w).len() > max_flat {
        let ptr = vi.next(w.ptr_ty())?;
        let (offs, sz, al) = record_layout(ts, w);
        if ptr % al != 0 {
            return Err("misaligned parameter record".into());
        }
        mem.read(ptr, sz)?;
        let mut out = Vec::new();
        for (t, o) in ts.iter().zip(offs) {
            out.push(load(mem, w, ptr + o, t)?);
        }
        Ok(out)
    } else {
        let mut out = Vec::new();
        for t in ts {
            out.push(lift_flat(mem, w, &mut vi, t)?);
        }
        if vi.pos != flat.len() {
            return Err("unconsumed flat values".into());
        }
        Ok(out)
    }
}

// ---------------------------------------------------------------------------------------------
// encoding comparison helpers

/// Which flat slots of `lower_flat(v, t)` are pointers into linear memory, and what they point
/// at: `(slot index of the pointer, element type, element count)`; the length sits in slot+1.
/// Strings are reported as `(slot, u8, byte length)`.
pub fn flat_pointer_slots(t: &Ty, v: &Val, w: Width) -> Vec<(usize, Ty, u64)> {
    fn go(t: &Ty, v: &Val, w: Width, at: usize, out: &mut Vec<(usize, Ty, u64)>) {
        match (t, v) {
            (Ty::String, Val::Str(s)) => out.push((at, Ty::U8, s.len() as u64)),
            (Ty::List(e), Val::List(xs)) => out.push((at, (**e).clone(), xs.len() as u64)),
            (Ty::Map(k, x), Val::Map(es)) => out.push((at, map_entry(k, x), es.len() as u64)),
            (Ty::FixedList(e, _), Val::List(xs)) => {
                let n = flatten(e, w).len();
                for (i, x) in xs.iter().enumerate() {
                    go(e, x, w, at + i * n, out);
                }
            }
            (Ty::Record(f) | Ty::Tuple(f), Val::Record(xs)) => {
                let mut at = at;
                for (ft, x) in f.iter().zip(xs) {
                    go(ft, x, w, at, out);
                    at += flatten(ft, w).len();
                }
            }
            (_, Val::Variant(i, Some(p))) => {
                if let Some(Some(ct)) = t.cases().and_then(|c| c.get(*i as usize).cloned()) {
                    go(&ct, p, w, at + 1, out);
                }
            }
            _ => {}
        }
    }
    let mut out = Vec::new();
    go(t, v, w, 0, &mut out);
    out
}

/// Canonical description of the *defined* part of an in-memory encoding: scalars as their bytes,
/// variants as discriminant + active payload, lists/strings/maps as length + pointee (the pointer
/// value itself is abstracted away, its alignment is checked). Two encodings of the same value
/// are spec-equal iff their canonical forms are equal.
#[derive(Clone, Debug, PartialEq, Eq)]
pub enum Canon {
    Bytes(Vec<u8>),
    Seq(Vec<Canon>),
    Case(u64, Option<Box<Canon>>),
    Heap { len: u64, elems: Vec<Canon> },
}

pub fn canon_mem(mem: &dyn MemRead, w: Width, ptr: u64, t: &Ty) -> Result<Canon, String> {
    let rd = |a: u64, n: u64| mem.read(a, n).map(|b| from_le(&b));
    Ok(match t {
        Ty::String | Ty::List(_) | Ty::Map(..) => {
            let p = rd(ptr, w.bytes())?;
            let n = rd(ptr + w.bytes(), w.bytes())?;
            let e = match t {
                Ty::String => Ty::U8,
                Ty::List(e) => (**e).clone(),
                Ty::Map(k, x) => map_entry(k, x),
                _ => unreachable!(),
            };
            canon_array(mem, w, p, n, &e)?
        }
        Ty::FixedList(e, n) => {
            let es = size(e, w);
            let mut out = Vec::new();
            for i in 0..*n as u64 {
                out.push(canon_mem(mem, w, ptr + i * es, e)?);
            }
            Canon::Seq(out)
        }
        Ty::Record(f) | Ty::Tuple(f) => {
            let (offs, _, _) = record_layout(f, w);
            let mut out = Vec::new();
            for (ft, o) in f.iter().zip(offs) {
                out.push(canon_mem(mem, w, ptr + o, ft)?);
            }
            Canon::Seq(out)
        }
        Ty::Variant(_) | Ty::Enum(_) | Ty::Option(_) | Ty::Result(..) => {
            let cases = t.cases().unwrap();
            let i = rd(ptr, discriminant_size(cases.len()))?;
            if i >= cases.len() as u64 {
                return Err(format!("invalid discriminant {i} for {t}"));
            }
            match &cases[i as usize] {
                None => Canon::Case(i, None),
                Some(ct) => {
                    Canon::Case(i, Some(Box::new(canon_mem(mem, w, ptr + payload_offset(t, w), ct)?)))
                }
            }
        }
        _ => Canon::Bytes(mem.read(ptr, size(t, w))?),
    })
}

pub fn canon_array(mem: &dyn MemRead, w: Width, p: u64, n: u64, e: &Ty) -> Result<Canon, String> {
    let es = size(e, w);
    if n > 1 << 24 {
        return Err(format!("list length {n} out of range"));
    }
    if n * es > 0 {
        if p % alignment(e, w) != 0 {
            return Err(format!("misaligned list pointer {p:#x} for element {e}"));
        }
        mem.read(p, n * es)?;
    }
    let mut elems = Vec::new();
    for i in 0..n {
        elems.push(canon_mem(mem, w, p + i * es, e)?);
    }
    Ok(Canon::Heap { len: n, elems })
}

/// Heap buffers `store`/`lower_flat` allocate for `v`, as `(size, align)` in allocation order,
/// size-0 buffers omitted. This is what a cleanup must free.
pub fn heap_buffers(t: &Ty, v: &Val, w: Width, out: &mut Vec<(u64, u64)>) {
    let mut push = |s: u64, a: u64| {
        if s > 0 {
            out.push((s, a))
        }
    };
    match (t, v) {
        (Ty::String, Val::Str(s)) => push(s.len() as u64, 1),
        (Ty::List(e), Val::List(xs)) => {
            push(xs.len() as u64 * size(e, w), alignment(e, w));
            for x in xs {
                heap_buffers(e, x, w, out);
            }
        }
        (Ty::Map(k, x), Val::Map(es)) => {
            let e = map_entry(k, x);
            push(es.len() as u64 * size(&e, w), alignment(&e, w));
            for (a, b) in es {
                heap_buffers(k, a, w, out);
                heap_buffers(x, b, w, out);
            }
        }
        (Ty::FixedList(e, _), Val::List(xs)) => {
            for x in xs {
                heap_buffers(e, x, w, out);
            }
        }
        (Ty::Record(f) | Ty::Tuple(f), Val::Record(xs)) => {
            for (ft, x) in f.iter().zip(xs) {
                heap_buffers(ft, x, w, out);
            }
        }
        (_, Val::Variant(i, Some(p))) => {
            if let Some(Some(ct)) = t.cases().and_then(|c| c.get(*i as usize).cloned()) {
                heap_buffers(&ct, p, w, out);
            }
        }
        _ => {}
    }
}

/// Flat slot indices of `lower_flat(v, t)` that carry no information for this value (joined
/// variant slots beyond the active case's payload). `lift_flat` ignores their contents.
pub fn flat_unused_slots(t: &Ty, v: &Val, w: Width) -> Vec<usize> {
    fn go(t: &Ty, v: &Val, w: Width, at: usize, out: &mut Vec<usize>) {
        match (t, v) {
            (Ty::FixedList(e, _), Val::List(xs)) => {
                let n = flatten(e, w).len();
                for (i, x) in xs.iter().enumerate() {
                    go(e, x, w, at + i * n, out);
                }
            }
            (Ty::Record(f) | Ty::Tuple(f), Val::Record(xs)) => {
                let mut at = at;
                for (ft, x) in f.iter().zip(xs) {
                    go(ft, x, w, at, out);
                    at += flatten(ft, w).len();
                }
            }
            (_, Val::Variant(i, p)) => {
                if let Some(cases) = t.cases() {
                    let total = flatten_variant_payload(&cases, w).len();
                    let used = match (&cases[*i as usize], p) {
                        (Some(ct), Some(p)) => {
                            go(ct, p, w, at + 1, out);
                            flatten(ct, w).len()
                        }
                        _ => 0,
                    };
                    out.extend(at + 1 + used..at + 1 + total);
                }
            }
            _ => {}
        }
    }
    let mut out = Vec::new();
    go(t, v, w, 0, &mut out);
    out
}
