//! Printing a `Ty` environment as WIT text and parsing it back through `wit-parser` to obtain the
//! `Resolve` / `TypeId`s the code under test needs. wit-parser is used here as a *parser* only.

use crate::ty::Ty;
use std::collections::BTreeMap;
use std::fmt::Write;
use wit_parser::{Function, InterfaceId, Resolve, Type, TypeId, WorldId};

/// A function to print: `name: [async] func(p0: T0, …) [-> R]`.
#[derive(Clone, Debug)]
pub struct FuncDecl {
    pub name: String,
    pub params: Vec<Ty>,
    pub result: Option<Ty>,
    pub async_: bool,
}

/// Builder for one WIT document: package `t:t`, interface `i` holding every named type, the
/// root aliases `type <root> = …` and the functions; world `w` imports (and optionally exports) `i`.
#[derive(Default)]
pub struct WitDoc {
    defs: String,
    names: BTreeMap<Ty, String>,
    next: usize,
    resources: Vec<u32>,
    roots: Vec<String>,
    funcs: Vec<String>,
    pub export_too: bool,
}

impl WitDoc {
    pub fn new() -> WitDoc {
        WitDoc::default()
    }

    /// WIT type expression for `t`, emitting definitions for record / variant / enum / flags
    /// (which WIT only allows as named types) on the way.
    pub fn expr(&mut self, t: &Ty) -> String {
        match t {
            Ty::Bool => "bool".into(),
            Ty::S8 => "s8".into(),
            Ty::U8 => "u8".into(),
            Ty::S16 => "s16".into(),
            Ty::U16 => "u16".into(),
            Ty::S32 => "s32".into(),
            Ty::U32 => "u32".into(),
            Ty::S64 => "s64".into(),
            Ty::U64 => "u64".into(),
            Ty::F32 => "f32".into(),
            Ty::F64 => "f64".into(),
            Ty::Char => "char".into(),
            Ty::String => "string".into(),
            Ty::ErrorContext => "error-context".into(),
            Ty::List(e) => format!("list<{}>", self.expr(e)),
            Ty::FixedList(e, n) => format!("list<{}, {n}>", self.expr(e)),
            Ty::Map(k, v) => format!("map<{}, {}>", self.expr(k), self.expr(v)),
            Ty::Tuple(f) => {
                let parts: Vec<String> = f.iter().map(|t| self.expr(t)).collect();
                format!("tuple<{}>", parts.join(", "))
            }
            Ty::Option(e) => format!("option<{}>", self.expr(e)),
            Ty::Result(a, b) => match (a, b) {
                (None, None) => "result".into(),
                (Some(a), None) => format!("result<{}>", self.expr(a)),
                (None, Some(b)) => format!("result<_, {}>", self.expr(b)),
                (Some(a), Some(b)) => format!("result<{}, {}>", self.expr(a), self.expr(b)),
            },
            Ty::Own(r) => {
                self.resource(*r);
                format!("own<res{r}>")
            }
            Ty::Borrow(r) => {
                self.resource(*r);
                format!("borrow<res{r}>")
            }
            Ty::Future(None) => "future".into(),
            Ty::Future(Some(p)) => format!("future<{}>", self.expr(p)),
            Ty::Stream(None) => "stream".into(),
            Ty::Stream(Some(p)) => format!("stream<{}>", self.expr(p)),
            Ty::Record(_) | Ty::Variant(_) | Ty::Enum(_) | Ty::Flags(_) => {
                if let Some(n) = self.names.get(t) {
                    return n.clone();
                }
                let body = match t {
                    Ty::Record(f) => {
                        let parts: Vec<String> = f
                            .iter()
                            .enumerate()
                            .map(|(i, t)| format!("f{i}: {}", self.expr(t)))
                            .collect();
                        format!("record {{NAME}} {{ {} }}", parts.join(", "))
                    }
                    Ty::Variant(c) => {
                        let parts: Vec<String> = c
                            .iter()
                            .enumerate()
                            .map(|(i, t)| match t {
                                None => format!("c{i}"),
                                Some(t) => format!("c{i}({})", self.expr(t)),
                            })
                            .collect();
                        format!("variant {{NAME}} {{ {} }}", parts.join(", "))
                    }
                    Ty::Enum(n) => {
                        let parts: Vec<String> = (0..*n).map(|i| format!("e{i}")).collect();
                        format!("enum {{NAME}} {{ {} }}", parts.join(", "))
                    }
                    Ty::Flags(n) => {
                        let parts: Vec<String> = (0..*n).map(|i| format!("b{i}")).collect();
                        format!("flags {{NAME}} {{ {} }}", parts.join(", "))
                    }
                    _ => unreachable!(),
                };
                let name = format!("t{}", self.next);
                self.next += 1;
                writeln!(self.defs, "  {}", body.replace("{NAME}", &name)).unwrap();
                self.names.insert(t.clone(), name.clone());
                name
            }
        }
    }

    fn resource(&mut self, r: u32) {
        if !self.resources.contains(&r) {
            self.resources.push(r);
        }
    }

    /// Add `type <name> = <t>;` (name must be a valid kebab identifier, e.g. `root7`).
    pub fn root(&mut self, name: &str, t: &Ty) {
        let e = self.expr(t);
        writeln!(self.defs, "  type {name} = {e};").unwrap();
        self.roots.push(name.to_string());
    }

    pub fn func(&mut self, f: &FuncDecl) {
        let params: Vec<String> = f
            .params
            .iter()
            .enumerate()
            .map(|(i, t)| format!("p{i}: {}", self.expr(t)))
            .collect();
        let res = match &f.result {
            None => String::new(),
            Some(t) => format!(" -> {}", self.expr(t)),
        };
        self.funcs.push(format!(
            "  {}: {}func({}){};",
            f.name,
            if f.async_ { "async " } else { "" },
            params.join(", "),
            res
        ));
    }

    /// Add a verbatim line to the interface body (e.g. a function that refers to root aliases).
    pub fn func_raw(&mut self, line: &str) {
        self.funcs.push(line.to_string());
    }

    pub fn text(&self) -> String {
        let mut s = String::from("package t:t;\n\ninterface i {\n");
        for r in &self.resources {
            writeln!(s, "  resource res{r};").unwrap();
        }
        s.push_str(&self.defs);
        for f in &self.funcs {
            s.push_str(f);
            s.push('\n');
        }
        s.push_str("}\n\nworld w {\n  import i;\n");
        if self.export_too {
            s.push_str("  export i;\n");
        }
        s.push_str("}\n");
        s
    }
}

/// A parsed document.
pub struct Parsed {
    pub resolve: Resolve,
    pub world: WorldId,
    pub iface: InterfaceId,
    pub text: String,
}

impl Parsed {
    /// The `Type` of a root alias (`Type::Id` of the alias typedef).
    pub fn root(&self, name: &str) -> Type {
        let id: TypeId = *self.resolve.interfaces[self.iface]
            .types
            .get(name)
            .unwrap_or_else(|| panic!("no root type {name}"));
        Type::Id(id)
    }
    pub fn func(&self, name: &str) -> &Function {
        self.resolve.interfaces[self.iface]
            .functions
            .get(name)
            .unwrap_or_else(|| panic!("no function {name}"))
    }
}

/// Parse WIT text; `Err` carries wit-parser's message (the shape is then "not valid WIT").
pub fn parse(text: &str) -> Result<Parsed, String> {
    let mut resolve = Resolve::default();
    let pkg = resolve.push_str("t.wit", text).map_err(|e| format!("{e:#}"))?;
    let world = resolve.select_world(&[pkg], Some("w")).map_err(|e| format!("{e:#}"))?;
    let iface = *resolve.packages[pkg]
        .interfaces
        .get("i")
        .ok_or_else(|| "interface i missing".to_string())?;
    Ok(Parsed { resolve, world, iface, text: text.to_string() })
}
