//! Deterministic enumerator of WIT types (U1, layout pairs, U2, reduced depth-3 U3r) and of the
//! per-type boundary value alphabets V(T). Every bound is a constant in this file and is echoed
//! by `bounds_json()`.

use crate::ty::{bx, Ty, Val};
use serde_json::{json, Value};
use std::collections::BTreeSet;

/// Leaf alphabet L (+ the handle-like leaves the ABI treats as an `i32`).
pub fn leaves() -> Vec<Ty> {
    vec![
        Ty::Bool,
        Ty::U8,
        Ty::S8,
        Ty::U16,
        Ty::S16,
        Ty::U32,
        Ty::S32,
        Ty::U64,
        Ty::S64,
        Ty::F32,
        Ty::F64,
        Ty::Char,
        Ty::String,
        Ty::ErrorContext,
        Ty::Own(0),
        Ty::Borrow(0),
    ]
}

/// Layout classes Lc: sizes 1/2/4/8, the two floats (joins), and the pointer pair.
pub fn layout_classes() -> Vec<Ty> {
    vec![Ty::U8, Ty::U16, Ty::U32, Ty::U64, Ty::F32, Ty::F64, Ty::String]
}

/// Reduced alphabet for depth 3.
pub fn reduced_leaves() -> Vec<Ty> {
    vec![Ty::U8, Ty::U64, Ty::F32, Ty::String]
}

pub const ENUM_SIZES: [u32; 4] = [1, 2, 256, 257];
pub const FLAGS_SIZES: [u32; 10] = [0, 1, 8, 9, 16, 17, 32, 33, 64, 65];
pub const FIXED_LENS: [u32; 3] = [1, 2, 3];

fn map_keys() -> Vec<Ty> {
    vec![Ty::U8, Ty::U32, Ty::String, Ty::Char]
}

/// The full constructor set K applied to one type `x` (used for U1).
pub fn k_full(x: &Ty) -> Vec<Ty> {
    let b = || bx(x.clone());
    let s = || Some(x.clone());
    let mut out = vec![
        Ty::List(b()),
        Ty::Option(b()),
        Ty::Result(Some(b()), Some(b())),
        Ty::Result(Some(b()), None),
        Ty::Result(None, Some(b())),
        Ty::Tuple(vec![x.clone()]),
        Ty::Tuple(vec![x.clone(); 2]),
        Ty::Tuple(vec![x.clone(); 3]),
        Ty::Record(vec![x.clone()]),
        Ty::Record(vec![x.clone(); 2]),
        Ty::Record(vec![x.clone(); 3]),
        Ty::Variant(vec![s(), None]),
        Ty::Variant(vec![None, s()]),
        Ty::Variant(vec![s(), s()]),
        Ty::Variant(vec![None, s(), None]),
        Ty::Variant(vec![s(), s(), s()]),
        Ty::Future(Some(b())),
        Ty::Stream(Some(b())),
    ];
    for n in FIXED_LENS {
        out.push(Ty::FixedList(b(), n));
    }
    for k in map_keys() {
        out.push(Ty::Map(bx(k), b()));
    }
    out
}

/// Types that do not take a type argument.
pub fn nullary() -> Vec<Ty> {
    let mut out = vec![Ty::Result(None, None), Ty::Future(None), Ty::Stream(None)];
    out.extend(ENUM_SIZES.iter().map(|n| Ty::Enum(*n)));
    out.extend(FLAGS_SIZES.iter().map(|n| Ty::Flags(*n)));
    out
}

/// The reduced unary constructor set Kc used for composition (padding before / after, joins with
/// nothing, heap indirection, fixed arrays, maps).
pub fn k_comp(x: &Ty) -> Vec<Ty> {
    let b = || bx(x.clone());
    vec![
        Ty::List(b()),
        Ty::Option(b()),
        Ty::Result(Some(b()), None),
        Ty::Result(None, Some(b())),
        Ty::Result(Some(b()), Some(b())),
        Ty::Tuple(vec![x.clone(), x.clone()]),
        Ty::Record(vec![Ty::U8, x.clone()]),
        Ty::Record(vec![x.clone(), Ty::U8]),
        Ty::Variant(vec![None, Some(x.clone())]),
        Ty::FixedList(b(), 2),
        Ty::Map(bx(Ty::U32), b()),
        Ty::Map(bx(Ty::String), b()),
    ]
}

/// Binary shapes over two (different) layout classes: where padding and joins live.
pub fn k_pair(a: &Ty, b: &Ty) -> Vec<Ty> {
    vec![
        Ty::Record(vec![a.clone(), b.clone()]),
        Ty::Tuple(vec![a.clone(), b.clone(), a.clone()]),
        Ty::Variant(vec![Some(a.clone()), Some(b.clone())]),
        Ty::Variant(vec![None, Some(a.clone()), Some(b.clone())]),
        Ty::Result(Some(bx(a.clone())), Some(bx(b.clone()))),
    ]
}

/// Wrappers put around the pair shapes in U2.
fn k_wrap(x: &Ty) -> Vec<Ty> {
    let b = || bx(x.clone());
    vec![
        Ty::List(b()),
        Ty::Option(b()),
        Ty::Tuple(vec![Ty::U8, x.clone()]),
        Ty::FixedList(b(), 2),
        Ty::Result(None, Some(b())),
        Ty::Variant(vec![Some(Ty::U64), Some(x.clone())]),
    ]
}

fn dedup(v: Vec<Ty>) -> Vec<Ty> {
    let mut seen = BTreeSet::new();
    v.into_iter().filter(|t| seen.insert(t.clone())).collect()
}

/// U1: every leaf, every nullary type, K applied to every leaf.
pub fn u1() -> Vec<Ty> {
    let mut out = leaves();
    out.extend(nullary());
    for l in leaves() {
        out.extend(k_full(&l));
    }
    dedup(out)
}

/// Layout pairs: every binary shape over every ordered pair of different layout classes.
pub fn pairs() -> Vec<Ty> {
    let lc = layout_classes();
    let mut out = Vec::new();
    for a in &lc {
        for b in &lc {
            if a != b {
                out.extend(k_pair(a, b));
            }
        }
    }
    dedup(out)
}

/// U2 = Kc∘Kc over Lc, the pairs, and the wrapped pairs (U1 not included).
pub fn u2() -> Vec<Ty> {
    let mut out = Vec::new();
    for l in layout_classes() {
        for inner in k_comp(&l) {
            out.extend(k_comp(&inner));
        }
    }
    let ps = pairs();
    for p in &ps {
        out.extend(k_wrap(p));
    }
    out.extend(ps);
    dedup(out)
}

/// U3r = Kc∘Kc∘Kc over the reduced alphabet.
pub fn u3r() -> Vec<Ty> {
    let mut out = Vec::new();
    for l in reduced_leaves() {
        for a in k_comp(&l) {
            for b in k_comp(&a) {
                out.extend(k_comp(&b));
            }
        }
    }
    dedup(out)
}

/// U2f = K_full∘K_full over the layout classes (every constructor of U1 nested once more).
pub fn u2f() -> Vec<Ty> {
    let mut out = Vec::new();
    for l in layout_classes() {
        for inner in k_full(&l) {
            out.extend(k_full(&inner));
        }
    }
    dedup(out)
}

/// U3lc = Kc∘Kc∘Kc over all seven layout classes (superset of U3r).
pub fn u3lc() -> Vec<Ty> {
    let mut out = Vec::new();
    for l in layout_classes() {
        for a in k_comp(&l) {
            for b in k_comp(&a) {
                out.extend(k_comp(&b));
            }
        }
    }
    dedup(out)
}

/// U3f = K_full∘Kc∘Kc over the reduced alphabet (every constructor of U1 around a depth-2 core).
pub fn u3f() -> Vec<Ty> {
    let mut out = Vec::new();
    for l in reduced_leaves() {
        for a in k_comp(&l) {
            for b in k_comp(&a) {
                out.extend(k_full(&b));
            }
        }
    }
    dedup(out)
}

/// Named universes used by the engines' tiers.
pub fn universe(name: &str) -> Vec<Ty> {
    match name {
        "u1" => u1(),
        "pairs" => pairs(),
        "u2" => u2(),
        "u3r" => u3r(),
        "u2f" => u2f(),
        "u3lc" => u3lc(),
        "quick" => dedup([u1(), pairs()].concat()),
        "thorough" => dedup([u1(), u2(), u3r()].concat()),
        "u3f" => u3f(),
        "deep" => dedup([u1(), u2(), u2f(), u3lc(), u3f()].concat()),
        _ => panic!("unknown universe {name}"),
    }
}

pub fn bounds_json() -> Value {
    json!({
        "leaves": leaves().iter().map(|t| t.to_string()).collect::<Vec<_>>(),
        "layout_classes": layout_classes().iter().map(|t| t.to_string()).collect::<Vec<_>>(),
        "reduced_leaves": reduced_leaves().iter().map(|t| t.to_string()).collect::<Vec<_>>(),
        "enum_sizes": ENUM_SIZES, "flags_sizes": FLAGS_SIZES, "fixed_lens": FIXED_LENS,
        "K_full(x)": k_full(&Ty::U8).iter().map(|t| t.to_string().replace("u8", "X")).collect::<Vec<_>>(),
        "K_comp(x)": k_comp(&Ty::U16).iter().map(|t| t.to_string().replace("u16", "X")).collect::<Vec<_>>(),
        "K_pair(a,b)": k_pair(&Ty::U16, &Ty::F64).iter().map(|t| t.to_string().replace("u16", "A").replace("f64", "B")).collect::<Vec<_>>(),
        "sizes": {"u1": u1().len(), "pairs": pairs().len(), "u2": u2().len(), "u3r": u3r().len(), "u2f": u2f().len(), "u3lc": u3lc().len(), "u3f": u3f().len()},
        "universes": {"quick": "u1 ∪ pairs", "thorough": "u1 ∪ u2 ∪ u3r", "deep": "u1 ∪ u2 ∪ u2f ∪ u3lc ∪ u3f"},
        "max_values_per_type": MAX_VALUES, "max_values_nested": MAX_NESTED,
        "list_lengths": [0,1,2,3],
    })
}

// ---------------------------------------------------------------------------------------------
// values

/// Cap on |V(T)| at the top level / for nested positions.
pub const MAX_VALUES: usize = 16;
pub const MAX_NESTED: usize = 6;

fn leaf_values(t: &Ty) -> Option<Vec<Val>> {
    let u = |v: &[u64]| Some(v.iter().map(|x| Val::U(*x)).collect());
    let s = |v: &[i64]| Some(v.iter().map(|x| Val::S(*x)).collect());
    match t {
        Ty::Bool => Some(vec![Val::Bool(false), Val::Bool(true)]),
        Ty::U8 => u(&[0, 1, 0x7f, 0x80, 0xff, 0xaa]),
        Ty::U16 => u(&[0, 1, 0x7fff, 0x8000, 0xffff, 0xaa55]),
        Ty::U32 => u(&[0, 1, 0x7fff_ffff, 0x8000_0000, 0xffff_ffff, 0xaa55_aa55]),
        Ty::U64 => u(&[
            0,
            1,
            0x7fff_ffff_ffff_ffff,
            0x8000_0000_0000_0000,
            0xffff_ffff_ffff_ffff,
            0xaa55_aa55_aa55_aa55,
            0x0000_0001_0000_0000,
            0x0000_0000_ffff_ffff,
        ]),
        Ty::S8 => s(&[0, 1, -1, -128, 127, 0x55]),
        Ty::S16 => s(&[0, 1, -1, -32768, 32767, 0x55aa]),
        Ty::S32 => s(&[0, 1, -1, i32::MIN as i64, i32::MAX as i64, 0x55aa_55aa]),
        Ty::S64 => s(&[0, 1, -1, i64::MIN, i64::MAX, 0x55aa_55aa_55aa_55aa, 0x1_0000_0000, -0x1_0000_0000]),
        Ty::F32 => Some(
            [
                0x0000_0000u32, // +0
                0x8000_0000,    // -0
                0x3f80_0000,    // 1.0
                0x7f80_0000,    // +inf
                0xff80_0000,    // -inf
                0x0000_0001,    // smallest subnormal
                0x7fc0_0001,    // quiet NaN with payload
                0x7fa0_0000,    // signalling NaN with payload
            ]
            .iter()
            .map(|b| Val::F32(*b))
            .collect(),
        ),
        Ty::F64 => Some(
            [
                0x0000_0000_0000_0000u64,
                0x8000_0000_0000_0000,
                0x3ff0_0000_0000_0000,
                0x7ff0_0000_0000_0000,
                0xfff0_0000_0000_0000,
                0x0000_0000_0000_0001,
                0x7ff8_0000_0000_0001,
                0x7ff4_0000_0000_0000,
            ]
            .iter()
            .map(|b| Val::F64(*b))
            .collect(),
        ),
        Ty::Char => Some(
            [0x61u32, 0x7f, 0x80, 0xd7ff, 0xe000, 0x10ffff, 0]
                .iter()
                .map(|c| Val::Char(*c))
                .collect(),
        ),
        Ty::String => Some(
            ["", "a", "é", "😀", "a é😀\u{0}z", &"x".repeat(300)]
                .iter()
                .map(|s| Val::Str(s.to_string()))
                .collect(),
        ),
        Ty::ErrorContext | Ty::Own(_) | Ty::Borrow(_) | Ty::Future(_) | Ty::Stream(_) => Some(
            [1u32, 2, 3, 4, 5, 0x0fff_ffff].iter().map(|h| Val::Handle(*h)).collect(),
        ),
        Ty::Enum(n) => {
            let mut idx: Vec<u32> = vec![0, 1, 2, 127, 128, 255, 256];
            idx.retain(|i| i < n);
            if !idx.contains(&(n - 1)) {
                idx.push(n - 1);
            }
            Some(idx.into_iter().map(|i| Val::Variant(i, None)).collect())
        }
        Ty::Flags(n) => {
            let n = *n as usize;
            let mut out = vec![vec![false; n]];
            if n > 0 {
                out.push(vec![true; n]);
                // singletons at the word / byte boundaries and alternating bits
                let mut picks: Vec<usize> = vec![0, 7, 8, 15, 16, 31, 32, 33, 63, 64];
                picks.retain(|k| *k < n);
                if !picks.contains(&(n - 1)) {
                    picks.push(n - 1);
                }
                for k in picks {
                    let mut v = vec![false; n];
                    v[k] = true;
                    out.push(v);
                }
                out.push((0..n).map(|k| k % 2 == 0).collect());
            }
            let mut seen = BTreeSet::new();
            out.retain(|v| seen.insert(v.clone()));
            Some(out.into_iter().map(Val::Flags).collect())
        }
        _ => None,
    }
}

/// V(T): the boundary value alphabet of `t`, at most `MAX_VALUES` values at the top level.
/// Composite values use *each-choice* below the top: every value of every component appears at
/// least once (subject to the nested cap), every variant case appears, list lengths 0..=3.
pub fn values(t: &Ty) -> Vec<Val> {
    values_at(t, 0)
}

fn cap(depth: usize) -> usize {
    if depth == 0 {
        MAX_VALUES
    } else {
        MAX_NESTED
    }
}

fn values_at(t: &Ty, depth: usize) -> Vec<Val> {
    let c = cap(depth);
    if let Some(mut v) = leaf_values(t) {
        if depth > 0 && v.len() > c {
            // keep a spread: first, last, and evenly spaced in between
            let n = v.len();
            let idx: BTreeSet<usize> = (0..c).map(|i| i * (n - 1) / (c - 1)).collect();
            v = v.into_iter().enumerate().filter(|(i, _)| idx.contains(i)).map(|(_, x)| x).collect();
        }
        return v;
    }
    let mut out: Vec<Val> = match t {
        Ty::List(e) => {
            let ev = values_at(e, depth + 1);
            seqs(&ev, &[0, 1, 2, 3], c).into_iter().map(Val::List).collect()
        }
        Ty::FixedList(e, n) => {
            let ev = values_at(e, depth + 1);
            seqs(&ev, &[*n as usize], c).into_iter().map(Val::List).collect()
        }
        Ty::Map(k, x) => {
            let kv = values_at(k, depth + 1);
            let xv = values_at(x, depth + 1);
            // distinct keys inside one map (a map value with duplicate keys is not a valid map)
            let mut out = vec![Val::Map(vec![])];
            let mut ki = 0;
            let mut xi = 0;
            for len in [1usize, 2, 3] {
                let len = len.min(kv.len());
                let mut es = Vec::new();
                for _ in 0..len {
                    es.push((kv[ki % kv.len()].clone(), xv[xi % xv.len()].clone()));
                    ki += 1;
                    xi += 1;
                }
                out.push(Val::Map(es));
            }
            while xi < xv.len() && out.len() < c {
                let len = 3.min(kv.len());
                let mut es = Vec::new();
                for _ in 0..len {
                    es.push((kv[ki % kv.len()].clone(), xv[xi % xv.len()].clone()));
                    ki += 1;
                    xi += 1;
                }
                out.push(Val::Map(es));
            }
            out
        }
        Ty::Record(f) | Ty::Tuple(f) => {
            let fv: Vec<Vec<Val>> = f.iter().map(|t| values_at(t, depth + 1)).collect();
            let total: usize = fv.iter().map(|v| v.len()).product();
            let mut out = Vec::new();
            if depth == 0 && total <= c {
                // full Cartesian product
                let mut idx = vec![0usize; fv.len()];
                'outer: loop {
                    out.push(Val::Record(idx.iter().zip(&fv).map(|(i, v)| v[*i].clone()).collect()));
                    for k in (0..idx.len()).rev() {
                        idx[k] += 1;
                        if idx[k] < fv[k].len() {
                            continue 'outer;
                        }
                        idx[k] = 0;
                    }
                    break;
                }
            } else {
                // each-choice, with a per-field stride so that fields do not move in lock-step
                let n = fv.iter().map(|v| v.len()).max().unwrap_or(1);
                for i in 0..n {
                    out.push(Val::Record(
                        fv.iter()
                            .enumerate()
                            .map(|(k, v)| v[(i + k) % v.len()].clone())
                            .collect(),
                    ));
                }
            }
            out
        }
        Ty::Variant(_) | Ty::Option(_) | Ty::Result(..) => {
            let cases = t.cases().unwrap();
            let per: Vec<Vec<Option<Val>>> = cases
                .iter()
                .map(|ct| match ct {
                    None => vec![None],
                    Some(ct) => values_at(ct, depth + 1).into_iter().map(Some).collect(),
                })
                .collect();
            // round-robin over the cases so that a cap never starves a case
            let mut out = Vec::new();
            let longest = per.iter().map(|v| v.len()).max().unwrap_or(0);
            for i in 0..longest {
                for (ci, vs) in per.iter().enumerate() {
                    if let Some(p) = vs.get(i) {
                        out.push(Val::Variant(ci as u32, p.clone().map(Box::new)));
                    }
                }
            }
            out
        }
        _ => unreachable!("values of {t}"),
    };
    // V(T) is a set: no value twice
    let mut seen = BTreeSet::new();
    out.retain(|v| seen.insert(v.clone()));
    out.truncate(c.max(min_needed(t)));
    out
}

/// Never cap below the number of cases of a variant.
fn min_needed(t: &Ty) -> usize {
    t.cases().map(|c| c.len().min(8)).unwrap_or(0)
}

/// Sequences of the given lengths (cycled) drawing elements round-robin from `ev`, until every
/// element value has appeared (or the cap is hit).
fn seqs(ev: &[Val], lens: &[usize], cap: usize) -> Vec<Vec<Val>> {
    let mut out = Vec::new();
    let mut next = 0usize;
    let mut li = 0usize;
    loop {
        let len = lens[li % lens.len()];
        li += 1;
        let mut xs = Vec::new();
        for _ in 0..len {
            xs.push(ev[next % ev.len()].clone());
            next += 1;
        }
        out.push(xs);
        let covered = next >= ev.len() && li >= lens.len();
        if covered || out.len() >= cap {
            break;
        }
    }
    out
}
