//! Cross-check of `refabi` against the wit-parser functions the properties name as *trusted*
//! (`SizeAlign`, `Resolve::push_flat` incl. its private `join`, `Resolve::wasm_signature`).
//! This is the only module that touches those functions. A disagreement is **not** a property
//! verdict: callers stop with `vcommon::machinery` (exit 2) and the disagreement is settled by
//! re-reading the spec.

use crate::abi::{self, CanonOpts, Context, CoreTy, Width};
use crate::ty::Ty;
use wit_parser::abi::{AbiVariant, FlatTypes, WasmType};
use wit_parser::{Function, Handle, Resolve, SizeAlign, Type, TypeDefKind};

pub fn erase(t: WasmType, w: Width) -> CoreTy {
    match t {
        WasmType::I32 => CoreTy::I32,
        WasmType::I64 => CoreTy::I64,
        WasmType::F32 => CoreTy::F32,
        WasmType::F64 => CoreTy::F64,
        WasmType::Pointer | WasmType::Length => w.ptr_ty(),
        WasmType::PointerOrI64 => CoreTy::I64,
    }
}

fn arch(a: wit_parser::ArchitectureSize, w: Width) -> u64 {
    match w {
        Width::W4 => a.size_wasm32() as u64,
        Width::W8 => a.size_wasm64() as u64,
    }
}
fn al(a: wit_parser::Alignment, w: Width) -> u64 {
    match w {
        Width::W4 => a.align_wasm32() as u64,
        Width::W8 => a.align_wasm64() as u64,
    }
}

/// wit-parser's flat types of `ty` (no limit).
pub fn wit_flat(resolve: &Resolve, ty: &Type) -> Vec<WasmType> {
    let mut storage = vec![WasmType::I32; 4096];
    let mut flat = FlatTypes::new(&mut storage);
    assert!(resolve.push_flat(ty, &mut flat), "more than 4096 flat types");
    flat.to_vec()
}

#[derive(Default, Debug)]
pub struct Report {
    /// hard disagreements (→ exit 2)
    pub disagreements: Vec<String>,
    /// divergences on shapes the current spec does not define; tolerated, listed in evidence
    pub tolerated: Vec<String>,
    pub nodes_compared: usize,
    pub signatures_compared: usize,
}

/// Compare layout and flattening of `wit` (a type in `resolve`) with the reference type `ty`,
/// recursively for every node, for both pointer widths.
pub fn check_type(resolve: &Resolve, sizes: &SizeAlign, wit: &Type, ty: &Ty, rep: &mut Report) {
    rep.nodes_compared += 1;
    for w in Width::both() {
        let (rs, ra) = (abi::size(ty, w), abi::alignment(ty, w));
        let (ws, wa) = (arch(sizes.size(wit), w), al(sizes.align(wit), w));
        if rs != ws {
            rep.disagreements.push(format!("size({ty}) width {}: refabi {rs}, wit-parser {ws}", w.bytes()));
        }
        if ra != wa {
            let msg = format!("alignment({ty}) width {}: refabi {ra}, wit-parser {wa}", w.bytes());
            if *ty == Ty::Flags(0) {
                if !rep.tolerated.contains(&msg) {
                    rep.tolerated.push(msg);
                }
            } else {
                rep.disagreements.push(msg);
            }
        }
        let rf = abi::flatten(ty, w);
        let wf: Vec<CoreTy> = wit_flat(resolve, wit).into_iter().map(|t| erase(t, w)).collect();
        if rf != wf {
            rep.disagreements.push(format!(
                "flatten({ty}) width {}: refabi {rf:?}, wit-parser {wf:?}",
                w.bytes()
            ));
        }
    }
    // descend
    let Type::Id(mut id) = *wit else { return };
    loop {
        match &resolve.types[id].kind {
            TypeDefKind::Type(Type::Id(inner)) => id = *inner,
            TypeDefKind::Type(prim) => {
                // alias of a primitive: nothing below
                let _ = prim;
                return;
            }
            _ => break,
        }
    }
    let kind = &resolve.types[id].kind;
    let fields = |ts: Vec<Type>, ftys: &[Ty], rep: &mut Report| {
        for w in Width::both() {
            let (roffs, _, _) = abi::record_layout(ftys, w);
            let woffs: Vec<u64> =
                sizes.field_offsets(ts.iter()).into_iter().map(|(o, _)| arch(o, w)).collect();
            if roffs != woffs {
                rep.disagreements.push(format!(
                    "field offsets of {ty} width {}: refabi {roffs:?}, wit-parser {woffs:?}",
                    w.bytes()
                ));
            }
        }
        for (t, ft) in ts.iter().zip(ftys) {
            check_type(resolve, sizes, t, ft, rep);
        }
    };
    let cases = |tag: wit_parser::Int, cs: Vec<Option<Type>>, rep: &mut Report| {
        let rcases = ty.cases().unwrap();
        for w in Width::both() {
            let r = abi::payload_offset(ty, w);
            let p = arch(sizes.payload_offset(tag, cs.iter().map(|c| c.as_ref())), w);
            if r != p {
                rep.disagreements.push(format!(
                    "payload offset of {ty} width {}: refabi {r}, wit-parser {p}",
                    w.bytes()
                ));
            }
        }
        let tag_bytes = match tag {
            wit_parser::Int::U8 => 1,
            wit_parser::Int::U16 => 2,
            wit_parser::Int::U32 => 4,
            wit_parser::Int::U64 => 8,
        };
        if tag_bytes != abi::discriminant_size(rcases.len()) {
            rep.disagreements.push(format!("discriminant size of {ty}"));
        }
        for (c, rc) in cs.iter().zip(&rcases) {
            if let (Some(c), Some(rc)) = (c, rc) {
                check_type(resolve, sizes, c, rc, rep);
            }
        }
    };
    match (kind, ty) {
        (TypeDefKind::Record(r), Ty::Record(f)) => {
            fields(r.fields.iter().map(|f| f.ty).collect(), f, rep)
        }
        (TypeDefKind::Tuple(t), Ty::Tuple(f)) => fields(t.types.clone(), f, rep),
        (TypeDefKind::Variant(v), Ty::Variant(_)) => {
            cases(v.tag(), v.cases.iter().map(|c| c.ty).collect(), rep)
        }
        (TypeDefKind::Enum(e), Ty::Enum(_)) => cases(e.tag(), vec![None; e.cases.len()], rep),
        (TypeDefKind::Option(t), Ty::Option(_)) => cases(wit_parser::Int::U8, vec![None, Some(*t)], rep),
        (TypeDefKind::Result(r), Ty::Result(..)) => cases(wit_parser::Int::U8, vec![r.ok, r.err], rep),
        (TypeDefKind::List(e), Ty::List(re)) => check_type(resolve, sizes, e, re, rep),
        (TypeDefKind::FixedLengthList(e, n), Ty::FixedList(re, rn)) if n == rn => {
            check_type(resolve, sizes, e, re, rep)
        }
        (TypeDefKind::Map(k, v), Ty::Map(rk, rv)) => {
            check_type(resolve, sizes, k, rk, rep);
            check_type(resolve, sizes, v, rv, rep);
            // the entry layout the generator uses
            fields(vec![*k, *v], &[(**rk).clone(), (**rv).clone()], rep);
        }
        (TypeDefKind::Flags(f), Ty::Flags(n)) if f.flags.len() == *n as usize => {}
        (TypeDefKind::Handle(Handle::Own(_)), Ty::Own(_)) => {}
        (TypeDefKind::Handle(Handle::Borrow(_)), Ty::Borrow(_)) => {}
        (TypeDefKind::Future(_), Ty::Future(_)) | (TypeDefKind::Stream(_), Ty::Stream(_)) => {}
        (k, t) => rep
            .disagreements
            .push(format!("parsed type {k:?} does not have the shape of {t} (printer bug)")),
    }
}

/// Compare `Resolve::wasm_signature` with `flatten_functype` for the four ABI variants.
pub fn check_signature(
    resolve: &Resolve,
    func: &Function,
    params: &[Ty],
    result: Option<&Ty>,
    rep: &mut Report,
) {
    rep.signatures_compared += 1;
    for (variant, opts, cx) in [
        (AbiVariant::GuestImport, CanonOpts { async_: false, callback: false }, Context::Lower),
        (AbiVariant::GuestExport, CanonOpts { async_: false, callback: false }, Context::Lift),
        (AbiVariant::GuestImportAsync, CanonOpts { async_: true, callback: false }, Context::Lower),
        (AbiVariant::GuestExportAsync, CanonOpts { async_: true, callback: true }, Context::Lift),
        (AbiVariant::GuestExportAsyncStackful, CanonOpts { async_: true, callback: false }, Context::Lift),
    ] {
        let sig = resolve.wasm_signature(variant, func);
        for w in Width::both() {
            let r = abi::flatten_functype(opts, params, result, cx, w);
            let wp: Vec<CoreTy> = sig.params.iter().map(|t| erase(*t, w)).collect();
            let wr: Vec<CoreTy> = sig.results.iter().map(|t| erase(*t, w)).collect();
            // wit-parser's `retptr` for async lowers means "has a result pointer"; same notion.
            let same = r.params == wp
                && r.results == wr
                && r.params_indirect == sig.indirect_params
                && (r.result_indirect == sig.retptr);
            if !same {
                rep.disagreements.push(format!(
                    "signature of func({}){} as {variant:?} width {}: refabi {r:?}, wit-parser params {wp:?} results {wr:?} indirect {} retptr {}",
                    params.iter().map(|t| t.to_string()).collect::<Vec<_>>().join(","),
                    result.map(|t| format!(" -> {t}")).unwrap_or_default(),
                    w.bytes(),
                    sig.indirect_params,
                    sig.retptr
                ));
            }
        }
    }
}

/// Structural conversion of a parsed wit-parser type into a `Ty` (parser data only; used by the
/// engines to interpret `&Type` operands of instructions).
pub fn ty_of(resolve: &Resolve, t: &Type) -> Ty {
    use crate::ty::bx;
    match t {
        Type::Bool => Ty::Bool,
        Type::U8 => Ty::U8,
        Type::S8 => Ty::S8,
        Type::U16 => Ty::U16,
        Type::S16 => Ty::S16,
        Type::U32 => Ty::U32,
        Type::S32 => Ty::S32,
        Type::U64 => Ty::U64,
        Type::S64 => Ty::S64,
        Type::F32 => Ty::F32,
        Type::F64 => Ty::F64,
        Type::Char => Ty::Char,
        Type::String => Ty::String,
        Type::ErrorContext => Ty::ErrorContext,
        Type::Id(id) => match &resolve.types[*id].kind {
            TypeDefKind::Type(t) => ty_of(resolve, t),
            TypeDefKind::List(e) => Ty::List(bx(ty_of(resolve, e))),
            TypeDefKind::FixedLengthList(e, n) => Ty::FixedList(bx(ty_of(resolve, e)), *n),
            TypeDefKind::Map(k, v) => Ty::Map(bx(ty_of(resolve, k)), bx(ty_of(resolve, v))),
            TypeDefKind::Record(r) => Ty::Record(r.fields.iter().map(|f| ty_of(resolve, &f.ty)).collect()),
            TypeDefKind::Tuple(t) => Ty::Tuple(t.types.iter().map(|t| ty_of(resolve, t)).collect()),
            TypeDefKind::Variant(v) => {
                Ty::Variant(v.cases.iter().map(|c| c.ty.as_ref().map(|t| ty_of(resolve, t))).collect())
            }
            TypeDefKind::Enum(e) => Ty::Enum(e.cases.len() as u32),
            TypeDefKind::Option(t) => Ty::Option(bx(ty_of(resolve, t))),
            TypeDefKind::Result(r) => Ty::Result(
                r.ok.as_ref().map(|t| bx(ty_of(resolve, t))),
                r.err.as_ref().map(|t| bx(ty_of(resolve, t))),
            ),
            TypeDefKind::Flags(f) => Ty::Flags(f.flags.len() as u32),
            TypeDefKind::Handle(Handle::Own(_)) => Ty::Own(0),
            TypeDefKind::Handle(Handle::Borrow(_)) => Ty::Borrow(0),
            TypeDefKind::Future(p) => Ty::Future(p.as_ref().map(|t| bx(ty_of(resolve, t)))),
            TypeDefKind::Stream(p) => Ty::Stream(p.as_ref().map(|t| bx(ty_of(resolve, t)))),
            TypeDefKind::Resource => Ty::Own(0),
            TypeDefKind::Unknown => unreachable!(),
        },
    }
}
