//! `refabi` — an independent reference model of the Component Model canonical ABI, plus the
//! deterministic type/value universe used by the /verif engines.
//!
//! * [`ty`]: own `Ty` / `Val` algebra (`val_eq` = equality up to NaN payload).
//! * [`abi`]: `alignment`, `size`, `record_layout`, `payload_offset`, `discriminant_size`,
//!   `flatten`, `join`, `flatten_functype`, `task_return_params`, `store` / `load` on a
//!   [`abi::RefMem`] (byte array + bump allocator + defined-bytes mask), `lower_flat` /
//!   `lift_flat`, `lower_flat_values` / `lift_flat_values`, and encoding comparison helpers
//!   (`canon_mem`, `canon_array`, `flat_pointer_slots`, `heap_buffers`). Everything is
//!   parameterised by [`abi::Width`] (pointer width 4 or 8). Written from `CanonicalABI.md`;
//!   **does not** use `wit_parser::SizeAlign`, `Resolve::push_flat`, `wasm_signature` or /repo.
//! * [`wit`]: print a `Ty` environment as WIT (`WitDoc`) and parse it with wit-parser (`parse`)
//!   to obtain `Resolve` / `Type` / `Function` for the code under test.
//! * [`universe`]: `u1`, `pairs`, `u2`, `u3r`, `universe(name)`, `values(ty)` = V(T).
//! * [`xcheck`]: the cross-check against wit-parser's trusted functions (`check_type`,
//!   `check_signature`, `erase`, `ty_of`); the only place that calls them.
pub mod abi;
pub mod ty;
pub mod universe;
pub mod wit;
pub mod xcheck;

pub use abi::{CoreTy, CoreVal, RefMem, Width};
pub use ty::{val_eq, Ty, Val};
