//! Own algebraic model of WIT value types and values (nothing from wit-parser here).

use std::fmt;

/// A WIT value type. Field / case / flag names are generated (`f0`, `c0`, `e0`, `b0` …) by the
/// WIT printer, so a `Ty` is purely structural.
#[derive(Clone, Debug, PartialEq, Eq, Hash, PartialOrd, Ord)]
pub enum Ty {
    Bool,
    S8,
    U8,
    S16,
    U16,
    S32,
    U32,
    S64,
    U64,
    F32,
    F64,
    Char,
    String,
    ErrorContext,
    List(Box<Ty>),
    /// `list<T, N>`
    FixedList(Box<Ty>, u32),
    /// `map<K, V>` — ABI-wise `list<tuple<K, V>>`
    Map(Box<Ty>, Box<Ty>),
    Record(Vec<Ty>),
    Tuple(Vec<Ty>),
    /// cases with optional payload
    Variant(Vec<Option<Ty>>),
    /// number of cases
    Enum(u32),
    Option(Box<Ty>),
    Result(Option<Box<Ty>>, Option<Box<Ty>>),
    /// number of flags
    Flags(u32),
    /// `own<resN>` (printed as the bare resource name)
    Own(u32),
    /// `borrow<resN>`
    Borrow(u32),
    Future(Option<Box<Ty>>),
    Stream(Option<Box<Ty>>),
}

/// A value. Several types share one representation (see the variants' docs); a `Val` is always
/// interpreted together with its `Ty`.
#[derive(Clone, Debug, PartialEq, Eq, Hash, PartialOrd, Ord)]
pub enum Val {
    Bool(bool),
    /// u8/u16/u32/u64
    U(u64),
    /// s8/s16/s32/s64
    S(i64),
    /// bit pattern
    F32(u32),
    /// bit pattern
    F64(u64),
    /// unicode scalar value
    Char(u32),
    Str(String),
    /// list and fixed-length list
    List(Vec<Val>),
    /// map: ordered entries
    Map(Vec<(Val, Val)>),
    /// record and tuple
    Record(Vec<Val>),
    /// variant; option (0 = none, 1 = some); result (0 = ok, 1 = err); enum (payload None)
    Variant(u32, Option<Box<Val>>),
    Flags(Vec<bool>),
    /// own / borrow / future / stream / error-context: the i32 table index
    Handle(u32),
}

pub fn bx(t: Ty) -> Box<Ty> {
    Box::new(t)
}

impl Ty {
    /// `variant` view of option / result / variant / enum: the list of case payloads.
    pub fn cases(&self) -> Option<Vec<Option<Ty>>> {
        match self {
            Ty::Variant(c) => Some(c.clone()),
            Ty::Enum(n) => Some(vec![None; *n as usize]),
            Ty::Option(t) => Some(vec![None, Some((**t).clone())]),
            Ty::Result(a, b) => Some(vec![
                a.as_ref().map(|t| (**t).clone()),
                b.as_ref().map(|t| (**t).clone()),
            ]),
            _ => None,
        }
    }

    /// `record` view of record / tuple.
    pub fn fields(&self) -> Option<&[Ty]> {
        match self {
            Ty::Record(f) | Ty::Tuple(f) => Some(f),
            _ => None,
        }
    }

    pub fn children(&self) -> Vec<&Ty> {
        match self {
            Ty::List(t) | Ty::FixedList(t, _) | Ty::Option(t) => vec![t],
            Ty::Map(k, v) => vec![k, v],
            Ty::Record(f) | Ty::Tuple(f) => f.iter().collect(),
            Ty::Variant(c) => c.iter().flatten().collect(),
            Ty::Result(a, b) => a.iter().chain(b.iter()).map(|b| &**b).collect(),
            Ty::Future(p) | Ty::Stream(p) => p.iter().map(|b| &**b).collect(),
            _ => vec![],
        }
    }

    /// Nesting depth (leaf = 0).
    pub fn depth(&self) -> usize {
        self.children().iter().map(|c| c.depth() + 1).max().unwrap_or(0)
    }

    /// Number of nodes.
    pub fn nodes(&self) -> usize {
        1 + self.children().iter().map(|c| c.nodes()).sum::<usize>()
    }

    /// Does a lowered value of this type (transitively, *not* through future/stream payloads,
    /// which are only handles) own a heap buffer: string, list, map.
    pub fn contains_heap(&self) -> bool {
        match self {
            Ty::String | Ty::List(_) | Ty::Map(..) => true,
            Ty::Future(_) | Ty::Stream(_) => false,
            _ => self.children().iter().any(|c| c.contains_heap()),
        }
    }

    pub fn contains_borrow(&self) -> bool {
        match self {
            Ty::Borrow(_) => true,
            _ => self.children().iter().any(|c| c.contains_borrow()),
        }
    }

    pub fn contains(&self, pred: &dyn Fn(&Ty) -> bool) -> bool {
        pred(self) || self.children().iter().any(|c| c.contains(pred))
    }

    pub fn is_leaf(&self) -> bool {
        self.children().is_empty()
    }
}

/// Compact structural notation (close to WIT, but records/variants/enums/flags inline):
/// `record{u8,u64}`, `variant{_,string}`, `enum#3`, `flags#33`, `list<u8,2>`, `result<_,u8>`.
impl fmt::Display for Ty {
    fn fmt(&self, f: &mut fmt::Formatter<'_>) -> fmt::Result {
        let join = |v: &[Ty]| v.iter().map(|t| t.to_string()).collect::<Vec<_>>().join(",");
        match self {
            Ty::Bool => write!(f, "bool"),
            Ty::S8 => write!(f, "s8"),
            Ty::U8 => write!(f, "u8"),
            Ty::S16 => write!(f, "s16"),
            Ty::U16 => write!(f, "u16"),
            Ty::S32 => write!(f, "s32"),
            Ty::U32 => write!(f, "u32"),
            Ty::S64 => write!(f, "s64"),
            Ty::U64 => write!(f, "u64"),
            Ty::F32 => write!(f, "f32"),
            Ty::F64 => write!(f, "f64"),
            Ty::Char => write!(f, "char"),
            Ty::String => write!(f, "string"),
            Ty::ErrorContext => write!(f, "error-context"),
            Ty::List(t) => write!(f, "list<{t}>"),
            Ty::FixedList(t, n) => write!(f, "list<{t},{n}>"),
            Ty::Map(k, v) => write!(f, "map<{k},{v}>"),
            Ty::Record(v) => write!(f, "record{{{}}}", join(v)),
            Ty::Tuple(v) => write!(f, "tuple<{}>", join(v)),
            Ty::Variant(c) => write!(
                f,
                "variant{{{}}}",
                c.iter()
                    .map(|c| c.as_ref().map(|t| t.to_string()).unwrap_or("_".into()))
                    .collect::<Vec<_>>()
                    .join(",")
            ),
            Ty::Enum(n) => write!(f, "enum#{n}"),
            Ty::Option(t) => write!(f, "option<{t}>"),
            Ty::Result(a, b) => match (a, b) {
                (None, None) => write!(f, "result"),
                (Some(a), None) => write!(f, "result<{a}>"),
                (None, Some(b)) => write!(f, "result<_,{b}>"),
                (Some(a), Some(b)) => write!(f, "result<{a},{b}>"),
            },
            Ty::Flags(n) => write!(f, "flags#{n}"),
            Ty::Own(r) => write!(f, "own<res{r}>"),
            Ty::Borrow(r) => write!(f, "borrow<res{r}>"),
            Ty::Future(None) => write!(f, "future"),
            Ty::Future(Some(t)) => write!(f, "future<{t}>"),
            Ty::Stream(None) => write!(f, "stream"),
            Ty::Stream(Some(t)) => write!(f, "stream<{t}>"),
        }
    }
}

impl fmt::Display for Val {
    fn fmt(&self, f: &mut fmt::Formatter<'_>) -> fmt::Result {
        match self {
            Val::Bool(b) => write!(f, "{b}"),
            Val::U(x) => write!(f, "{x:#x}"),
            Val::S(x) => write!(f, "{x}"),
            Val::F32(b) => write!(f, "f32:{b:#010x}"),
            Val::F64(b) => write!(f, "f64:{b:#018x}"),
            Val::Char(c) => write!(f, "U+{c:04X}"),
            Val::Str(s) => {
                if s.len() > 24 {
                    write!(f, "str[{}b]", s.len())
                } else {
                    write!(f, "{s:?}")
                }
            }
            Val::List(v) => {
                write!(f, "[")?;
                for (i, x) in v.iter().enumerate() {
                    if i > 0 {
                        write!(f, ",")?;
                    }
                    write!(f, "{x}")?;
                }
                write!(f, "]")
            }
            Val::Map(v) => {
                write!(f, "{{")?;
                for (i, (k, x)) in v.iter().enumerate() {
                    if i > 0 {
                        write!(f, ",")?;
                    }
                    write!(f, "{k}:{x}")?;
                }
                write!(f, "}}")
            }
            Val::Record(v) => {
                write!(f, "(")?;
                for (i, x) in v.iter().enumerate() {
                    if i > 0 {
                        write!(f, ",")?;
                    }
                    write!(f, "{x}")?;
                }
                write!(f, ")")
            }
            Val::Variant(i, None) => write!(f, "#{i}"),
            Val::Variant(i, Some(p)) => write!(f, "#{i}({p})"),
            Val::Flags(b) => {
                write!(f, "flags:")?;
                for x in b {
                    write!(f, "{}", if *x { '1' } else { '0' })?;
                }
                Ok(())
            }
            Val::Handle(h) => write!(f, "h{h}"),
        }
    }
}

/// Value equality as the canonical ABI sees it: identical, except that any NaN equals any NaN
/// of the same float type (the spec lets lifting/lowering canonicalise NaN payloads).
pub fn val_eq(a: &Val, b: &Val) -> bool {
    match (a, b) {
        (Val::F32(x), Val::F32(y)) => x == y || (is_nan32(*x) && is_nan32(*y)),
        (Val::F64(x), Val::F64(y)) => x == y || (is_nan64(*x) && is_nan64(*y)),
        (Val::List(x), Val::List(y)) | (Val::Record(x), Val::Record(y)) => {
            x.len() == y.len() && x.iter().zip(y).all(|(a, b)| val_eq(a, b))
        }
        (Val::Map(x), Val::Map(y)) => {
            x.len() == y.len()
                && x.iter()
                    .zip(y)
                    .all(|((a, b), (c, d))| val_eq(a, c) && val_eq(b, d))
        }
        (Val::Variant(i, p), Val::Variant(j, q)) => {
            i == j
                && match (p, q) {
                    (None, None) => true,
                    (Some(p), Some(q)) => val_eq(p, q),
                    _ => false,
                }
        }
        _ => a == b,
    }
}

pub fn is_nan32(b: u32) -> bool {
    (b & 0x7f80_0000) == 0x7f80_0000 && (b & 0x007f_ffff) != 0
}
pub fn is_nan64(b: u64) -> bool {
    (b & 0x7ff0_0000_0000_0000) == 0x7ff0_0000_0000_0000 && (b & 0x000f_ffff_ffff_ffff) != 0
}

/// All handles (own / future / stream, and separately borrows / error-contexts) in a value,
/// in traversal order. Returns `(owned, borrowed_or_errctx)`.
pub fn handles_in(ty: &Ty, v: &Val, owned: &mut Vec<u32>, other: &mut Vec<u32>) {
    match (ty, v) {
        (Ty::Own(_) | Ty::Future(_) | Ty::Stream(_), Val::Handle(h)) => owned.push(*h),
        (Ty::Borrow(_) | Ty::ErrorContext, Val::Handle(h)) => other.push(*h),
        (Ty::List(t) | Ty::FixedList(t, _), Val::List(xs)) => {
            for x in xs {
                handles_in(t, x, owned, other)
            }
        }
        (Ty::Map(k, w), Val::Map(xs)) => {
            for (a, b) in xs {
                handles_in(k, a, owned, other);
                handles_in(w, b, owned, other);
            }
        }
        (Ty::Record(f) | Ty::Tuple(f), Val::Record(xs)) => {
            for (t, x) in f.iter().zip(xs) {
                handles_in(t, x, owned, other)
            }
        }
        (_, Val::Variant(i, Some(p))) => {
            if let Some(cases) = ty.cases() {
                if let Some(Some(t)) = cases.get(*i as usize) {
                    handles_in(t, p, owned, other)
                }
            }
        }
        _ => {}
    }
}

// ---------------------------------------------------------------------------------------------
// JSON form of a type (for replay files)

impl Ty {
    pub fn to_json(&self) -> serde_json::Value {
        use serde_json::json;
        let kids = |v: Vec<&Ty>| v.into_iter().map(|t| t.to_json()).collect::<Vec<_>>();
        match self {
            Ty::List(t) => json!({"list": t.to_json()}),
            Ty::FixedList(t, n) => json!({"fixed": [t.to_json(), n]}),
            Ty::Map(k, v) => json!({"map": [k.to_json(), v.to_json()]}),
            Ty::Record(f) => json!({"record": kids(f.iter().collect())}),
            Ty::Tuple(f) => json!({"tuple": kids(f.iter().collect())}),
            Ty::Variant(c) => json!({"variant": c.iter().map(|c| c.as_ref().map(|t| t.to_json())).collect::<Vec<_>>()}),
            Ty::Enum(n) => json!({"enum": n}),
            Ty::Option(t) => json!({"option": t.to_json()}),
            Ty::Result(a, b) => json!({"result": [a.as_ref().map(|t| t.to_json()), b.as_ref().map(|t| t.to_json())]}),
            Ty::Flags(n) => json!({"flags": n}),
            Ty::Own(r) => json!({"own": r}),
            Ty::Borrow(r) => json!({"borrow": r}),
            Ty::Future(p) => json!({"future": p.as_ref().map(|t| t.to_json())}),
            Ty::Stream(p) => json!({"stream": p.as_ref().map(|t| t.to_json())}),
            leaf => json!(leaf.to_string()),
        }
    }

    pub fn from_json(v: &serde_json::Value) -> Result<Ty, String> {
        let opt = |v: &serde_json::Value| -> Result<Option<Box<Ty>>, String> {
            if v.is_null() {
                Ok(None)
            } else {
                Ok(Some(Box::new(Ty::from_json(v)?)))
            }
        };
        if let Some(s) = v.as_str() {
            return Ok(match s {
                "bool" => Ty::Bool,
                "s8" => Ty::S8,
                "u8" => Ty::U8,
                "s16" => Ty::S16,
                "u16" => Ty::U16,
                "s32" => Ty::S32,
                "u32" => Ty::U32,
                "s64" => Ty::S64,
                "u64" => Ty::U64,
                "f32" => Ty::F32,
                "f64" => Ty::F64,
                "char" => Ty::Char,
                "string" => Ty::String,
                "error-context" => Ty::ErrorContext,
                o => return Err(format!("unknown leaf {o}")),
            });
        }
        let o = v.as_object().ok_or("type must be string or object")?;
        let (k, a) = o.iter().next().ok_or("empty type object")?;
        let list = |a: &serde_json::Value| -> Result<Vec<Ty>, String> {
            a.as_array().ok_or("array expected")?.iter().map(Ty::from_json).collect()
        };
        Ok(match k.as_str() {
            "list" => Ty::List(Box::new(Ty::from_json(a)?)),
            "fixed" => Ty::FixedList(Box::new(Ty::from_json(&a[0])?), a[1].as_u64().ok_or("n")? as u32),
            "map" => Ty::Map(Box::new(Ty::from_json(&a[0])?), Box::new(Ty::from_json(&a[1])?)),
            "record" => Ty::Record(list(a)?),
            "tuple" => Ty::Tuple(list(a)?),
            "variant" => Ty::Variant(
                a.as_array()
                    .ok_or("array")?
                    .iter()
                    .map(|c| if c.is_null() { Ok(None) } else { Ty::from_json(c).map(Some) })
                    .collect::<Result<_, _>>()?,
            ),
            "enum" => Ty::Enum(a.as_u64().ok_or("n")? as u32),
            "option" => Ty::Option(Box::new(Ty::from_json(a)?)),
            "result" => Ty::Result(opt(&a[0])?, opt(&a[1])?),
            "flags" => Ty::Flags(a.as_u64().ok_or("n")? as u32),
            "own" => Ty::Own(a.as_u64().ok_or("n")? as u32),
            "borrow" => Ty::Borrow(a.as_u64().ok_or("n")? as u32),
            "future" => Ty::Future(opt(a)?),
            "stream" => Ty::Stream(opt(a)?),
            o => return Err(format!("unknown constructor {o}")),
        })
    }
}
