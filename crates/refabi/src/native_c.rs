//! Additions for engines that run generated bindings *natively* (E4, C backend): lowering into
//! memory owned by an external allocator, and the `utf16` string encoding.
//!
//! Nothing here changes the reference functions in [`crate::abi`]; this module only adds
//!
//! * [`NativeMem`]: a memory in which every heap buffer of a lowered value is its own block handed
//!   out by the caller's allocator (the receiver frees blocks one by one, so a bump-allocated
//!   byte array like [`crate::abi::RefMem`] cannot be used), with [`store_n`] / [`lower_flat_n`] /
//!   [`lower_values_n`] written from the same `CanonicalABI.md` definitions as `abi::store` and
//!   `abi::lower_flat` (loading needs nothing new: `abi::load` / `abi::lift_flat` work on any
//!   [`crate::abi::MemRead`]);
//! * `utf16`: in the canonical ABI a utf-16 string is `(pointer, number of code units)`, the buffer
//!   is 2-aligned and holds the code units little-endian — which is exactly the representation of
//!   `list<u16>`. [`enc_ty`] / [`enc_val`] / [`dec_val`] therefore map `string` to `list<u16>` and
//!   back, so that every utf-16 world is lowered / lifted by the unchanged reference functions;
//! * [`self_check`]: `store_n` / `lower_flat_n` against `abi::store` / `abi::lower_flat` on a
//!   given (type, value), used by the engines at start-up.
//!
//! Zero-sized buffers are not allocated: the pointer is the (non-null, aligned) value `align`,
//! which is what `cabi_realloc(0, 0, align, 0)` implementations return and what the spec permits.

use crate::abi::{
    alignment, discriminant_size, flatten_types, flatten_variant_payload, map_entry, payload_offset,
    record_layout, size, CoreTy, CoreVal, Lowered, MemRead, Width,
};
use crate::ty::{Ty, Val};

#[derive(Clone, Copy, Debug, PartialEq, Eq, Hash, PartialOrd, Ord)]
pub enum Enc {
    Utf8,
    Utf16,
}

/// A memory whose blocks come from an external allocator.
pub trait NativeMem: MemRead {
    /// A fresh block of `size > 0` bytes, at least `align`-aligned.
    fn alloc(&mut self, size: u64, align: u64) -> u64;
    fn write(&mut self, addr: u64, data: &[u8]);
}

// ---------------------------------------------------------------------------------------------
// utf16 = list<u16>

/// The ABI-level type of `t` under string encoding `enc`.
pub fn enc_ty(t: &Ty, enc: Enc) -> Ty {
    if enc == Enc::Utf8 {
        return t.clone();
    }
    let b = |t: &Ty| Box::new(enc_ty(t, enc));
    let o = |t: &Option<Box<Ty>>| t.as_ref().map(|t| b(t));
    match t {
        Ty::String => Ty::List(Box::new(Ty::U16)),
        Ty::List(e) => Ty::List(b(e)),
        Ty::FixedList(e, n) => Ty::FixedList(b(e), *n),
        Ty::Map(k, v) => Ty::Map(b(k), b(v)),
        Ty::Record(f) => Ty::Record(f.iter().map(|t| enc_ty(t, enc)).collect()),
        Ty::Tuple(f) => Ty::Tuple(f.iter().map(|t| enc_ty(t, enc)).collect()),
        Ty::Variant(c) => Ty::Variant(c.iter().map(|c| c.as_ref().map(|t| enc_ty(t, enc))).collect()),
        Ty::Option(e) => Ty::Option(b(e)),
        Ty::Result(a, e) => Ty::Result(o(a), o(e)),
        Ty::Future(p) => Ty::Future(o(p)),
        Ty::Stream(p) => Ty::Stream(o(p)),
        leaf => leaf.clone(),
    }
}

/// The ABI-level value of `v : t` under `enc` (strings become their utf-16 code units).
pub fn enc_val(t: &Ty, v: &Val, enc: Enc) -> Val {
    if enc == Enc::Utf8 {
        return v.clone();
    }
    match (t, v) {
        (Ty::String, Val::Str(s)) => Val::List(s.encode_utf16().map(|u| Val::U(u as u64)).collect()),
        (Ty::List(e) | Ty::FixedList(e, _), Val::List(xs)) => {
            Val::List(xs.iter().map(|x| enc_val(e, x, enc)).collect())
        }
        (Ty::Map(k, w), Val::Map(es)) => {
            Val::Map(es.iter().map(|(a, b)| (enc_val(k, a, enc), enc_val(w, b, enc))).collect())
        }
        (Ty::Record(f) | Ty::Tuple(f), Val::Record(xs)) => {
            Val::Record(f.iter().zip(xs).map(|(t, x)| enc_val(t, x, enc)).collect())
        }
        (_, Val::Variant(i, Some(p))) => {
            let ct = t.cases().and_then(|c| c.get(*i as usize).cloned()).flatten();
            match ct {
                Some(ct) => Val::Variant(*i, Some(Box::new(enc_val(&ct, p, enc)))),
                None => v.clone(),
            }
        }
        _ => v.clone(),
    }
}

/// Inverse of [`enc_val`]; `Err` = the code units are not well-formed utf-16 (the spec traps).
pub fn dec_val(t: &Ty, v: &Val, enc: Enc) -> Result<Val, String> {
    if enc == Enc::Utf8 {
        return Ok(v.clone());
    }
    Ok(match (t, v) {
        (Ty::String, Val::List(us)) => {
            let units: Vec<u16> = us
                .iter()
                .map(|u| match u {
                    Val::U(x) => *x as u16,
                    _ => 0,
                })
                .collect();
            Val::Str(String::from_utf16(&units).map_err(|_| "invalid utf-16".to_string())?)
        }
        (Ty::List(e) | Ty::FixedList(e, _), Val::List(xs)) => {
            Val::List(xs.iter().map(|x| dec_val(e, x, enc)).collect::<Result<_, _>>()?)
        }
        (Ty::Map(k, w), Val::Map(es)) => Val::Map(
            es.iter()
                .map(|(a, b)| Ok((dec_val(k, a, enc)?, dec_val(w, b, enc)?)))
                .collect::<Result<_, String>>()?,
        ),
        (Ty::Record(f) | Ty::Tuple(f), Val::Record(xs)) => {
            Val::Record(f.iter().zip(xs).map(|(t, x)| dec_val(t, x, enc)).collect::<Result<_, _>>()?)
        }
        (_, Val::Variant(i, Some(p))) => {
            let ct = t.cases().and_then(|c| c.get(*i as usize).cloned()).flatten();
            match ct {
                Some(ct) => Val::Variant(*i, Some(Box::new(dec_val(&ct, p, enc)?))),
                None => v.clone(),
            }
        }
        _ => v.clone(),
    })
}

// ---------------------------------------------------------------------------------------------
// store / lower into a NativeMem (utf-8 view: apply enc_ty / enc_val first for utf-16)

fn le(x: u64, n: u64) -> Vec<u8> {
    x.to_le_bytes()[..n as usize].to_vec()
}

fn flags_bytes(bits: &[bool], nbytes: u64) -> Vec<u8> {
    let mut out = vec![0u8; nbytes as usize];
    for (k, b) in bits.iter().enumerate() {
        if *b {
            out[k / 8] |= 1 << (k % 8);
        }
    }
    out
}

fn store_buf(mem: &mut dyn NativeMem, w: Width, xs: &[Val], e: &Ty) -> u64 {
    let es = size(e, w);
    let al = alignment(e, w);
    let total = xs.len() as u64 * es;
    if total == 0 {
        return al;
    }
    let p = mem.alloc(total, al);
    assert_eq!(p % al, 0, "allocator returned a misaligned block");
    for (i, x) in xs.iter().enumerate() {
        store_n(mem, w, x, e, p + i as u64 * es);
    }
    p
}

fn store_str(mem: &mut dyn NativeMem, s: &str) -> u64 {
    if s.is_empty() {
        return 1;
    }
    let p = mem.alloc(s.len() as u64, 1);
    mem.write(p, s.as_bytes());
    p
}

fn map_vals(es: &[(Val, Val)]) -> Vec<Val> {
    es.iter().map(|(a, b)| Val::Record(vec![a.clone(), b.clone()])).collect()
}

/// `store(cx, v, t, ptr)` with one allocator block per heap buffer.
pub fn store_n(mem: &mut dyn NativeMem, w: Width, v: &Val, t: &Ty, ptr: u64) {
    assert_eq!(ptr % alignment(t, w), 0, "store_n: misaligned {t} at {ptr:#x}");
    let pw = w.bytes();
    match (t, v) {
        (Ty::Bool, Val::Bool(b)) => mem.write(ptr, &[*b as u8]),
        (Ty::U8 | Ty::U16 | Ty::U32 | Ty::U64, Val::U(x)) => mem.write(ptr, &le(*x, size(t, w))),
        (Ty::S8 | Ty::S16 | Ty::S32 | Ty::S64, Val::S(x)) => mem.write(ptr, &le(*x as u64, size(t, w))),
        (Ty::F32, Val::F32(b)) => mem.write(ptr, &le(*b as u64, 4)),
        (Ty::F64, Val::F64(b)) => mem.write(ptr, &le(*b, 8)),
        (Ty::Char, Val::Char(c)) => mem.write(ptr, &le(*c as u64, 4)),
        (Ty::String, Val::Str(s)) => {
            let p = store_str(mem, s);
            mem.write(ptr, &le(p, pw));
            mem.write(ptr + pw, &le(s.len() as u64, pw));
        }
        (Ty::List(e), Val::List(xs)) => {
            let p = store_buf(mem, w, xs, e);
            mem.write(ptr, &le(p, pw));
            mem.write(ptr + pw, &le(xs.len() as u64, pw));
        }
        (Ty::Map(k, x), Val::Map(es)) => {
            let p = store_buf(mem, w, &map_vals(es), &map_entry(k, x));
            mem.write(ptr, &le(p, pw));
            mem.write(ptr + pw, &le(es.len() as u64, pw));
        }
        (Ty::FixedList(e, n), Val::List(xs)) => {
            assert_eq!(xs.len(), *n as usize);
            let es = size(e, w);
            for (i, x) in xs.iter().enumerate() {
                store_n(mem, w, x, e, ptr + i as u64 * es);
            }
        }
        (Ty::Record(f) | Ty::Tuple(f), Val::Record(xs)) => {
            assert_eq!(xs.len(), f.len());
            let (offs, _, _) = record_layout(f, w);
            for ((ft, x), o) in f.iter().zip(xs).zip(offs) {
                store_n(mem, w, x, ft, ptr + o);
            }
        }
        (Ty::Variant(_) | Ty::Enum(_) | Ty::Option(_) | Ty::Result(..), Val::Variant(i, p)) => {
            let cases = t.cases().unwrap();
            mem.write(ptr, &le(*i as u64, discriminant_size(cases.len())));
            match (&cases[*i as usize], p) {
                (Some(ct), Some(p)) => store_n(mem, w, p, ct, ptr + payload_offset(t, w)),
                (None, None) => {}
                _ => panic!("store_n: payload mismatch {t} / {v}"),
            }
        }
        (Ty::Flags(n), Val::Flags(bits)) => {
            assert_eq!(bits.len(), *n as usize);
            let s = size(t, w);
            if s > 0 {
                mem.write(ptr, &flags_bytes(bits, s));
            }
        }
        (Ty::Own(_) | Ty::Borrow(_) | Ty::Future(_) | Ty::Stream(_) | Ty::ErrorContext, Val::Handle(h)) => {
            mem.write(ptr, &le(*h as u64, 4))
        }
        _ => panic!("store_n: ill-typed value {v} for {t}"),
    }
}

/// `lower_flat(cx, v, t)` with one allocator block per heap buffer.
pub fn lower_flat_n(mem: &mut dyn NativeMem, w: Width, v: &Val, t: &Ty) -> Vec<CoreVal> {
    match (t, v) {
        (Ty::Bool, Val::Bool(b)) => vec![CoreVal::i32(*b as u32)],
        (Ty::U8 | Ty::U16 | Ty::U32, Val::U(x)) => vec![CoreVal::i32(*x as u32)],
        (Ty::U64, Val::U(x)) => vec![CoreVal::i64(*x)],
        (Ty::S8 | Ty::S16 | Ty::S32, Val::S(x)) => vec![CoreVal::i32(*x as i32 as u32)],
        (Ty::S64, Val::S(x)) => vec![CoreVal::i64(*x as u64)],
        (Ty::F32, Val::F32(b)) => vec![CoreVal { ty: CoreTy::F32, bits: *b as u64 }],
        (Ty::F64, Val::F64(b)) => vec![CoreVal { ty: CoreTy::F64, bits: *b }],
        (Ty::Char, Val::Char(c)) => vec![CoreVal::i32(*c)],
        (Ty::String, Val::Str(s)) => {
            let p = store_str(mem, s);
            vec![CoreVal::ptr(w, p), CoreVal::ptr(w, s.len() as u64)]
        }
        (Ty::List(e), Val::List(xs)) => {
            let p = store_buf(mem, w, xs, e);
            vec![CoreVal::ptr(w, p), CoreVal::ptr(w, xs.len() as u64)]
        }
        (Ty::Map(k, x), Val::Map(es)) => {
            let p = store_buf(mem, w, &map_vals(es), &map_entry(k, x));
            vec![CoreVal::ptr(w, p), CoreVal::ptr(w, es.len() as u64)]
        }
        (Ty::FixedList(e, n), Val::List(xs)) => {
            assert_eq!(xs.len(), *n as usize);
            xs.iter().flat_map(|x| lower_flat_n(mem, w, x, e)).collect()
        }
        (Ty::Record(f) | Ty::Tuple(f), Val::Record(xs)) => {
            assert_eq!(xs.len(), f.len());
            let mut out = Vec::new();
            for (t, x) in f.iter().zip(xs) {
                out.extend(lower_flat_n(mem, w, x, t));
            }
            out
        }
        (Ty::Variant(_) | Ty::Enum(_) | Ty::Option(_) | Ty::Result(..), Val::Variant(i, p)) => {
            let cases = t.cases().unwrap();
            let joined = flatten_variant_payload(&cases, w);
            let mut out = vec![CoreVal::i32(*i)];
            let mut k = 0;
            if let (Some(ct), Some(p)) = (&cases[*i as usize], p) {
                for fv in lower_flat_n(mem, w, p, ct) {
                    // every legal pair (have, want) keeps the bit pattern, zero-extended
                    out.push(CoreVal { ty: joined[k], bits: fv.bits });
                    k += 1;
                }
            }
            for want in &joined[k..] {
                out.push(CoreVal { ty: *want, bits: 0 });
            }
            out
        }
        (Ty::Flags(n), Val::Flags(bits)) => {
            let words = (*n as u64).div_ceil(32);
            let bytes = flags_bytes(bits, words * 4);
            (0..words as usize)
                .map(|k| CoreVal::i32(u32::from_le_bytes(bytes[4 * k..4 * k + 4].try_into().unwrap())))
                .collect()
        }
        (Ty::Own(_) | Ty::Borrow(_) | Ty::Future(_) | Ty::Stream(_) | Ty::ErrorContext, Val::Handle(h)) => {
            vec![CoreVal::i32(*h)]
        }
        _ => panic!("lower_flat_n: ill-typed value {v} for {t}"),
    }
}

/// `lower_flat_values`: flat, or stored into `out_ptr` / a fresh block as a tuple-laid-out record.
pub fn lower_values_n(
    mem: &mut dyn NativeMem,
    w: Width,
    max_flat: usize,
    vs: &[Val],
    ts: &[Ty],
    out_ptr: Option<u64>,
) -> Lowered {
    if flatten_types(ts, w).len() > max_flat {
        let (offs, sz, al) = record_layout(ts, w);
        let ptr = match out_ptr {
            Some(p) => p,
            None if sz == 0 => al,
            None => mem.alloc(sz, al),
        };
        assert_eq!(ptr % al, 0, "lower_values_n: misaligned record");
        for ((t, v), o) in ts.iter().zip(vs).zip(offs) {
            store_n(mem, w, v, t, ptr + o);
        }
        Lowered::Indirect { ptr, size: sz, align: al }
    } else {
        let mut out = Vec::new();
        for (t, v) in ts.iter().zip(vs) {
            out.extend(lower_flat_n(mem, w, v, t));
        }
        Lowered::Flat(out)
    }
}

// ---------------------------------------------------------------------------------------------
// self check against the reference functions

/// A `NativeMem` over a plain byte vector (used by [`self_check`] and by unit tests).
pub struct VecMem {
    pub base: u64,
    pub bytes: Vec<u8>,
    pub blocks: Vec<(u64, u64, u64)>,
}

impl VecMem {
    pub fn new(base: u64) -> VecMem {
        VecMem { base, bytes: Vec::new(), blocks: Vec::new() }
    }
}

impl MemRead for VecMem {
    fn read(&self, addr: u64, len: u64) -> Result<Vec<u8>, String> {
        if len == 0 {
            return Ok(vec![]);
        }
        if addr < self.base || addr + len > self.base + self.bytes.len() as u64 {
            return Err(format!("out of bounds read {addr:#x}+{len}"));
        }
        let o = (addr - self.base) as usize;
        Ok(self.bytes[o..o + len as usize].to_vec())
    }
}

impl NativeMem for VecMem {
    fn alloc(&mut self, size: u64, align: u64) -> u64 {
        let end = self.base + self.bytes.len() as u64;
        let start = (end + 5).div_ceil(align.max(1)) * align.max(1);
        self.bytes.resize((start + size - self.base) as usize, 0xEE);
        self.blocks.push((start, size, align));
        start
    }
    fn write(&mut self, addr: u64, data: &[u8]) {
        let o = (addr - self.base) as usize;
        self.bytes[o..o + data.len()].copy_from_slice(data);
    }
}

/// Lower `v : t` with this module (memory and flat form) and lift it back with the reference
/// `abi::load` / `abi::lift_flat`; also compare the block list with `abi::heap_buffers`.
/// `Err` = this module and the reference disagree (a harness defect, never a verdict).
pub fn self_check(t: &Ty, v: &Val, w: Width, enc: Enc) -> Result<(), String> {
    use crate::abi::{heap_buffers, lift_flat, load, FlatIter};
    use crate::ty::val_eq;
    let (et, ev) = (enc_ty(t, enc), enc_val(t, v, enc));
    // memory form
    let mut m = VecMem::new(0x1000);
    let sz = size(&et, w).max(1);
    let p = m.alloc(sz, alignment(&et, w));
    m.blocks.clear();
    store_n(&mut m, w, &ev, &et, p);
    let back = load(&m, w, p, &et).map_err(|e| format!("load after store_n: {e}"))?;
    let back = dec_val(t, &back, enc)?;
    if !val_eq(&back, v) {
        return Err(format!("store_n/load: {v} came back as {back} for {t}"));
    }
    let mut want = Vec::new();
    heap_buffers(&et, &ev, w, &mut want);
    let got: Vec<(u64, u64)> = m.blocks.iter().map(|(_, s, a)| (*s, *a)).collect();
    let mut a = want.clone();
    let mut b = got.clone();
    a.sort();
    b.sort();
    if a != b {
        return Err(format!("store_n blocks {got:?} != heap_buffers {want:?} for {v} : {t}"));
    }
    // flat form
    let mut m = VecMem::new(0x1000);
    let flat = lower_flat_n(&mut m, w, &ev, &et);
    let want_tys = crate::abi::flatten(&et, w);
    if flat.iter().map(|c| c.ty).collect::<Vec<_>>() != want_tys {
        return Err(format!("lower_flat_n types differ from flatten for {t}"));
    }
    let mut it = FlatIter { vals: &flat, pos: 0 };
    let back = lift_flat(&m, w, &mut it, &et).map_err(|e| format!("lift_flat after lower_flat_n: {e}"))?;
    let back = dec_val(t, &back, enc)?;
    if !val_eq(&back, v) {
        return Err(format!("lower_flat_n/lift_flat: {v} came back as {back} for {t}"));
    }
    Ok(())
}
