use refabi::*;
fn main() {
    let b = universe::bounds_json();
    println!("{}", serde_json::to_string_pretty(&b["sizes"]).unwrap());
    // self round trip + xcheck on quick universe
    let tys = universe::universe(&std::env::args().nth(1).unwrap_or("quick".into()));
    let mut rep = xcheck::Report::default();
    let mut nvals = 0usize;
    for chunk in tys.chunks(64) {
        let mut doc = wit::WitDoc::new();
        for (i, t) in chunk.iter().enumerate() {
            doc.root(&format!("root{i}"), t);
        }
        let p = match wit::parse(&doc.text()) {
            Ok(p) => p,
            Err(e) => { println!("PARSE ERR {e}\n{}", doc.text()); continue; }
        };
        let mut sizes = wit_parser::SizeAlign::default();
        sizes.fill(&p.resolve);
        for (i, t) in chunk.iter().enumerate() {
            let wt = p.root(&format!("root{i}"));
            xcheck::check_type(&p.resolve, &sizes, &wt, t, &mut rep);
            assert_eq!(&xcheck::ty_of(&p.resolve, &wt), t);
            for v in universe::values(t) {
                nvals += 1;
                for w in Width::both() {
                    let mut m = RefMem::new(w, 0x1008, 0xA5);
                    let a = m.alloc(abi::size(t, w), abi::alignment(t, w).max(8));
                    abi::store(&mut m, &v, t, a);
                    let back = abi::load(&m, w, a, t).unwrap();
                    assert!(val_eq(&back, &v), "{t} {v} -> {back}");
                    let flat = abi::lower_flat(&mut m, &v, t);
                    let mut it = abi::FlatIter { vals: &flat, pos: 0 };
                    let back = abi::lift_flat(&m, w, &mut it, t).unwrap();
                    assert!(val_eq(&back, &v), "flat {t} {v} -> {back}");
                    assert_eq!(it.pos, flat.len());
                }
            }
        }
    }
    println!("types {} values {} nodes {} disagreements {} tolerated {:?}", tys.len(), nvals, rep.nodes_compared, rep.disagreements.len(), rep.tolerated);
    for d in rep.disagreements.iter().take(20) { println!("  {d}"); }
}
