//! C12 pipeline: generate C in-process → clang --target=wasm32 → wasm-ld → ComponentEncoder.

use crate::compo;
use crate::util::*;
use std::path::{Path, PathBuf};
use wit_parser::{Resolve, WorldId};

#[derive(Clone, Debug, PartialEq, Eq)]
pub struct CConfig {
    pub no_sig_flattening: bool,
    pub autodrop: bool,
    pub utf16: bool,
    pub async_all: bool,
}

impl CConfig {
    pub fn name(&self) -> String {
        let base = if self.no_sig_flattening {
            "no-sig-flattening"
        } else if self.autodrop {
            "autodrop"
        } else if self.async_all {
            "async"
        } else {
            "default"
        };
        format!("{base}/{}", if self.utf16 { "utf16" } else { "utf8" })
    }
    pub fn from_name(n: &str) -> Option<CConfig> {
        let (b, e) = n.split_once('/')?;
        Some(CConfig {
            no_sig_flattening: b == "no-sig-flattening",
            autodrop: b == "autodrop",
            async_all: b == "async",
            utf16: e == "utf16",
        })
    }
    /// {default, --no-sig-flattening, --autodrop-borrows=yes, --async=all} x {utf8, utf16}
    pub fn all() -> Vec<CConfig> {
        let mut v = Vec::new();
        for utf16 in [false, true] {
            for k in 0..4 {
                v.push(CConfig {
                    no_sig_flattening: k == 1,
                    autodrop: k == 2,
                    async_all: k == 3,
                    utf16,
                });
            }
        }
        v
    }
}

pub fn generate(resolve: &Resolve, world: WorldId, cfg: &CConfig) -> Result<Vec<(String, Vec<u8>)>, String> {
    let mut resolve = resolve.clone();
    let mut opts = wit_bindgen_c::Opts::default();
    opts.no_sig_flattening = cfg.no_sig_flattening;
    if cfg.autodrop {
        opts.autodrop_borrows = wit_bindgen_c::Enabled::Yes;
    }
    if cfg.utf16 {
        opts.string_encoding = wit_component::StringEncoding::UTF16;
    }
    if cfg.async_all {
        opts.async_ = wit_bindgen_core::AsyncFilterSet::all(true);
    }
    let r = vcommon::catch(move || {
        let mut files = wit_bindgen_core::Files::default();
        let mut g = opts.build();
        g.generate(&mut resolve, world, &mut files).map(|_| {
            files
                .iter()
                .map(|(n, b)| (n.to_string(), b.to_vec()))
                .collect::<Vec<_>>()
        })
    });
    match r {
        Err(p) => Err(format!("generator panicked: {p}")),
        Ok(Err(e)) => Err(format!("generator error: {e:#}")),
        Ok(Ok(f)) => Ok(f),
    }
}

pub struct Toolchain {
    pub clang: String,
    pub wasm_ld: String,
    pub include: PathBuf,
    pub libc_o: PathBuf,
    pub clang_version: String,
}

pub const CLANG_FLAGS: &[&str] = &[
    "--target=wasm32",
    "-nostdlibinc",
    "-Wall",
    "-Wextra",
    "-Werror",
    "-Wc++-compat",
    "-Wno-unused-parameter",
    "-c",
];

pub const LD_FLAGS: &[&str] = &["--no-entry", "--no-gc-sections", "--fatal-warnings"];

impl Toolchain {
    /// Find clang / wasm-ld and compile the stub libc once into `scratch`.
    pub fn prepare(scratch: &Path) -> Toolchain {
        let clang = ["clang", "clang-14"]
            .iter()
            .find(|c| run_ok(c, &["--version"]))
            .unwrap_or_else(|| vcommon::machinery("no clang found"))
            .to_string();
        let wasm_ld = ["wasm-ld", "wasm-ld-14"]
            .iter()
            .find(|c| run_ok(c, &["--version"]))
            .unwrap_or_else(|| vcommon::machinery("no wasm-ld found"))
            .to_string();
        let include = PathBuf::from(vcommon::verif_root()).join("cstub/include");
        let libc_c = PathBuf::from(vcommon::verif_root()).join("cstub/libc.c");
        if !include.join("stdlib.h").exists() || !libc_c.exists() {
            vcommon::machinery("cstub headers / libc.c missing under <verif>/cstub");
        }
        let libc_o = scratch.join("cstub_libc.o");
        let out = run(
            &clang,
            &[
                "--target=wasm32", "-nostdlibinc", "-isystem", include.to_str().unwrap(), "-O1", "-c",
                libc_c.to_str().unwrap(), "-o", libc_o.to_str().unwrap(),
            ],
            None,
            60_000,
        );
        if !out.ok {
            vcommon::machinery(&format!("stub libc does not compile: {}", out.text));
        }
        let v = run(&clang, &["--version"], None, 10_000);
        Toolchain {
            clang,
            wasm_ld,
            include,
            libc_o,
            clang_version: v.text.lines().next().unwrap_or("").to_string(),
        }
    }
}

#[derive(Debug, Clone)]
pub struct Fail {
    pub stage: &'static str,
    pub msg: String,
}

/// The functions the *user* of the bindings must define are, by the C generator's documented
/// convention, (1) every prototype in a `// Exported Functions from ...` section of the header
/// and (2) the non-`extern` `..._destructor` prototype of every exported resource.  The header is
/// regular (one prototype per line); scan it and return a translation unit defining each of
/// them with an aborting body, plus the number of stubs.
pub fn export_stubs(header_name: &str, header: &str) -> (String, usize) {
    let mut out = format!("#include \"{header_name}\"\n\n");
    let mut n = 0;
    let mut in_exports = false;
    for line in header.lines() {
        let t = line.trim();
        if t.starts_with("// Exported Functions from") {
            in_exports = true;
            continue;
        }
        if t.starts_with("// Imported Functions from") || t.starts_with("// Helper Functions") {
            in_exports = false;
            continue;
        }
        if t.is_empty()
            || t.starts_with("//")
            || t.starts_with('#')
            || t.starts_with("typedef ")
            || t.starts_with("extern ")
            || t.starts_with("static ")
            || !t.ends_with(");")
        {
            continue;
        }
        let proto = t.trim_end_matches(';').trim();
        let Some(paren) = proto.find('(') else { continue };
        let Some(name) = proto[..paren]
            .split(|c: char| c.is_whitespace() || c == '*')
            .filter(|s| !s.is_empty())
            .last()
        else {
            continue;
        };
        if !(in_exports || name.ends_with("_destructor")) {
            continue;
        }
        n += 1;
        // __builtin_trap, not abort(): a parameter may legitimately be called `abort`
        out.push_str(&format!("{proto} {{\n  __builtin_trap();\n}}\n\n"));
    }
    (out, n)
}

pub struct Built {
    pub t_clang: f64,
    pub t_link: f64,
    pub module: Vec<u8>,
    pub n_export_stubs: usize,
    pub c_bytes: usize,
}

/// Compile + link the generated files in `dir` (created, caller removes).
pub fn build(tc: &Toolchain, dir: &Path, files: &[(String, Vec<u8>)]) -> Result<Built, Fail> {
    std::fs::create_dir_all(dir).map_err(|e| Fail { stage: "machinery", msg: e.to_string() })?;
    let mut c = None;
    let mut h = None;
    let mut o = None;
    for (n, b) in files {
        std::fs::write(dir.join(n), b).map_err(|e| Fail { stage: "machinery", msg: e.to_string() })?;
        if n.ends_with(".c") {
            c = Some(n.clone());
        } else if n.ends_with(".h") {
            h = Some(n.clone());
        } else if n.ends_with("_component_type.o") {
            o = Some(n.clone());
        }
    }
    let (Some(c), Some(h), Some(o)) = (c, h, o) else {
        return Err(Fail {
            stage: "generate",
            msg: format!(
                "expected <world>.c, <world>.h, <world>_component_type.o; got {:?}",
                files.iter().map(|f| &f.0).collect::<Vec<_>>()
            ),
        });
    };
    let header = String::from_utf8_lossy(&files.iter().find(|f| f.0 == h).unwrap().1).into_owned();
    let csrc = String::from_utf8_lossy(&files.iter().find(|f| f.0 == c).unwrap().1).into_owned();
    let inc = tc.include.to_str().unwrap();
    let t0 = std::time::Instant::now();
    let (stubs, n_stubs) = export_stubs(&h, &header);
    std::fs::write(dir.join("verif_export_stubs.c"), &stubs).unwrap();
    // one clang process for both translation units (same flags); only when that fails are they
    // compiled separately to attribute the failure to the generated source or to the user side
    let mut args: Vec<&str> = CLANG_FLAGS.to_vec();
    args.extend(["-isystem", inc, "-I", ".", c.as_str(), "verif_export_stubs.c"]);
    let out = run(&tc.clang, &args, Some(dir), 300_000);
    let bindings_o = format!("{}.o", c.trim_end_matches(".c"));
    if !out.ok {
        if out.timed_out {
            return Err(Fail { stage: "machinery", msg: "clang timed out twice".into() });
        }
        let mut args: Vec<&str> = CLANG_FLAGS.to_vec();
        args.extend(["-isystem", inc, "-I", ".", c.as_str(), "-o", bindings_o.as_str()]);
        let out1 = run(&tc.clang, &args, Some(dir), 300_000);
        if out1.timed_out || out1.code.is_none() {
            return Err(Fail { stage: "machinery", msg: format!("clang timed out or was killed: {}", trim_msg(&out1.text)) });
        }
        if !out1.ok {
            return Err(Fail { stage: "clang", msg: trim_msg(&out1.text) });
        }
        // the user-side translation unit only includes the header and defines what it declares
        let mut args: Vec<&str> = CLANG_FLAGS.to_vec();
        args.extend(["-isystem", inc, "-I", ".", "verif_export_stubs.c", "-o", "verif_export_stubs.o"]);
        let out2 = run(&tc.clang, &args, Some(dir), 300_000);
        if out2.ok || out2.timed_out || out2.code.is_none() {
            // both translation units compile on their own: the combined run failed for a reason
            // that is not in the sources (killed, out of memory ...)
            return Err(Fail { stage: "machinery", msg: format!("combined clang run failed ({:?}) but both translation units compile separately: {}", out.code, trim_msg(&out.text)) });
        }
        return Err(Fail { stage: "clang-user", msg: trim_msg(&out2.text) });
    }
    let libc = tc.libc_o.to_str().unwrap();
    let t_clang = t0.elapsed().as_secs_f64();
    let t1 = std::time::Instant::now();
    let mut args: Vec<&str> = LD_FLAGS.to_vec();
    args.extend([bindings_o.as_str(), "verif_export_stubs.o", o.as_str(), libc, "-o", "core.wasm"]);
    let out = run(&tc.wasm_ld, &args, Some(dir), 300_000);
    if out.timed_out || out.code.is_none() {
        return Err(Fail { stage: "machinery", msg: format!("wasm-ld timed out or was killed: {}", trim_msg(&out.text)) });
    }
    if !out.ok {
        return Err(Fail { stage: "link", msg: trim_msg(&out.text) });
    }
    let module = std::fs::read(dir.join("core.wasm")).map_err(|e| Fail { stage: "machinery", msg: e.to_string() })?;
    Ok(Built { t_clang, t_link: t1.elapsed().as_secs_f64(), module, n_export_stubs: n_stubs, c_bytes: csrc.len() })
}

pub fn check_component(module: &[u8], want: &compo::WorldSig) -> Result<usize, Fail> {
    let (bytes, got) = compo::componentize(module).map_err(|m| Fail { stage: "encode", msg: trim_msg(&m) })?;
    let d = compo::compare(want, &got, true);
    if !d.is_empty() {
        return Err(Fail { stage: "world", msg: trim_msg(&d.join("; ")) });
    }
    Ok(bytes.len())
}
