//! Component-encoder oracle and world equality.
//!
//! `world_sig` renders a world as a name-keyed, id-free description (imports / exports by
//! name, kind, function names and structural function types).  It is applied to the *requested*
//! world (the Resolve the generator was given) and to the world decoded from the encoded
//! component, and the two are compared by `compare`.
//!
//! What is compared (and only this):
//!  * exports: exactly the same set of names; same kind; for interfaces the same function
//!    names with the same structural signature; for functions the same signature;
//!  * imports: nothing in the component that the world does not import; same kind and
//!    signatures for everything present; every requested import that carries at least one
//!    function or resource must be present with *all* its functions when `complete_imports`
//!    is set (the build kept all code: `--no-gc-sections` for C, a keep-alive root for Rust).  Imports that
//!    carry only types may legitimately be elided by wit-component.
//!  * resources are compared by name only (not by owning interface).

use std::collections::BTreeMap;
use wit_parser::*;

#[derive(Debug, Clone, PartialEq, Eq)]
pub enum ItemSig {
    Func(String),
    Interface {
        funcs: BTreeMap<String, String>,
        /// names of resources defined in the interface
        resources: Vec<String>,
    },
    Type(String),
}

#[derive(Debug, Clone, PartialEq, Eq, Default)]
pub struct WorldSig {
    pub imports: BTreeMap<String, ItemSig>,
    pub exports: BTreeMap<String, ItemSig>,
}

pub fn type_str(r: &Resolve, t: &Type, depth: usize) -> String {
    if depth > 40 {
        return "…".into();
    }
    match t {
        Type::Bool => "bool".into(),
        Type::U8 => "u8".into(),
        Type::U16 => "u16".into(),
        Type::U32 => "u32".into(),
        Type::U64 => "u64".into(),
        Type::S8 => "s8".into(),
        Type::S16 => "s16".into(),
        Type::S32 => "s32".into(),
        Type::S64 => "s64".into(),
        Type::F32 => "f32".into(),
        Type::F64 => "f64".into(),
        Type::Char => "char".into(),
        Type::String => "string".into(),
        Type::ErrorContext => "error-context".into(),
        Type::Id(id) => {
            let td = &r.types[*id];
            let d = depth + 1;
            let o = |t: &Option<Type>| match t {
                Some(t) => type_str(r, t, d),
                None => "_".into(),
            };
            match &td.kind {
                TypeDefKind::Type(t) => type_str(r, t, d),
                TypeDefKind::Record(rec) => format!(
                    "record{{{}}}",
                    rec.fields
                        .iter()
                        .map(|f| format!("{}:{}", f.name, type_str(r, &f.ty, d)))
                        .collect::<Vec<_>>()
                        .join(",")
                ),
                TypeDefKind::Resource => {
                    format!("resource:{}", td.name.clone().unwrap_or_default())
                }
                TypeDefKind::Handle(Handle::Own(i)) => {
                    format!("own<{}>", type_str(r, &Type::Id(*i), d))
                }
                TypeDefKind::Handle(Handle::Borrow(i)) => {
                    format!("borrow<{}>", type_str(r, &Type::Id(*i), d))
                }
                TypeDefKind::Flags(f) => format!(
                    "flags{{{}}}",
                    f.flags
                        .iter()
                        .map(|f| f.name.clone())
                        .collect::<Vec<_>>()
                        .join(",")
                ),
                TypeDefKind::Tuple(t) => format!(
                    "tuple<{}>",
                    t.types
                        .iter()
                        .map(|t| type_str(r, t, d))
                        .collect::<Vec<_>>()
                        .join(",")
                ),
                TypeDefKind::Variant(v) => format!(
                    "variant{{{}}}",
                    v.cases
                        .iter()
                        .map(|c| format!("{}({})", c.name, o(&c.ty)))
                        .collect::<Vec<_>>()
                        .join(",")
                ),
                TypeDefKind::Enum(e) => format!(
                    "enum{{{}}}",
                    e.cases
                        .iter()
                        .map(|c| c.name.clone())
                        .collect::<Vec<_>>()
                        .join(",")
                ),
                TypeDefKind::Option(t) => format!("option<{}>", type_str(r, t, d)),
                TypeDefKind::Result(res) => format!("result<{},{}>", o(&res.ok), o(&res.err)),
                TypeDefKind::List(t) => format!("list<{}>", type_str(r, t, d)),
                TypeDefKind::Map(k, v) => {
                    format!("map<{},{}>", type_str(r, k, d), type_str(r, v, d))
                }
                TypeDefKind::FixedLengthList(t, n) => {
                    format!("list<{},{}>", type_str(r, t, d), n)
                }
                TypeDefKind::Future(t) => format!("future<{}>", o(t)),
                TypeDefKind::Stream(t) => format!("stream<{}>", o(t)),
                TypeDefKind::Unknown => "unknown".into(),
            }
        }
    }
}

pub fn func_sig(r: &Resolve, f: &Function) -> String {
    let is_async = matches!(
        f.kind,
        FunctionKind::AsyncFreestanding | FunctionKind::AsyncMethod(_) | FunctionKind::AsyncStatic(_)
    );
    format!(
        "{}func({}){}",
        if is_async { "async " } else { "" },
        f.params
            .iter()
            .map(|p| format!("{}:{}", p.name, type_str(r, &p.ty, 0)))
            .collect::<Vec<_>>()
            .join(","),
        match &f.result {
            Some(t) => format!("->{}", type_str(r, t, 0)),
            None => String::new(),
        }
    )
}

fn item_sig(r: &Resolve, item: &WorldItem) -> ItemSig {
    match item {
        WorldItem::Function(f) => ItemSig::Func(func_sig(r, f)),
        WorldItem::Interface { id, .. } => {
            let i = &r.interfaces[*id];
            let mut resources = Vec::new();
            for (n, t) in i.types.iter() {
                if matches!(r.types[*t].kind, TypeDefKind::Resource) {
                    resources.push(n.clone());
                }
            }
            resources.sort();
            ItemSig::Interface {
                funcs: i
                    .functions
                    .iter()
                    .map(|(n, f)| (n.clone(), func_sig(r, f)))
                    .collect(),
                resources,
            }
        }
        WorldItem::Type { id, .. } => ItemSig::Type(type_str(r, &Type::Id(*id), 0)),
    }
}

pub fn world_sig(r: &Resolve, w: WorldId) -> WorldSig {
    let world = &r.worlds[w];
    let mut s = WorldSig::default();
    for (k, item) in world.imports.iter() {
        s.imports.insert(r.name_world_key(k), item_sig(r, item));
    }
    for (k, item) in world.exports.iter() {
        s.exports.insert(r.name_world_key(k), item_sig(r, item));
    }
    s
}

/// Differences between the requested world and the world of the encoded component.
pub fn compare(want: &WorldSig, got: &WorldSig, complete_imports: bool) -> Vec<String> {
    let mut d = Vec::new();
    for (n, w) in &want.exports {
        match got.exports.get(n) {
            None => d.push(format!("export `{n}` missing from component")),
            Some(g) if g != w => d.push(format!("export `{n}` differs: want {w:?} got {g:?}")),
            _ => {}
        }
    }
    for n in got.exports.keys() {
        if !want.exports.contains_key(n) {
            d.push(format!("component has extra export `{n}`"));
        }
    }
    for (n, g) in &got.imports {
        match want.imports.get(n) {
            None => d.push(format!("component has extra import `{n}`")),
            Some(w) => match (w, g) {
                (ItemSig::Func(a), ItemSig::Func(b)) if a == b => {}
                (ItemSig::Type(_), ItemSig::Type(_)) => {}
                (
                    ItemSig::Interface { funcs: wf, resources: wr },
                    ItemSig::Interface { funcs: gf, resources: gr },
                ) => {
                    for (fname, gsig) in gf {
                        match wf.get(fname) {
                            None => d.push(format!("import `{n}` has extra function `{fname}`")),
                            Some(ws) if ws != gsig => d.push(format!(
                                "import `{n}` function `{fname}` differs: want {ws} got {gsig}"
                            )),
                            _ => {}
                        }
                    }
                    for rn in gr {
                        if !wr.contains(rn) {
                            d.push(format!("import `{n}` has extra resource `{rn}`"));
                        }
                    }
                    if complete_imports {
                        for fname in wf.keys() {
                            if !gf.contains_key(fname) {
                                d.push(format!("import `{n}` lacks function `{fname}`"));
                            }
                        }
                    }
                }
                _ => d.push(format!("import `{n}` differs: want {w:?} got {g:?}")),
            },
        }
    }
    if complete_imports {
        for (n, w) in &want.imports {
            let needs = match w {
                ItemSig::Func(_) => true,
                ItemSig::Interface { funcs, .. } => !funcs.is_empty(),
                ItemSig::Type(_) => false,
            };
            if needs && !got.imports.contains_key(n) {
                // wit-component resolves a module import `ns:pkg/i@1.0.0` to a semver-compatible
                // `ns:pkg/i@1.0.1` of the same world when both are imported, so only one of them
                // shows up in the component: tolerated when another version of the same
                // interface is present.
                let base = n.split('@').next().unwrap_or(n);
                let other_version = n.contains('@')
                    && got.imports.keys().any(|g| g != n && g.split('@').next() == Some(base) && g.contains('@'));
                if !other_version {
                    d.push(format!("import `{n}` missing from component"));
                }
            }
        }
    }
    d
}

/// Encode a core module as a component with validation, decode it again and return its world.
pub fn componentize(module: &[u8]) -> Result<(Vec<u8>, WorldSig), String> {
    let bytes = wit_component::ComponentEncoder::default()
        .module(module)
        .map_err(|e| format!("ComponentEncoder::module: {e:#}"))?
        .validate(true)
        .encode().map_err(|e| format!("ComponentEncoder::encode: {e:#}"))?;
    match wit_component::decode(&bytes).map_err(|e| format!("decode: {e:#}"))? {
        wit_component::DecodedWasm::Component(r, w) => {
            let sig = world_sig(&r, w);
            Ok((bytes, sig))
        }
        _ => Err("decode: not a component".into()),
    }
}
