//! E5 build+componentize engine (C12 C backend, C09 Rust backend) and the `generate!`
//! dependency-tracking check (C32).
pub mod cbuild;
pub mod compo;
pub mod rsbuild;
pub mod util;
pub mod worlds;
