//! C09 — generated Rust builds for wasm32 and componentizes as exactly the requested world.
//!
//! Space: enumerated worlds (adversarial Rust names — keywords, prelude items, generator
//! temporaries — in every naming position; every type constructor; resources; flat-parameter
//! limits; kebab variants) + tests/codegen corpus x {owning, borrowing} x {std, no-std
//! (`std_feature`)} x {merge-structurally-equal-types} x {BTreeMap, HashMap} x {raw-strings}.
//! Oracle: bindings + generated stubs (`stubs` option, `export!(Stub)`) compile:
//!  * no-std configurations: real `wasm32-unknown-unknown` cdylib build (nightly rustc, no_std
//!    mini-sysroot from rust-src, wit-bindgen runtime built for wasm32 no_std, rust-lld), then
//!    ComponentEncoder(validate) + world equality;
//!  * std configurations: native `rustc --emit=metadata` against a natively built wit-bindgen;
//!    the wasm32 half is attempted opportunistically in a `#![no_std]` crate (a compile failure
//!    there is not a verdict) and otherwise replaced by comparing the extracted
//!    `wasm_import_module`/`link_name`/`export_name` declarations with wit-parser's names.

use e5_build::compo;
use e5_build::rsbuild::{self, RConfig};
use e5_build::util::*;
use e5_build::worlds::{self, Case};
use serde_json::{json, Value};
use std::collections::{BTreeMap, BTreeSet};
use std::path::Path;
use wit_parser::*;

const EXCLUSION_TABLE: &[(&str, &str, &str)] = &[
    (
        "borrowing-duplicate-if-necessary on wasi-http / more-variants (configuration not in the C09 factorial)",
        "crates/test/src/rust.rs:82",
        "name == \"wasi-http-borrowed-duplicate\" || name == \"more-variants.wit-borrowed-duplicate\"",
    ),
    (
        "named fixed-length list with --async=all (configuration not in the C09 factorial)",
        "crates/test/src/rust.rs:88",
        "name == \"named-fixed-length-list.wit-async\"",
    ),
    ("variant:borrowed", "crates/test/src/rust.rs:97", "(\"borrowed\", &[\"--ownership=borrowing\"])"),
    ("variant:no-std", "crates/test/src/rust.rs:103", "(\"no-std\", &[\"--std-feature\"])"),
    ("variant:merge-equal", "crates/test/src/rust.rs:104", "(\"merge-equal\", &[\"--merge-structurally-equal-types\"])"),
    ("variant:hashmap", "crates/test/src/rust.rs:105", "(\"hashmap\", &[\"--map-type=std::collections::HashMap\"])"),
    ("default args: --generate-all, --stubs", "crates/test/src/rust.rs:110-114", "&[\"--stubs\"]"),
];

fn check_exclusion_table() {
    let p = format!("{}/crates/test/src/rust.rs", vcommon::repo_root());
    let src = std::fs::read_to_string(&p).unwrap_or_else(|e| vcommon::machinery(&format!("cannot read {p}: {e}")));
    for (what, cite, needle) in EXCLUSION_TABLE {
        if !src.contains(needle) {
            vcommon::machinery(&format!("exclusion table out of date: `{what}` ({cite}) no longer found in {p}"));
        }
    }
}

/// `raw_strings`: lowering an owned string calls `.into_bytes()` on what already is a `Vec<u8>`.
/// Every world that returns a string from an export (or passes one where the callee takes
/// ownership) fails to compile with exactly this error and nothing else; reported once as a class.
const RAW_STRINGS_MSG: &str = "no method named `into_bytes` found for struct";
const RAW_STRINGS_KEY: &str = "raw-strings:owned-string-lower:into_bytes";

pub const RUST_NAMES_QUICK: &[&str] = &[
    // the property's list: keywords, prelude items, generator temporaries
    "type", "guest", "self", "super", "crate", "match", "fn", "mod", "use", "impl", "trait", "where", "async",
    "await", "dyn", "move", "ref", "static", "option", "result", "vec", "string", "box", "some", "none",
    "ok", "err", "ptr0", "len0", "result0", "ret", "base", "e", "t", "map-key", "vec0", "handle",
];

pub const RUST_NAMES_MORE: &[&str] = &[
    "as", "break", "const", "continue", "else", "enum", "extern", "false", "for", "if", "in", "let",
    "loop", "mut", "pub", "return", "struct", "true", "unsafe", "while", "abstract", "become", "do",
    "final", "macro", "override", "priv", "typeof", "unsized", "virtual", "yield", "try", "gen", "union",
    "drop", "clone", "default", "send", "sync", "sized", "copy", "into", "from", "iterator", "debug",
    "core", "alloc", "std", "wit-bindgen", "rt", "stub", "export", "exports", "new", "rep",
    "ptr", "len", "layout", "address", "array", "arg0", "l0", "v0", "e0", "bytes0", "wit-import", "wit-import0",
    "cleanup-list", "handle0", "this", "from-handle", "take-handle", "lift", "lower", "abi", "i32", "u8",
    "str", "usize", "f32", "bool", "char", "t0", "result1", "ret-area", "cabi-post", "post-return",
];

/// Core-level names wit-parser expects for a sync world (legacy mangling).
fn expected_decls(r: &Resolve, w: WorldId) -> (BTreeSet<(String, String)>, BTreeSet<String>) {
    let m = ManglingAndAbi::Legacy(LiftLowerAbi::Sync);
    let world = &r.worlds[w];
    let mut imports = BTreeSet::new();
    let mut exports = BTreeSet::new();
    for (key, item) in world.imports.iter() {
        match item {
            WorldItem::Function(f) => {
                imports.insert(r.wasm_import_name(m, WasmImport::Func { interface: None, func: f }));
            }
            WorldItem::Interface { id, .. } => {
                for (_, f) in r.interfaces[*id].functions.iter() {
                    imports.insert(r.wasm_import_name(m, WasmImport::Func { interface: Some(key), func: f }));
                }
                for (_, t) in r.interfaces[*id].types.iter() {
                    if matches!(r.types[*t].kind, TypeDefKind::Resource) {
                        imports.insert(r.wasm_import_name(
                            m,
                            WasmImport::ResourceIntrinsic { interface: Some(key), resource: *t, intrinsic: ResourceIntrinsic::ImportedDrop },
                        ));
                    }
                }
            }
            WorldItem::Type { id, .. } => {
                if matches!(r.types[*id].kind, TypeDefKind::Resource) {
                    imports.insert(r.wasm_import_name(
                        m,
                        WasmImport::ResourceIntrinsic { interface: None, resource: *id, intrinsic: ResourceIntrinsic::ImportedDrop },
                    ));
                }
            }
        }
    }
    for (key, item) in world.exports.iter() {
        match item {
            WorldItem::Function(f) => {
                exports.insert(r.wasm_export_name(m, WasmExport::Func { interface: None, func: f, kind: WasmExportKind::Normal }));
            }
            WorldItem::Interface { id, .. } => {
                for (_, f) in r.interfaces[*id].functions.iter() {
                    exports.insert(r.wasm_export_name(m, WasmExport::Func { interface: Some(key), func: f, kind: WasmExportKind::Normal }));
                }
                for (_, t) in r.interfaces[*id].types.iter() {
                    if matches!(r.types[*t].kind, TypeDefKind::Resource) {
                        exports.insert(r.wasm_export_name(m, WasmExport::ResourceDtor { interface: key, resource: *t }));
                        for intrinsic in [ResourceIntrinsic::ExportedDrop, ResourceIntrinsic::ExportedNew, ResourceIntrinsic::ExportedRep] {
                            imports.insert(r.wasm_import_name(m, WasmImport::ResourceIntrinsic { interface: Some(key), resource: *t, intrinsic }));
                        }
                    }
                }
            }
            WorldItem::Type { .. } => {}
        }
    }
    (imports, exports)
}

/// Compare textual declarations of the bindings with the expected core names (sync worlds only).
fn compare_decls(r: &Resolve, w: WorldId, bindings: &str) -> Vec<String> {
    let (wi, we) = expected_decls(r, w);
    let (gi, ge) = rsbuild::extract_decls(bindings);
    let gi: BTreeSet<(String, String)> = gi.into_iter().collect();
    let ge: BTreeSet<String> = ge.into_iter().collect();
    let mut d = Vec::new();
    for x in wi.difference(&gi) {
        d.push(format!("bindings lack import {}::{}", x.0, x.1));
    }
    for x in gi.difference(&wi) {
        d.push(format!("bindings declare unexpected import {}::{}", x.0, x.1));
    }
    for x in we.difference(&ge) {
        d.push(format!("bindings lack export {x}"));
    }
    for x in ge.difference(&we) {
        if x.starts_with("cabi_post_") || x == "cabi_realloc" {
            continue;
        }
        d.push(format!("bindings declare unexpected export {x}"));
    }
    d
}

fn evaluate(tc: &rsbuild::RustToolchain, case: &Case, cfg: &RConfig, edition: &str, dir: &Path) -> Value {
    let t0 = std::time::Instant::now();
    let mut rec = json!({"case": case.id, "config": cfg.name(), "edition": edition});
    let (resolve, world) = match worlds::load(case) {
        Ok(x) => x,
        Err(e) => {
            rec["outcome"] = json!("wit-rejected");
            rec["msg"] = json!(trim_msg(&format!("{e:#}")));
            return rec;
        }
    };
    let feats = worlds::features(&resolve, world);
    let reached = std::cell::Cell::new(false);
    let res: Result<Value, rsbuild::Fail> = (|| {
        let bindings = rsbuild::generate(&resolve, world, cfg).map_err(|m| rsbuild::Fail { stage: "generate", msg: trim_msg(&m) })?;
        {
            let w = &resolve.worlds[world];
            if !w.imports.is_empty() || !w.exports.is_empty() {
                reached.set(true);
            }
        }
        let want = compo::world_sig(&resolve, world);
        let encode = |module: &[u8]| -> Result<Value, rsbuild::Fail> {
            let (bytes, got) = compo::componentize(module).map_err(|m| rsbuild::Fail { stage: "encode", msg: trim_msg(&m) })?;
            // the keep-alive root cannot force the body of an `async fn` wrapper to be generated
            let d = compo::compare(&want, &got, !feats.async_funcs);
            if !d.is_empty() {
                return Err(rsbuild::Fail { stage: "world", msg: trim_msg(&d.join("; ")) });
            }
            Ok(json!({"module_bytes": module.len(), "component_bytes": bytes.len(), "imports": want.imports.len(), "exports": want.exports.len()}))
        };
        if cfg.std_feature {
            let module = rsbuild::build_wasm(tc, dir, &bindings, edition)?;
            let mut info = encode(&module)?;
            info["route"] = json!("wasm32");
            info["rs_bytes"] = json!(bindings.len());
            Ok(info)
        } else {
            rsbuild::check_native(tc, dir, &bindings, edition)?;
            // wasm32 half
            let mut info = json!({"rs_bytes": bindings.len(), "imports": want.imports.len(), "exports": want.exports.len()});
            let try_wasm = !(cfg.hashmap && feats.map);
            let mut done = false;
            if try_wasm {
                match rsbuild::build_wasm(tc, dir, &bindings, edition) {
                    Ok(module) => {
                        let i2 = encode(&module)?;
                        info["route"] = json!("native+wasm32");
                        info["module_bytes"] = i2["module_bytes"].clone();
                        info["component_bytes"] = i2["component_bytes"].clone();
                        done = true;
                    }
                    Err(f) if f.stage == "link" => return Err(f),
                    Err(f) => {
                        info["no_std_build_of_std_bindings"] = json!(first_error(&f.msg));
                    }
                }
            }
            if !done {
                if feats.async_funcs || feats.future_or_stream {
                    info["route"] = json!("native-only");
                } else {
                    let d = compare_decls(&resolve, world, &bindings);
                    if !d.is_empty() {
                        return Err(rsbuild::Fail { stage: "decls", msg: trim_msg(&d.join("; ")) });
                    }
                    info["route"] = json!("native+decls");
                }
            }
            Ok(info)
        }
    })();
    if std::env::var_os("VERIF_KEEP").is_none() {
        let _ = std::fs::remove_dir_all(dir);
    }
    if let Err(f) = &res {
        if cfg.raw_strings && f.stage.starts_with("rustc") && f.msg.contains(RAW_STRINGS_MSG) && !f.msg.lines().any(|l| l.starts_with("error") && !l.contains(RAW_STRINGS_MSG) && !l.contains("aborting due to")) {
            rec["raw_strings_class"] = json!(true);
        }
    }
    match res {
        Ok(info) => {
            rec["outcome"] = json!("ok");
            rec["info"] = info;
        }
        Err(f) => {
            rec["outcome"] = json!("fail");
            rec["stage"] = json!(f.stage);
            rec["msg"] = json!(f.msg);
        }
    }
    rec["secs"] = json!(t0.elapsed().as_secs_f64());
    rec["reached_compiler"] = json!(reached.get());
    rec
}

fn main() {
    let mut run = vcommon::Run::from_args("C09", "exploration");
    vcommon::install_quiet_panic_hook();
    check_exclusion_table();
    let repo = std::fs::canonicalize(vcommon::repo_root())
        .unwrap_or_else(|e| vcommon::machinery(&format!("repo root: {e}")))
        .to_string_lossy()
        .into_owned();
    let scratch = Scratch::new("c09");
    let tc = rsbuild::RustToolchain::prepare(&rsbuild::cache_dir(&repo), &scratch.path, &repo);

    // ---- replay -----------------------------------------------------------------------------
    if let Some(d) = run.replay_detail() {
        let case = Case::from_json(&d["case"]).unwrap_or_else(|| vcommon::machinery("replay: no case"));
        let cfgs: Vec<(RConfig, String)> = d["configs"]
            .as_array()
            .map(|a| {
                a.iter()
                    .filter_map(|c| {
                        let s = c.as_str()?;
                        let (cfg, ed) = s.rsplit_once('@')?;
                        Some((RConfig::from_name(cfg)?, ed.to_string()))
                    })
                    .collect()
            })
            .unwrap_or_default();
        println!("replaying case {} ({} configurations)\n{}", case.id, cfgs.len(), case.wit_text());
        let mut bad = 0;
        for (i, (cfg, ed)) in cfgs.iter().enumerate() {
            let r = evaluate(&tc, &case, cfg, ed, &scratch.path.join(format!("r{i}")));
            println!("  [{}@{}] outcome={} stage={}\n{}", cfg.name(), ed, r["outcome"].as_str().unwrap_or(""), r["stage"].as_str().unwrap_or("-"), r["msg"].as_str().unwrap_or(""));
            if r["outcome"] == "fail" {
                bad += 1;
            }
        }
        scratch.remove();
        std::process::exit(if bad > 0 { 1 } else { 0 });
    }

    // ---- the space --------------------------------------------------------------------------
    let thorough = run.thorough();
    let all_names: Vec<&str> = RUST_NAMES_QUICK.iter().chain(RUST_NAMES_MORE.iter()).copied().collect();
    let mut cases: Vec<Case> = Vec::new();
    // class A: every configuration in thorough; class B (per-position name worlds): quick configs
    cases.extend(worlds::named_cases(RUST_NAMES_QUICK, &["all"], "names"));
    if !thorough {
        // namespace / package positions for three names (thorough: every name)
        cases.extend(worlds::named_cases(&["fn", "self", "vec"], &["namespace", "package"], "names"));
    }
    cases.extend(worlds::type_cases(true, false).into_iter().filter(|c| thorough || ["types:list", "types:result", "types:record-variant", "types:map", "types:fixed-list", "types:future-stream"].contains(&c.id.as_str())));
    cases.extend(worlds::resource_cases().into_iter().filter(|c| thorough || c.id.ends_with(":my-big-thing2") || c.id == "resource:cross-interface"));
    cases.extend(worlds::limit_cases().into_iter().filter(|c| thorough || ["limits:params16", "limits:params17", "limits:results", "limits:async-funcs"].contains(&c.id.as_str())));
    cases.extend(worlds::kebab_cases().into_iter().filter(|c| thorough || c.id == "kebab:multi-word"));
    // one package interface in two versions (quick: the import+export variant only)
    cases.extend(worlds::multiversion_cases().into_iter().filter(|c| thorough || c.id.ends_with(":import+export")));
    let n_class_a_enum = cases.len();
    let corpus = worlds::corpus_cases();
    let corpus_total = corpus.len();
    let corpus_step = run.pick(4, 1);
    cases.extend(corpus.into_iter().enumerate().filter(|(i, _)| i % corpus_step == 1 % corpus_step).map(|(_, c)| c));
    let n_class_a = cases.len();
    if thorough {
        let positions: Vec<&str> = worlds::POSITIONS.iter().copied().filter(|p| *p != "all").collect();
        // budget (<= 30 min on 16 idle cores): the property's own name list in every position,
        // the extended alphabet in the `all` position, both on the three quick configurations
        cases.extend(worlds::named_cases(RUST_NAMES_QUICK, &positions, "names-per-position"));
        cases.extend(worlds::named_cases(RUST_NAMES_MORE, &["all", "package"], "names-extended"));
    }

    // Thorough runs in levels of growing bound and reports the deepest completed one:
    //   1 = every enumerated world of the `all`-position / types / resources / limits / kebab
    //   families + the quick corpus subset with the full configuration factorial, 2 = + the rest
    //   of the corpus, 3 = + per-position and extended-alphabet name worlds.
    let quick_corpus: BTreeSet<String> = worlds::corpus_cases().into_iter().enumerate().filter(|(i, _)| i % 4 == 1).map(|(_, c)| c.id).collect();
    let level_of = |i: usize, c: &Case| -> usize {
        if !thorough {
            1
        } else if i >= n_class_a {
            3
        } else if c.family == "corpus" {
            if quick_corpus.contains(&c.id) { 1 } else { 2 }
        } else {
            1
        }
    };
    let full = RConfig::all();
    let quick = RConfig::quick();
    let mut work: Vec<(usize, RConfig, &'static str, usize)> = Vec::new();
    let mut rejected: Vec<Value> = Vec::new();
    for (i, case) in cases.iter().enumerate() {
        if let Err(e) = worlds::load(case) {
            rejected.push(json!({"case": case.id, "error": first_error(&format!("{e:#}"))}));
            continue;
        }
        let cfgs = if thorough && i < n_class_a { &full } else { &quick };
        for cfg in cfgs {
            work.push((i, cfg.clone(), "2021", level_of(i, case)));
        }
        if thorough && i < n_class_a {
            for cfg in &quick {
                work.push((i, cfg.clone(), "2024", level_of(i, case)));
            }
        }
    }
    // development aids (evidence then says exhaustive: false): restrict to one level / the first N items
    let only_level = std::env::var("VERIF_ONLY_LEVEL").ok().and_then(|s| s.parse::<usize>().ok());
    if let Some(l) = only_level {
        work.retain(|w| w.3 == l);
    }
    if let Some(limit) = std::env::var("VERIF_LIMIT").ok().and_then(|s| s.parse::<usize>().ok()) {
        work.truncate(limit);
    }
    rotate(&mut work, run.seed);

    let workers = vcommon::ncpu().min(16);
    let budget_s: f64 = std::env::var("VERIF_BUDGET_S").ok().and_then(|s| s.parse().ok()).unwrap_or(1800.0);
    let mut results: Vec<Value> = Vec::new();
    let mut done: Vec<(usize, RConfig, &'static str)> = Vec::new();
    let mut levels_completed: Vec<Value> = Vec::new();
    let mut levels_skipped: Vec<Value> = Vec::new();
    for level in 1..=3usize {
        let items: Vec<(usize, RConfig, &'static str)> = work.iter().filter(|w| w.3 == level).map(|w| (w.0, w.1.clone(), w.2)).collect();
        if items.is_empty() {
            continue;
        }
        // a deeper level is only started while less than 40% of the time budget is used
        if level > 1 && only_level.is_none() && run.elapsed() > 0.4 * budget_s {
            levels_skipped.push(json!({"level": level, "evaluations": items.len(), "reason": format!("{:.0}s of the {budget_s:.0}s budget used after the previous level", run.elapsed())}));
            continue;
        }
        let r = vcommon::par_map(items.len(), workers, |k| {
            let (i, cfg, ed) = &items[k];
            evaluate(&tc, &cases[*i], cfg, ed, &scratch.path.join(format!("l{level}w{k}")))
        });
        levels_completed.push(json!({"level": level, "evaluations": items.len(), "elapsed_s": run.elapsed()}));
        results.extend(r);
        done.extend(items);
    }
    let work = done;

    // ---- judge ------------------------------------------------------------------------------
    let mut ok = 0usize;
    let mut routes: BTreeMap<String, usize> = BTreeMap::new();
    let mut fails: BTreeMap<(usize, String), Vec<(String, String)>> = BTreeMap::new();
    let mut outcomes: BTreeMap<String, usize> = BTreeMap::new();
    let mut nontrivial: BTreeSet<(String, String)> = BTreeSet::new();
    let mut compared: BTreeSet<(String, String)> = BTreeSet::new();
    let mut samples = vcommon::Samples::new(12);
    let mut fail_samples = vcommon::Samples::new(6);
    let mut tried: BTreeMap<usize, usize> = BTreeMap::new();
    let mut no_std_of_std: BTreeMap<String, usize> = BTreeMap::new();
    let mut secs = 0.0;
    let mut raw_class: Vec<(usize, String)> = Vec::new();
    for (k, r) in results.iter().enumerate() {
        let (i, cfg, ed) = &work[k];
        let cname = format!("{}@{}", cfg.name(), ed);
        *tried.entry(*i).or_default() += 1;
        secs += r["secs"].as_f64().unwrap_or(0.0);
        if r["reached_compiler"] == true {
            nontrivial.insert((cases[*i].id.clone(), cname.clone()));
        }
        match r["outcome"].as_str().unwrap_or("?") {
            "ok" => {
                ok += 1;
                let inf = &r["info"];
                let route = inf["route"].as_str().unwrap_or("?").to_string();
                *routes.entry(route.clone()).or_default() += 1;
                *outcomes.entry(format!("ok:{route}")).or_default() += 1;
                if let Some(m) = inf["no_std_build_of_std_bindings"].as_str() {
                    *no_std_of_std.entry(m.to_string()).or_default() += 1;
                }
                if inf["imports"].as_u64().unwrap_or(0) + inf["exports"].as_u64().unwrap_or(0) > 0 {
                    compared.insert((cases[*i].id.clone(), cname.clone()));
                }
                samples.offer(|| json!({"case": cases[*i].id, "config": cname, "outcome": "ok", "info": inf}));
            }
            "fail" if r["raw_strings_class"] == true => {
                raw_class.push((*i, cname.clone()));
                *outcomes.entry("raw-strings: into_bytes on Vec<u8> (class)".into()).or_default() += 1;
            }
            "fail" if r["stage"] == "machinery" => {
                scratch.remove();
                vcommon::machinery(&format!("{} [{}]: {}", cases[*i].id, r["config"].as_str().unwrap_or(""), r["msg"].as_str().unwrap_or("")));
            }
            "fail" => {
                let stage = r["stage"].as_str().unwrap_or("?").to_string();
                let msg = r["msg"].as_str().unwrap_or("").to_string();
                *outcomes.entry(format!("fail:{stage}: {}", first_error(&msg))).or_default() += 1;
                fail_samples.offer(|| json!({"case": cases[*i].id, "config": cname, "outcome": "fail", "stage": stage, "error": first_error(&msg)}));
                // both compile routes (native metadata / wasm32 cdylib) are one stage for the key
                let stage_key = if stage.starts_with("rustc") { "rustc".to_string() } else { stage };
                fails.entry((*i, stage_key)).or_default().push((cname, msg));
            }
            o => {
                *outcomes.entry(o.to_string()).or_default() += 1;
            }
        }
    }
    if !raw_class.is_empty() {
        let (i, cfg) = raw_class.iter().min_by_key(|(i, _)| (matches!(cases[*i].source, worlds::Source::Corpus(_)), cases[*i].wit_text().len())).cloned().unwrap();
        run.violation(
            RAW_STRINGS_KEY,
            &format!(
                "raw_strings: bindings that lower an owned string do not compile (`.into_bytes()` called on a Vec<u8>); {} (world, configuration) pairs affected, witness {} [{}]",
                raw_class.len(), cases[i].id, cfg
            ),
            json!({"case": cases[i].to_json(), "configs": [cfg], "stage": "rustc", "affected": raw_class.len()}),
        );
    }
    for ((i, stage), list) in &fails {
        let case = &cases[*i];
        let cfgs: Vec<String> = list.iter().map(|l| l.0.clone()).collect();
        // key = world + failing stage; the failing configurations are in `what` / the replay detail
        let _ = &tried;
        let key = format!("{}:{}", case.id, stage);
        run.violation(
            &key,
            &format!("world {} fails at stage `{stage}` under [{}]: {}", case.id, cfgs.join(", "), first_error(&list[0].1)),
            json!({"case": case.to_json(), "configs": cfgs, "stage": stage, "message": list[0].1}),
        );
    }

    let coverage = json!({
        "evaluations": results.len(),
        "distinct_nontrivial": nontrivial.len(),
        "rule": "distinct (world, configuration@edition) pairs with at least one import or export for which the generator produced bindings that were handed to rustc (whatever the verdict); `compared_worlds` counts those whose bindings + stubs compiled and whose world was compared (component world after ComponentEncoder, or extracted link names)",
        "compared_worlds": compared.len(),
        "exhaustive": std::env::var_os("VERIF_LIMIT").is_none() && only_level.is_none() && levels_skipped.is_empty(),
        "levels": {"1": "all enumerated worlds (names in `all` position, types, resources, limits, kebab) + every 4th corpus entry x full configuration factorial (+ edition 2024 on the quick configurations)", "2": "+ rest of the corpus", "3": "+ per-position and extended-alphabet name worlds (quick configurations)"},
        "levels_completed": levels_completed,
        "levels_skipped_for_time": levels_skipped,
        "time_budget_s": budget_s,
        "worlds": {"enumerated_full_factorial": n_class_a_enum, "corpus": n_class_a - n_class_a_enum, "corpus_total": corpus_total, "per_position_name_worlds": cases.len() - n_class_a},
        "bounds": {
            "name_alphabet": if thorough { all_names.clone() } else { RUST_NAMES_QUICK.to_vec() },
            "positions_thorough_note": "property's name list: every position; extended alphabet: `all` and `package` only",
            "positions": if thorough { worlds::POSITIONS.to_vec() } else { vec!["all (= every position except namespace/package)", "namespace, package for fn/self/vec"] },
            "configurations_full": full.iter().map(|c| c.name()).collect::<Vec<_>>(),
            "configurations_quick": quick.iter().map(|c| c.name()).collect::<Vec<_>>(),
            "editions": if thorough { vec!["2021", "2024 (quick configurations)"] } else { vec!["2021"] },
            "corpus_step": corpus_step,
        },
        "ok": ok,
        "routes": routes,
        "std_bindings_not_buildable_as_no_std": no_std_of_std,
        "failing_world_stage_pairs": fails.len(),
        "raw_strings_class_failures": raw_class.len(),
        "distinct_outcomes": outcomes,
        "declared_exclusions": EXCLUSION_TABLE.iter().map(|(w, c, _)| json!({"what": w, "source": c})).collect::<Vec<_>>(),
        "wit_rejected": rejected,
        "toolchain": {"nightly": tc.nightly_version, "stable": tc.stable_version, "setup_seconds": tc.setup_secs},
        "cpu_seconds": secs,
        "samples": samples.items.into_iter().chain(fail_samples.items).collect::<Vec<_>>(),
    });
    scratch.remove();
    run.finish(
        coverage,
        vec![
            "std-on-wasm32 cannot be built in this sandbox (no wasm32 std target, -Zbuild-std needs crates that are not cached): std configurations are type-checked natively (`rustc --emit=metadata`, x86-64) against a natively built wit-bindgen (features realloc, async, std, bitflags).".into(),
            "no-std configurations (`std_feature`) are really built: nightly rustc --target wasm32-unknown-unknown --crate-type=cdylib -Cpanic=abort against core/alloc/compiler_builtins built from nightly rust-src and wit-bindgen built with features realloc, async, bitflags; the root crate is #![no_std] with `mod core {}` (as crates/test/src/rust.rs), a panic handler and a null global allocator; nothing is executed.".into(),
            "For std configurations the same bindings are additionally built as a #![no_std] wasm32 cdylib when that compiles (then encoder + world equality are demanded); when it does not, the extracted wasm_import_module/link_name/export_name declarations are compared with wit-parser's legacy sync names (worlds without async functions, futures and streams only).".into(),
            "HashMap is only combined with std (std::collections::HashMap does not exist in no_std).".into(),
            "Warnings are not errors (-Dwarnings of crates/test is not used); default lint levels apply.".into(),
            "The wasm32 root crate references every public non-generic function of the bindings outside `exports` from an extra exported function `verif_keepalive` (paths collected with syn), so the linker keeps all import wrappers and all imports of the world must appear in the component; imports carrying only types may be elided by wit-component.".into(),
            "Thorough: the full 24-configuration factorial (+ edition 2024 on the three quick configurations) runs on the `all`-position worlds of the property's own name list, the other enumerated worlds and the whole corpus; per-position worlds of that list and the extended alphabet (`all`, `package`) run on the three quick configurations.".into(),
        ],
    );
}
