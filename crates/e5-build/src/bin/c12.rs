//! C12 — generated C builds for wasm32 and componentizes as exactly the requested world.
//!
//! Space: enumerated worlds (adversarial C names in every naming position, every type
//! constructor in param/result/typedef positions, resources, 15..18 flat params, C mangling
//! collisions, kebab variants, one package interface in two versions) + tests/codegen corpus, minus the C backend's declared exclusions,
//! x {default, --no-sig-flattening, --autodrop-borrows=yes, --async=all} x {utf8, utf16}.
//! Oracle: clang --target=wasm32 -Wall -Wextra -Werror -Wc++-compat on <world>.c (flags of
//! crates/test/src/c.rs), a user translation unit defining every exported function the header
//! declares, wasm-ld with <world>_component_type.o, then ComponentEncoder(validate) must succeed
//! and the decoded world must equal the requested one.

use e5_build::cbuild::{self, CConfig};
use e5_build::util::*;
use e5_build::worlds::{self, Case};
use e5_build::compo;
use serde_json::{json, Value};
use std::collections::{BTreeMap, BTreeSet};
use std::path::Path;

const ASYNC_SYNC_MSG: &str = "requires an async function type";
const ASYNC_CLASS_KEY: &str = "async=all:sync-typed-function:encode";

/// The declared exclusions of the C backend, as data (DESIGN Appendix D).  `needle` must occur
/// in `<repo>/crates/test/src/c.rs`, otherwise the table is out of date (exit 2).
const EXCLUSION_TABLE: &[(&str, &str, &str)] = &[
    (
        "error-context",
        "crates/test/src/c.rs:59 should_fail_verify",
        "config.error_context || name.starts_with(\"named-fixed-length-list.wit\")",
    ),
    (
        "fixed-length-list",
        "crates/test/src/c.rs:59 should_fail_verify (named-fixed-length-list.wit; the property text names both)",
        "name.starts_with(\"named-fixed-length-list.wit\")",
    ),
    ("variant:no-sig-flattening", "crates/test/src/c.rs:64", "(\"no-sig-flattening\", &[\"--no-sig-flattening\"])"),
    ("variant:autodrop", "crates/test/src/c.rs:65", "(\"autodrop\", &[\"--autodrop-borrows=yes\"])"),
    ("variant:async", "crates/test/src/c.rs:66", "(\"async\", &[\"--async=all\"])"),
    ("flags:-Wc++-compat", "crates/test/src/c.rs:192 verify", ".arg(\"-Wc++-compat\")"),
    ("flags:-Wno-unused-parameter", "crates/test/src/c.rs:193 verify", ".arg(\"-Wno-unused-parameter\")"),
];

fn check_exclusion_table() {
    let p = format!("{}/crates/test/src/c.rs", vcommon::repo_root());
    let src = std::fs::read_to_string(&p).unwrap_or_else(|e| vcommon::machinery(&format!("cannot read {p}: {e}")));
    for (what, cite, needle) in EXCLUSION_TABLE {
        if !src.contains(needle) {
            vcommon::machinery(&format!("exclusion table out of date: `{what}` ({cite}) no longer found in {p}"));
        }
    }
}

/// One (world, configuration) evaluation.  Returns a JSON record.
fn evaluate(tc: &cbuild::Toolchain, case: &Case, cfg: &CConfig, dir: &Path) -> Value {
    let t0 = std::time::Instant::now();
    let mut rec = json!({"case": case.id, "config": cfg.name()});
    let times = std::cell::RefCell::new([0f64; 5]);
    let reached = std::cell::Cell::new(false);
    let (resolve, world) = match worlds::load(case) {
        Ok(x) => x,
        Err(e) => {
            rec["outcome"] = json!("wit-rejected");
            rec["msg"] = json!(trim_msg(&format!("{e:#}")));
            return rec;
        }
    };
    times.borrow_mut()[0] = t0.elapsed().as_secs_f64();
    let one = |resolve: &wit_parser::Resolve, sub: &str| -> Result<Value, cbuild::Fail> {
        let t1 = std::time::Instant::now();
        let files = cbuild::generate(resolve, world, cfg).map_err(|m| cbuild::Fail { stage: "generate", msg: trim_msg(&m) })?;
        times.borrow_mut()[1] += t1.elapsed().as_secs_f64();
        {
            let w = &resolve.worlds[world];
            if !w.imports.is_empty() || !w.exports.is_empty() {
                reached.set(true);
            }
        }
        let d = dir.join(sub);
        let r = (|| {
            let built = cbuild::build(tc, &d, &files)?;
            times.borrow_mut()[2] += built.t_clang;
            times.borrow_mut()[3] += built.t_link;
            let t2 = std::time::Instant::now();
            let want = compo::world_sig(resolve, world);
            let r = cbuild::check_component(&built.module, &want);
            times.borrow_mut()[4] += t2.elapsed().as_secs_f64();
            let clen = r?;
            Ok(json!({
                "stubs": built.n_export_stubs, "module_bytes": built.module.len(), "component_bytes": clen,
                "c_bytes": built.c_bytes, "imports": want.imports.len(), "exports": want.exports.len(),
            }))
        })();
        if std::env::var_os("VERIF_KEEP").is_none() {
            let _ = std::fs::remove_dir_all(&d);
            let _ = std::fs::remove_dir(dir);
        }
        r
    };
    let mut res = one(&resolve, "a");
    if cfg.async_all {
        if let Err(f) = &res {
            if f.stage == "encode" && f.msg.contains(ASYNC_SYNC_MSG) && worlds::has_sync_typed_function(&resolve, world) {
                // `--async=all` on a sync-typed function: the pinned encoder rejects the `async`
                // canonical option.  Recorded once as a class; validate the derived world
                // `<case>+async-typed` instead.
                rec["async_on_sync_rejected"] = json!(true);
                let mut r2 = resolve.clone();
                worlds::make_async_typed(&mut r2);
                res = one(&r2, "b");
                rec["derived"] = json!("async-typed");
                if let Err(f2) = &res {
                    if f2.stage == "encode" && f2.msg.contains(ASYNC_SYNC_MSG) && worlds::has_sync_typed_function(&r2, world) {
                        // constructors stay sync-typed: same class, nothing more to learn here
                        rec["outcome"] = json!("async-class-only");
                        rec["reached_compiler"] = json!(reached.get());
                        rec["secs"] = json!(t0.elapsed().as_secs_f64());
                        return rec;
                    }
                }
            }
        }
    }
    match res {
        Ok(info) => {
            rec["outcome"] = json!("ok");
            rec["info"] = info;
        }
        Err(f) => {
            rec["outcome"] = json!("fail");
            rec["stage"] = json!(f.stage);
            rec["msg"] = json!(f.msg);
        }
    }
    rec["secs"] = json!(t0.elapsed().as_secs_f64());
    rec["times"] = json!(times.borrow().to_vec());
    rec["reached_compiler"] = json!(reached.get());
    rec
}

fn main() {
    let mut run = vcommon::Run::from_args("C12", "exploration");
    vcommon::install_quiet_panic_hook();
    check_exclusion_table();
    let scratch = Scratch::new("c12");
    let tc = cbuild::Toolchain::prepare(&scratch.path);

    // ---- replay -----------------------------------------------------------------------------
    if let Some(d) = run.replay_detail() {
        let case = Case::from_json(&d["case"]).unwrap_or_else(|| vcommon::machinery("replay: no case"));
        let cfgs: Vec<CConfig> = d["configs"]
            .as_array()
            .map(|a| a.iter().filter_map(|c| CConfig::from_name(c.as_str()?)).collect())
            .unwrap_or_default();
        println!("replaying case {} ({} configurations)\n{}", case.id, cfgs.len(), case.wit_text());
        let mut bad = 0;
        for (i, cfg) in cfgs.iter().enumerate() {
            let r = evaluate(&tc, &case, cfg, &scratch.path.join(format!("r{i}")));
            println!(
                "  [{}] outcome={}{} stage={} {}",
                cfg.name(),
                r["outcome"].as_str().unwrap_or(""),
                if r["async_on_sync_rejected"] == true { " (on the derived async-typed world; the world as given was rejected by ComponentEncoder: the `async` canonical option requires an async function type)" } else { "" },
                r["stage"].as_str().unwrap_or("-"),
                r["msg"].as_str().unwrap_or("")
            );
            if r["outcome"] == "fail" || r["async_on_sync_rejected"] == true {
                bad += 1;
            }
        }
        scratch.remove();
        std::process::exit(if bad > 0 { 1 } else { 0 });
    }

    // ---- the space --------------------------------------------------------------------------
    let thorough = run.thorough();
    let mut cases: Vec<Case> = Vec::new();
    let positions: Vec<&str> = if thorough { worlds::POSITIONS.to_vec() } else { vec!["all"] };
    cases.extend(worlds::named_cases(worlds::C_NAMES, &positions, "names"));
    if !thorough {
        // namespace / package positions for three names (thorough: every name)
        cases.extend(worlds::named_cases(&["int", "errno", "exports"], &["namespace", "package"], "names"));
    }
    cases.extend(worlds::type_cases(false, false));
    cases.extend(worlds::resource_cases());
    cases.extend(worlds::limit_cases());
    cases.extend(worlds::kebab_cases());
    cases.extend(worlds::c_collision_cases());
    cases.extend(worlds::multiversion_cases());
    let n_enumerated = cases.len();
    let corpus = worlds::corpus_cases();
    let corpus_total = corpus.len();
    let corpus_step = run.pick(3, 1);
    // corpus entries outside the quick subset belong to level 2 (see `level_of`)
    let mut level2: BTreeSet<String> = BTreeSet::new();
    for (i, c) in corpus.into_iter().enumerate() {
        if i % corpus_step == 0 {
            if i % 3 != 0 {
                level2.insert(c.id.clone());
            }
            cases.push(c);
        }
    }
    let n_corpus = cases.len() - n_enumerated;
    // Thorough runs in levels of growing bound and reports the deepest completed one:
    //   1 = the quick world set with all configurations, 2 = + the rest of the corpus,
    //   3 = + one world per (name, naming position).
    let level_of = |c: &Case| -> usize {
        if c.family == "names" && !c.id.ends_with(":all") && thorough {
            3
        } else if level2.contains(&c.id) {
            2
        } else {
            1
        }
    };

    // eligibility (declared exclusions as WIT features) and configuration list per world
    let mut work: Vec<(usize, CConfig, usize)> = Vec::new();
    let mut excluded: BTreeMap<String, Vec<String>> = BTreeMap::new();
    let mut rejected: Vec<Value> = Vec::new();
    let mut async_skipped_nested = 0usize;
    let all_cfgs = CConfig::all();
    let mut eligible_worlds = 0usize;
    for (i, case) in cases.iter().enumerate() {
        match worlds::load(case) {
            Err(e) => rejected.push(json!({"case": case.id, "error": first_error(&format!("{e:#}"))})),
            Ok((r, w)) => {
                let f = worlds::features(&r, w);
                if f.error_context {
                    excluded.entry("error-context".into()).or_default().push(case.id.clone());
                    continue;
                }
                if f.fixed_length_list {
                    excluded.entry("fixed-length-list".into()).or_default().push(case.id.clone());
                    continue;
                }
                eligible_worlds += 1;
                for (ci, cfg) in all_cfgs.iter().enumerate() {
                    // quick: default/utf8 plus one of the other seven (rotating with the world
                    // index); per-position name worlds in thorough: plus two; otherwise all eight
                    let per_position = case.family == "names" && !case.id.ends_with(":all");
                    let keep = if !thorough {
                        // quick: default/utf8 + one rotating configuration
                        ci == 0 || ci == 1 + (i % 7)
                    } else if per_position {
                        ci == 0 || ci == 1 + (i % 7) || ci == 1 + ((i + 3) % 7)
                    } else {
                        true
                    };
                    if !keep {
                        continue;
                    }
                    if cfg.async_all && f.nested_future_or_stream {
                        async_skipped_nested += 1;
                        continue;
                    }
                    work.push((i, cfg.clone(), level_of(case)));
                }
            }
        }
    }
    // development aids (evidence then says exhaustive: false): restrict to one level / the first N items
    let only_level = std::env::var("VERIF_ONLY_LEVEL").ok().and_then(|s| s.parse::<usize>().ok());
    if let Some(l) = only_level {
        work.retain(|w| w.2 == l);
    }
    if let Some(limit) = std::env::var("VERIF_LIMIT").ok().and_then(|s| s.parse::<usize>().ok()) {
        work.truncate(limit);
    }
    rotate(&mut work, run.seed);

    // ---- run --------------------------------------------------------------------------------
    let workers = vcommon::ncpu().min(16);
    let budget_s: f64 = std::env::var("VERIF_BUDGET_S").ok().and_then(|s| s.parse().ok()).unwrap_or(1200.0);
    let mut results: Vec<Value> = Vec::new();
    let mut done: Vec<(usize, CConfig)> = Vec::new();
    let mut levels_completed: Vec<Value> = Vec::new();
    let mut levels_skipped: Vec<Value> = Vec::new();
    for level in 1..=3usize {
        let items: Vec<(usize, CConfig)> = work.iter().filter(|w| w.2 == level).map(|w| (w.0, w.1.clone())).collect();
        if items.is_empty() {
            continue;
        }
        // a deeper level is only started while less than 40% of the time budget is used
        if level > 1 && only_level.is_none() && run.elapsed() > 0.4 * budget_s {
            levels_skipped.push(json!({"level": level, "evaluations": items.len(), "reason": format!("{:.0}s of the {budget_s:.0}s budget used after the previous level", run.elapsed())}));
            continue;
        }
        let r = vcommon::par_map(items.len(), workers, |k| {
            let (i, cfg) = &items[k];
            evaluate(&tc, &cases[*i], cfg, &scratch.path.join(format!("l{level}w{k}")))
        });
        levels_completed.push(json!({"level": level, "evaluations": items.len(), "elapsed_s": run.elapsed()}));
        results.extend(r);
        done.extend(items);
    }
    let work = done;

    // ---- judge ------------------------------------------------------------------------------
    let mut ok = 0usize;
    let mut derived_ok = 0usize;
    let mut async_class: Vec<(usize, String)> = Vec::new();
    let mut async_class_only = 0usize;
    let mut fails: BTreeMap<(usize, String), Vec<(String, String)>> = BTreeMap::new();
    let mut outcomes: BTreeMap<String, usize> = BTreeMap::new();
    let mut nontrivial: BTreeSet<(String, String)> = BTreeSet::new();
    let mut compared: BTreeSet<(String, String)> = BTreeSet::new();
    let mut samples = vcommon::Samples::new(12);
    let mut fail_samples = vcommon::Samples::new(6);
    let mut tried: BTreeMap<usize, usize> = BTreeMap::new();
    let mut secs = 0.0;
    let mut stage_secs = [0f64; 5];
    for (k, r) in results.iter().enumerate() {
        let (i, cfg) = &work[k];
        *tried.entry(*i).or_default() += 1;
        secs += r["secs"].as_f64().unwrap_or(0.0);
        if let Some(t) = r["times"].as_array() {
            for (j, x) in t.iter().enumerate() {
                stage_secs[j] += x.as_f64().unwrap_or(0.0);
            }
        }
        if r["async_on_sync_rejected"] == true {
            async_class.push((*i, cfg.name()));
        }
        if r["reached_compiler"] == true {
            nontrivial.insert((cases[*i].id.clone(), cfg.name()));
        }
        let o = r["outcome"].as_str().unwrap_or("?");
        match o {
            "ok" => {
                ok += 1;
                if r["derived"].is_string() {
                    derived_ok += 1;
                }
                *outcomes.entry("ok".into()).or_default() += 1;
                let inf = &r["info"];
                if inf["imports"].as_u64().unwrap_or(0) + inf["exports"].as_u64().unwrap_or(0) > 0 {
                    compared.insert((cases[*i].id.clone(), cfg.name()));
                }
                samples.offer(|| json!({"case": cases[*i].id, "config": cfg.name(), "outcome": "ok", "info": inf}));
            }
            "async-class-only" => {
                async_class_only += 1;
                *outcomes.entry("async=all rejected on sync-typed function (class)".into()).or_default() += 1;
            }
            "fail" if r["stage"] == "machinery" => {
                scratch.remove();
                vcommon::machinery(&format!("{} [{}]: {}", cases[*i].id, r["config"].as_str().unwrap_or(""), r["msg"].as_str().unwrap_or("")));
            }
            "fail" => {
                let stage = r["stage"].as_str().unwrap_or("?").to_string();
                let msg = r["msg"].as_str().unwrap_or("").to_string();
                *outcomes.entry(format!("fail:{stage}: {}", first_error(&msg))).or_default() += 1;
                fail_samples.offer(|| json!({"case": cases[*i].id, "config": cfg.name(), "outcome": "fail", "stage": stage, "error": first_error(&msg)}));
                fails.entry((*i, stage)).or_default().push((cfg.name(), msg));
            }
            _ => {
                *outcomes.entry(o.to_string()).or_default() += 1;
            }
        }
    }

    if !async_class.is_empty() {
        // one class, reported once, with the smallest affected world as the replayable witness
        let (i, cfg) = async_class
            .iter()
            .min_by_key(|(i, _)| (matches!(cases[*i].source, worlds::Source::Corpus(_)), cases[*i].wit_text().len()))
            .cloned()
            .unwrap();
        run.violation(
            ASYNC_CLASS_KEY,
            &format!(
                "--async=all on a world with a sync-typed function: clang and wasm-ld succeed but ComponentEncoder rejects the module (`the async canonical option requires an async function type`); {} (world, configuration) pairs affected, witness {} [{}]",
                async_class.len(), cases[i].id, cfg
            ),
            json!({"case": cases[i].to_json(), "configs": [cfg], "stage": "encode", "affected": async_class.len()}),
        );
    }
    for ((i, stage), list) in &fails {
        let case = &cases[*i];
        let cfgs: Vec<String> = list.iter().map(|l| l.0.clone()).collect();
        // key = world + failing stage; the failing configurations are in `what` / the replay detail
        let _ = &tried;
        let key = format!("{}:{}", case.id, stage);
        run.violation(
            &key,
            &format!(
                "world {} fails at stage `{stage}` under [{}]: {}",
                case.id,
                cfgs.join(", "),
                first_error(&list[0].1)
            ),
            json!({"case": case.to_json(), "configs": cfgs, "stage": stage, "message": list[0].1}),
        );
    }

    let evaluations = results.len();
    let exhaustive = std::env::var_os("VERIF_LIMIT").is_none() && only_level.is_none() && levels_skipped.is_empty();
    let coverage = json!({
        "evaluations": evaluations,
        "distinct_nontrivial": nontrivial.len(),
        "rule": "distinct (world, configuration) pairs with at least one import or export for which the generator produced C that was handed to clang (whatever the verdict); `compared_worlds` counts those that went all the way through clang, wasm-ld and ComponentEncoder(validate) and whose decoded world was compared with the requested one",
        "compared_worlds": compared.len(),
        "exhaustive": exhaustive,
        "levels": {"1": "quick world set (names in `all` position, types, resources, limits, kebab, collisions, every 3rd corpus entry)", "2": "+ rest of the corpus", "3": "+ one world per (name, naming position)"},
        "levels_completed": levels_completed,
        "levels_skipped_for_time": levels_skipped,
        "time_budget_s": budget_s,
        "worlds": {"enumerated": n_enumerated, "corpus": n_corpus, "corpus_total": corpus_total, "eligible": eligible_worlds},
        "bounds": {
            "name_alphabet": worlds::C_NAMES, "positions": positions, "position_all": "every naming position except namespace/package", "leaves": worlds::LEAVES,
            "type_families": worlds::type_families(false, false).iter().map(|f| json!({"family": f.0, "types": f.2.len()})).collect::<Vec<_>>(),
            "configurations": all_cfgs.iter().map(|c| c.name()).collect::<Vec<_>>(),
            "corpus_step": corpus_step,
            "multiversion_pairs": worlds::VERSION_PAIRS.iter().map(|p| format!("{}|{}", p.0, p.1)).collect::<Vec<_>>(),
            "configurations_per_world": if thorough { "all 8 (per-position name worlds: default/utf8 + 2 rotating)" } else { "default/utf8 + 1 rotating" },
        },
        "ok": ok,
        "ok_on_derived_async_typed_world": derived_ok,
        "async_all_rejected_on_sync_typed": async_class.len(),
        "async_all_not_validated_beyond_class": async_class_only,
        "async_all_skipped_nested_future_stream": async_skipped_nested,
        "failing_world_stage_pairs": fails.len(),
        "distinct_outcomes": outcomes,
        "declared_exclusions": EXCLUSION_TABLE.iter().map(|(w, c, _)| json!({"feature": w, "source": c})).collect::<Vec<_>>(),
        "excluded_worlds": excluded,
        "wit_rejected": rejected,
        "toolchain": {"clang": tc.clang_version, "clang_flags": cbuild::CLANG_FLAGS, "ld_flags": cbuild::LD_FLAGS},
        "worker_seconds": secs,
        "worker_seconds_by_stage": {"load": stage_secs[0], "generate": stage_secs[1], "clang": stage_secs[2], "wasm-ld": stage_secs[3], "encode+decode+compare": stage_secs[4]},
        "samples": samples.items.into_iter().chain(fail_samples.items).collect::<Vec<_>>(),
    });
    scratch.remove();
    run.finish(
        coverage,
        vec![
            "No wasi-sysroot in the sandbox: C is compiled with --target=wasm32 -nostdlibinc against /verif/cstub/include (stdlib.h, string.h, uchar.h, assert.h) and linked with /verif/cstub/libc.c; dropped relative to crates/test/src/c.rs: -mexec-model=reactor, -g, wasi crt/libc, -Wl,--skip-wit-component (wasm-ld is called directly).".into(),
            "wasm-ld --no-entry --no-gc-sections keeps every generated import wrapper, so all imports of the world must appear in the component; imports carrying only types may be elided by wit-component and are not demanded.".into(),
            "The user side is a generated translation unit defining every prototype of the header's `Exported Functions` sections and every exports_*_destructor with an aborting body; nothing is executed.".into(),
            "World equality compares import/export names, kinds, function names and structural function types (parameter names included); resources are compared by name only.".into(),
            "--async=all: the pinned wit-component rejects the async canonical option on sync-typed functions; that is reported once as a class, and the configuration is then validated on the derived world in which every function (except constructors) is declared async.".into(),
            "Declared exclusions are read as WIT features: any error-context, any fixed-length list (crates/test/src/c.rs should_fail_verify).".into(),
        ],
    );
}
