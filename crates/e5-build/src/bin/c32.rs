//! C32 — the `generate!` macro tracks every WIT file it reads.
//!
//! Space: package layouts {single file, directory, directory + deps/ (1 level), directory + deps/
//! (2 levels: transitive dep, multi-file dep, single-file dep, unused dep), two paths} x macro
//! forms {default wit/ dir, `path: "…"`, `path: ["…", …]`, `"w" in "…"`, `inline`, `inline` +
//! `path`, `inline` + `path: [..]`}, every combination that is expressible.
//! Each case is a tiny crate using the real `wit_bindgen::generate!` (path dependency on
//! <repo>/crates/guest-rust, default features), all built by one `cargo check --offline`.
//! Oracle: the reference read-set of a case — every file of the layout whose corruption makes
//! `wit_parser::Resolve::push_path` over the same roots fail, united with the source list
//! `push_path` returns — must be contained in rustc's dep-info (`deps/<crate>-*.d`) of the crate.
//! Thorough additionally edits each such file (kind by kind) and requires cargo to re-check
//! the crate.

use e5_build::util::*;
use serde_json::json;
use std::collections::{BTreeMap, BTreeSet};
use std::path::{Path, PathBuf};

#[derive(Clone, Debug)]
struct FileSpec {
    rel: String,
    kind: &'static str,
    text: String,
    /// the layout author's belief; only used to cross-check the perturbation reference
    expect_read: bool,
}

#[derive(Clone, Debug)]
struct CaseSpec {
    layout: &'static str,
    form: &'static str,
    files: Vec<FileSpec>,
    /// roots handed to the macro (relative to the crate dir), in order
    roots: Vec<String>,
    /// macro invocation text
    invocation: String,
}

impl CaseSpec {
    fn name(&self) -> String {
        format!("{}:{}", self.layout, self.form)
    }
    fn crate_name(&self) -> String {
        format!("c32_{}_{}", self.layout, self.form).replace(['-', '+', ':'], "_")
    }
}

fn f(rel: &str, kind: &'static str, text: &str, expect_read: bool) -> FileSpec {
    FileSpec { rel: rel.into(), kind, text: text.into(), expect_read }
}

/// Files of a layout rooted at `root` (a directory unless the layout is `single-file`).
fn layout_files(layout: &str, root: &str) -> Vec<FileSpec> {
    let decoys = |root: &str| {
        vec![
            f(&format!("{root}/notes.txt"), "decoy-non-wit", "not wit at all {{{", false),
            f(&format!("{root}/sub/nested.wit"), "decoy-nested-dir", "package test:nested;\ninterface n {}\n", false),
        ]
    };
    match layout {
        "single-file" => vec![f(
            root,
            "root-file",
            "package test:main;\n\ninterface i {\n  f: func();\n}\n\nworld w {\n  import i;\n}\n",
            true,
        )],
        "dir" => {
            let mut v = vec![
                f(&format!("{root}/main.wit"), "root-file", "package test:main;\n\nworld w {\n  import i;\n}\n", true),
                f(&format!("{root}/iface.wit"), "second-root-file", "interface i {\n  f: func();\n}\n", true),
            ];
            v.extend(decoys(root));
            v
        }
        "dir-deps1" => {
            let mut v = vec![
                f(
                    &format!("{root}/main.wit"),
                    "root-file",
                    "package test:main;\n\ninterface i {\n  f: func();\n}\n\nworld w {\n  import i;\n  import test:dep-a/ia;\n}\n",
                    true,
                ),
                f(
                    &format!("{root}/deps/dep-a/a.wit"),
                    "dep-dir-file",
                    "package test:dep-a;\n\ninterface ia {\n  g: func() -> u32;\n}\n",
                    true,
                ),
            ];
            v.extend(decoys(root));
            v
        }
        "dir-deps2" => {
            let mut v = vec![
                f(
                    &format!("{root}/main.wit"),
                    "root-file",
                    "package test:main;\n\nworld w {\n  import i;\n  import test:dep-a/ia;\n  import test:dep-a/ia2;\n}\n",
                    true,
                ),
                f(&format!("{root}/iface.wit"), "second-root-file", "interface i {\n  f: func();\n}\n", true),
                f(
                    &format!("{root}/deps/dep-a/a.wit"),
                    "dep-dir-file",
                    "package test:dep-a;\n\ninterface ia {\n  use test:dep-b/ib.{t};\n  g: func() -> t;\n}\n",
                    true,
                ),
                f(&format!("{root}/deps/dep-a/a2.wit"), "dep-dir-second-file", "interface ia2 {\n  h: func();\n}\n", true),
                f(
                    &format!("{root}/deps/dep-b.wit"),
                    "dep-single-file-transitive",
                    "package test:dep-b;\n\ninterface ib {\n  type t = u32;\n}\n",
                    true,
                ),
                f(
                    &format!("{root}/deps/unused-c/c.wit"),
                    "dep-unused",
                    "package test:unused-c;\n\ninterface ic {\n  k: func();\n}\n",
                    true,
                ),
                f(&format!("{root}/deps/dep-a/deps/deeper/d.wit"), "decoy-deps-of-deps", "package test:deeper;\ninterface d {}\n", false),
            ];
            v.extend(decoys(root));
            v
        }
        _ => unreachable!(),
    }
}

const INLINE_MAIN: &str = "package test:inl;\n\nworld wi {\n  import test:main/i;\n}\n";
const INLINE_ALONE: &str = "package test:inl;\n\ninterface j {\n  q: func();\n}\n\nworld wi {\n  import j;\n}\n";

fn cases() -> Vec<CaseSpec> {
    let mut v = Vec::new();
    let lit = |s: &str| format!("{s:?}");
    // --- one root -----------------------------------------------------------------------------
    for layout in ["single-file", "dir", "dir-deps1", "dir-deps2"] {
        let forms: &[&str] = if layout == "single-file" {
            &["path", "path-list1", "shorthand", "inline+path"]
        } else if layout.starts_with("dir-deps") {
            // the `"w" in "dir"` shorthand has no place for `generate_all`, which worlds that
            // import foreign packages need
            &["default", "path", "path-list1", "inline-default-dir", "inline+path", "inline+path-list1"]
        } else {
            &["default", "path", "path-list1", "shorthand", "inline-default-dir", "inline+path", "inline+path-list1"]
        };
        for form in forms {
            let root: String = match (*form, layout) {
                ("default", _) | ("inline-default-dir", _) => "wit".into(),
                (_, "single-file") => "schema/world.wit".into(),
                _ => "schema".into(),
            };
            let files = layout_files(layout, &root);
            let invocation = match *form {
                "default" => "wit_bindgen::generate!({ world: \"w\", generate_all });".to_string(),
                "path" => format!("wit_bindgen::generate!({{ path: {}, world: \"w\", generate_all }});", lit(&root)),
                "path-list1" => format!("wit_bindgen::generate!({{ path: [{}], world: \"w\", generate_all }});", lit(&root)),
                "shorthand" => format!("wit_bindgen::generate!(\"w\" in {});", lit(&root)),
                "inline-default-dir" => format!("wit_bindgen::generate!({{ inline: {}, world: \"wi\", generate_all }});", lit(INLINE_MAIN)),
                "inline+path" => format!("wit_bindgen::generate!({{ inline: {}, path: {}, world: \"wi\", generate_all }});", lit(INLINE_MAIN), lit(&root)),
                "inline+path-list1" => format!("wit_bindgen::generate!({{ path: [{}], inline: {}, world: \"wi\", generate_all }});", lit(&root), lit(INLINE_MAIN)),
                _ => unreachable!(),
            };
            v.push(CaseSpec { layout, form, files, roots: vec![root], invocation });
        }
    }
    // --- inline only, no directory at all (nothing to track; vacuity guard for the reference) ---
    v.push(CaseSpec {
        layout: "none",
        form: "inline",
        files: vec![],
        roots: vec![],
        invocation: format!("wit_bindgen::generate!({{ inline: {}, world: \"wi\", generate_all }});", lit(INLINE_ALONE)),
    });
    // --- two paths ------------------------------------------------------------------------------
    let two = |a_deps: bool| -> Vec<FileSpec> {
        let mut v = vec![
            f("pb/other.wit", "first-path-file", "package test:other;\n\ninterface o {\n  type t = u64;\n  p: func() -> t;\n}\n", true),
            f("pb/other2.wit", "first-path-second-file", "interface o2 {\n  p2: func();\n}\n", true),
            f(
                "pa/main.wit",
                "second-path-file",
                if a_deps {
                    "package test:main;\n\ninterface i {\n  use test:other/o.{t};\n  f: func() -> t;\n}\n\nworld w {\n  import i;\n  import test:other/o2;\n  import test:dep-a/ia;\n}\n"
                } else {
                    "package test:main;\n\ninterface i {\n  use test:other/o.{t};\n  f: func() -> t;\n}\n\nworld w {\n  import i;\n  import test:other/o2;\n}\n"
                },
                true,
            ),
            f("pa/more.wit", "second-path-second-file", "interface more {\n  m: func();\n}\n", true),
        ];
        if a_deps {
            v.push(f("pa/deps/dep-a/a.wit", "second-path-dep-file", "package test:dep-a;\n\ninterface ia {\n  g: func() -> u32;\n}\n", true));
        }
        v
    };
    for (layout, a_deps) in [("two-paths", false), ("two-paths-deps", true)] {
        v.push(CaseSpec {
            layout,
            form: "path-list2",
            files: two(a_deps),
            roots: vec!["pb".into(), "pa".into()],
            invocation: "wit_bindgen::generate!({ path: [\"pb\", \"pa\"], world: \"test:main/w\", generate_all });".into(),
        });
        v.push(CaseSpec {
            layout,
            form: "inline+path-list2",
            files: two(a_deps),
            roots: vec!["pb".into(), "pa".into()],
            invocation: format!(
                "wit_bindgen::generate!({{ inline: {}, path: [\"pb\", \"pa\"], world: \"wi\", generate_all }});",
                lit("package test:inl;\n\nworld wi {\n  import test:main/i;\n  import test:main/more;\n}\n")
            ),
        });
    }
    v
}

/// Parse the roots of a crate dir the way the macro documents it (push_path per root, in order).
fn parse_roots(dir: &Path, roots: &[String]) -> Result<BTreeSet<PathBuf>, String> {
    let mut r = wit_parser::Resolve::default();
    let mut out = BTreeSet::new();
    for root in roots {
        let p = std::fs::canonicalize(dir.join(root)).map_err(|e| e.to_string())?;
        let (_, sources) = r.push_path(&p).map_err(|e| format!("{e:#}"))?;
        for s in sources.paths() {
            out.insert(std::fs::canonicalize(s).unwrap_or_else(|_| s.to_path_buf()));
        }
    }
    Ok(out)
}

fn write_case(dir: &Path, c: &CaseSpec, repo: &str) {
    std::fs::create_dir_all(dir.join("src")).unwrap();
    for fl in &c.files {
        let p = dir.join(&fl.rel);
        std::fs::create_dir_all(p.parent().unwrap()).unwrap();
        std::fs::write(&p, &fl.text).unwrap();
    }
    std::fs::write(
        dir.join("Cargo.toml"),
        format!(
            "[package]\nname = \"{}\"\nversion = \"0.0.0\"\nedition = \"2021\"\n\n[lib]\npath = \"src/lib.rs\"\n\n[dependencies]\nwit-bindgen = {{ path = \"{repo}/crates/guest-rust\" }}\n",
            c.crate_name()
        ),
    )
    .unwrap();
    std::fs::write(dir.join("src/lib.rs"), format!("#![allow(dead_code, unused)]\n{}\n", c.invocation)).unwrap();
}

/// Reference read-set: files whose corruption makes the parse fail, plus what push_path lists.
fn reference(dir: &Path, c: &CaseSpec) -> Result<(BTreeMap<PathBuf, &'static str>, Vec<String>), String> {
    let listed = parse_roots(dir, &c.roots)?;
    let mut set: BTreeMap<PathBuf, &'static str> = BTreeMap::new();
    let mut notes = Vec::new();
    for fl in &c.files {
        let p = std::fs::canonicalize(dir.join(&fl.rel)).map_err(|e| e.to_string())?;
        std::fs::write(&p, "this is }{ not ;; wit %%%\n").unwrap();
        let broke = parse_roots(dir, &c.roots).is_err();
        std::fs::write(&p, &fl.text).unwrap();
        let in_list = listed.contains(&p);
        if broke || in_list {
            set.insert(p.clone(), fl.kind);
        }
        if broke != in_list {
            notes.push(format!("{}: {} corruption-detected={broke} listed-by-push_path={in_list}", c.name(), fl.rel));
        }
        if (broke || in_list) != fl.expect_read {
            notes.push(format!("{}: {} layout author expected read={} but reference says {}", c.name(), fl.rel, fl.expect_read, broke || in_list));
        }
    }
    for p in &listed {
        if !set.contains_key(p) {
            notes.push(format!("{}: push_path lists {p:?} which is not a layout file", c.name()));
        }
    }
    Ok((set, notes))
}

fn dep_info_files(target: &Path, crate_name: &str) -> Option<BTreeSet<PathBuf>> {
    let deps = target.join("debug/deps");
    let mut newest: Option<(std::time::SystemTime, PathBuf)> = None;
    for e in std::fs::read_dir(&deps).ok()?.flatten() {
        let n = e.file_name().to_string_lossy().into_owned();
        if n.starts_with(&format!("{crate_name}-")) && n.ends_with(".d") {
            let m = e.metadata().ok()?.modified().ok()?;
            if newest.as_ref().map(|(t, _)| m > *t).unwrap_or(true) {
                newest = Some((m, e.path()));
            }
        }
    }
    let text = std::fs::read_to_string(newest?.1).ok()?;
    let mut out = BTreeSet::new();
    for line in text.lines() {
        // `target: dep dep dep` lines; paths with spaces are escaped with `\ ` (none here)
        if let Some((_, deps)) = line.split_once(": ") {
            for d in deps.split_whitespace() {
                let p = PathBuf::from(d);
                out.insert(std::fs::canonicalize(&p).unwrap_or(p));
            }
        }
        // `/path/file:` lines (phony targets) name the same files
        if let Some(p) = line.strip_suffix(':') {
            if !p.contains(' ') {
                let p = PathBuf::from(p);
                out.insert(std::fs::canonicalize(&p).unwrap_or(p));
            }
        }
    }
    Some(out)
}

fn cargo_check(ws: &Path, target: &Path, verbose: bool) -> Out {
    let mut cmd = std::process::Command::new("cargo");
    cmd.current_dir(ws)
        .arg("check")
        .arg("--offline")
        .arg("--workspace")
        .arg("--target-dir")
        .arg(target)
        .env_remove("CARGO_TARGET_DIR")
        .env_remove("RUSTFLAGS")
        .env_remove("CARGO_ENCODED_RUSTFLAGS")
        .env("CARGO_NET_OFFLINE", "true")
        .env("CARGO_TERM_COLOR", "never");
    if verbose {
        cmd.arg("-v");
    }
    run_cmd(cmd, 1_500_000)
}

fn main() {
    let mut run = vcommon::Run::from_args("C32", "exploration");
    let repo = std::fs::canonicalize(vcommon::repo_root())
        .unwrap_or_else(|e| vcommon::machinery(&format!("repo root: {e}")))
        .to_string_lossy()
        .into_owned();
    let all = cases();
    let selected: Vec<CaseSpec> = match run.replay_detail() {
        Some(d) => {
            let n = d["case"].as_str().unwrap_or("").to_string();
            let v: Vec<_> = all.iter().filter(|c| c.name() == n).cloned().collect();
            if v.is_empty() {
                vcommon::machinery(&format!("replay: unknown case {n}"));
            }
            println!("replaying {n}: {}", v[0].invocation);
            v
        }
        None => all.clone(),
    };
    let replaying = run.replay.is_some();

    // ---- workspace in the temp dir --------------------------------------------------------------
    let scratch = Scratch::new("c32");
    let ws = scratch.path.clone();
    let target = PathBuf::from(vcommon::verif_root())
        .join("target")
        .join(format!("c32-{:016x}", vcommon::fnv(repo.as_bytes())));
    let members: Vec<String> = selected.iter().map(|c| format!("\"cases/{}\"", c.crate_name())).collect();
    std::fs::write(ws.join("Cargo.toml"), format!("[workspace]\nresolver = \"2\"\nmembers = [{}]\n", members.join(", "))).unwrap();
    // offline resolution: start from the repository's lock file (its working-tree copy)
    if let Ok(lock) = std::fs::read(format!("{repo}/Cargo.lock")) {
        std::fs::write(ws.join("Cargo.lock"), lock).unwrap();
    }
    let mut refs: Vec<BTreeMap<PathBuf, &'static str>> = Vec::new();
    let mut notes: Vec<String> = Vec::new();
    for c in &selected {
        let dir = ws.join("cases").join(c.crate_name());
        write_case(&dir, c, &repo);
        match reference(&dir, c) {
            Ok((set, n)) => {
                refs.push(set);
                notes.extend(n);
            }
            Err(e) => vcommon::machinery(&format!("layout {} does not parse with wit-parser: {e}", c.name())),
        }
    }

    // ---- build everything once ------------------------------------------------------------------
    let t0 = std::time::Instant::now();
    let out = cargo_check(&ws, &target, false);
    let build_secs = t0.elapsed().as_secs_f64();
    if !out.ok {
        // A case crate that does not compile is not a dependency-tracking verdict.  Find out
        // whether the macro crate itself failed (machinery) or single cases.
        let failing: Vec<String> = selected
            .iter()
            .filter(|c| out.text.contains(&format!("could not compile `{}`", c.crate_name())))
            .map(|c| c.name())
            .collect();
        scratch.remove();
        let mut lines: Vec<&str> = Vec::new();
        let mut take = 0;
        for l in out.text.lines() {
            if l.starts_with("error") {
                take = 10;
            }
            if take > 0 {
                lines.push(l);
                take -= 1;
            }
        }
        vcommon::machinery(&format!(
            "cargo check of the case workspace failed (cases: {failing:?}): {}",
            trim_msg(&lines.join("\n"))
        ));
    }

    // ---- oracle 1: dep-info ---------------------------------------------------------------------
    let mut evaluations = 0usize;
    let mut nontrivial: BTreeSet<(String, &'static str)> = BTreeSet::new();
    let mut outcomes: BTreeMap<String, usize> = BTreeMap::new();
    let mut samples = vcommon::Samples::new(10);
    let mut tracked_total = 0usize;
    for (c, set) in selected.iter().zip(&refs) {
        let Some(dep) = dep_info_files(&target, &c.crate_name()) else {
            vcommon::machinery(&format!("no dep-info for {}", c.crate_name()));
        };
        evaluations += 1;
        let mut missing = Vec::new();
        for (p, kind) in set {
            if dep.contains(p) {
                tracked_total += 1;
                nontrivial.insert((c.name(), kind));
                *outcomes.entry(format!("tracked:{kind}")).or_default() += 1;
            } else {
                nontrivial.insert((c.name(), kind));
                missing.push((p.clone(), *kind));
                *outcomes.entry(format!("UNTRACKED:{kind}")).or_default() += 1;
            }
        }
        if set.is_empty() {
            *outcomes.entry("nothing-to-track".into()).or_default() += 1;
        }
        // decoys must not be demanded, but note whether they show up
        samples.offer(|| {
            json!({"case": c.name(), "invocation": c.invocation, "reference": set.iter().map(|(p, k)| format!("{k}:{}", p.strip_prefix(&ws).unwrap_or(p).display())).collect::<Vec<_>>(), "missing": missing.len()})
        });
        for (p, kind) in missing {
            let key = format!("{}:{}:{}", c.layout, c.form, kind);
            run.violation(
                &key,
                &format!(
                    "generate! ({}) read {} ({kind}) but the crate's dep-info does not list it: editing it will not trigger recompilation",
                    c.form,
                    p.strip_prefix(&ws).unwrap_or(&p).display()
                ),
                json!({"case": c.name(), "kind": kind, "invocation": c.invocation}),
            );
        }
        if replaying {
            println!("  reference read-set: {:?}", set.values().collect::<Vec<_>>());
        }
    }

    // ---- oracle 2 (thorough): editing a tracked file re-checks the crate -----------------------
    let mut edit_rounds = 0usize;
    let mut edits = 0usize;
    if run.thorough() || replaying {
        let kinds: BTreeSet<&'static str> = refs.iter().flat_map(|s| s.values().copied()).collect();
        // a first verbose run must report every case as fresh (otherwise "dirty" means nothing)
        let fresh0 = cargo_check(&ws, &target, true);
        for c in &selected {
            if !fresh0.text.contains(&format!("Fresh {} ", c.crate_name())) {
                notes.push(format!("{}: not fresh on an unchanged tree", c.name()));
            }
        }
        for kind in kinds {
            std::thread::sleep(std::time::Duration::from_millis(1100));
            let mut touched: Vec<usize> = Vec::new();
            for (i, set) in refs.iter().enumerate() {
                if let Some((p, _)) = set.iter().find(|(_, k)| **k == kind) {
                    let mut text = std::fs::read_to_string(p).unwrap();
                    text.push_str("// edited by C32\n");
                    // a plain write: mtime = now, later than the previous build, never in the future
                    std::fs::write(p, text).unwrap();
                    touched.push(i);
                    edits += 1;
                }
            }
            edit_rounds += 1;
            let out = cargo_check(&ws, &target, true);
            if !out.ok {
                vcommon::machinery(&format!("cargo check failed after editing {kind} files: {}", trim_msg(&out.text)));
            }
            for (i, c) in selected.iter().enumerate() {
                let fresh = out.text.contains(&format!("Fresh {} ", c.crate_name()));
                let was_touched = touched.contains(&i);
                evaluations += 1;
                if !was_touched && !fresh {
                    // an untouched crate that is re-checked would make "re-checked" meaningless
                    vcommon::machinery(&format!("{}: re-checked although none of its files was edited (round {kind})", c.name()));
                }
                if was_touched && fresh {
                    *outcomes.entry(format!("edit-NOT-rechecked:{kind}")).or_default() += 1;
                    run.violation(
                        &format!("{}:{}:{}:edit", c.layout, c.form, kind),
                        &format!("editing the {kind} file of {} leaves the crate fresh: cargo does not re-run generate!", c.name()),
                        json!({"case": c.name(), "kind": kind, "invocation": c.invocation}),
                    );
                } else if was_touched {
                    *outcomes.entry(format!("edit-rechecked:{kind}")).or_default() += 1;
                    nontrivial.insert((c.name(), kind));
                }
            }
        }
    }

    let coverage = json!({
        "evaluations": evaluations,
        "distinct_nontrivial": nontrivial.len(),
        "rule": "distinct (layout:form, file kind) pairs for which a file of the reference read-set was looked up in the crate's dep-info (and, thorough, edited and the re-check observed)",
        "exhaustive": true,
        "cases": selected.len(),
        "layouts": selected.iter().map(|c| c.layout).collect::<BTreeSet<_>>(),
        "forms": selected.iter().map(|c| c.form).collect::<BTreeSet<_>>(),
        "tracked_files": tracked_total,
        "edit_rounds": edit_rounds,
        "edits": edits,
        "distinct_outcomes": outcomes,
        "reference_notes": notes,
        "build_seconds": build_secs,
        "target_dir": target.to_string_lossy(),
        "samples": samples.items,
    });
    scratch.remove();
    run.finish(
        coverage,
        vec![
            "Reference read-set = layout files whose corruption makes wit_parser::Resolve::push_path over the same roots fail, united with the source list push_path returns; decoy files (non-.wit, nested directories, deps/ of a dep) are not demanded.".into(),
            "A file counts as tracked when its canonical path occurs in the newest target/debug/deps/<crate>-*.d written by rustc for the case crate (native `cargo check --offline`, wit-bindgen default features).".into(),
            "The shared target directory <verif>/target/c32-<hash of repo root> is kept between runs so that the proc macro is compiled once; a cold run needs 1-3 minutes for that build.".into(),
            "Thorough: files are edited kind by kind (content appended, mtime = now) and `cargo check -v` must not report the crate `Fresh`.".into(),
        ],
    );
}
