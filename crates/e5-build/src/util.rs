//! Small process / filesystem helpers shared by the three checks.

use std::io::Read;
use std::path::{Path, PathBuf};
use std::process::{Command, Stdio};
use std::time::{Duration, Instant};

pub struct Out {
    pub ok: bool,
    pub code: Option<i32>,
    pub text: String,
    pub timed_out: bool,
}

pub fn run_cmd(mut cmd: Command, timeout_ms: u64) -> Out {
    cmd.stdin(Stdio::null()).stdout(Stdio::piped()).stderr(Stdio::piped());
    let mut child = match cmd.spawn() {
        Ok(c) => c,
        Err(e) => {
            return Out { ok: false, code: None, text: format!("spawn failed: {e}"), timed_out: false }
        }
    };
    let mut so = child.stdout.take().unwrap();
    let mut se = child.stderr.take().unwrap();
    let t1 = std::thread::spawn(move || {
        let mut s = Vec::new();
        so.read_to_end(&mut s).ok();
        s
    });
    let t2 = std::thread::spawn(move || {
        let mut s = Vec::new();
        se.read_to_end(&mut s).ok();
        s
    });
    let deadline = Instant::now() + Duration::from_millis(timeout_ms);
    let mut timed_out = false;
    let status = loop {
        match child.try_wait() {
            Ok(Some(st)) => break Some(st),
            Ok(None) => {
                if Instant::now() >= deadline {
                    let _ = child.kill();
                    timed_out = true;
                    break child.wait().ok();
                }
                std::thread::sleep(Duration::from_millis(5));
            }
            Err(_) => break None,
        }
    };
    let mut text = String::from_utf8_lossy(&t1.join().unwrap_or_default()).into_owned();
    text.push_str(&String::from_utf8_lossy(&t2.join().unwrap_or_default()));
    let code = status.and_then(|s| s.code());
    Out { ok: !timed_out && code == Some(0), code, text, timed_out }
}

pub fn run(prog: &str, args: &[&str], cwd: Option<&Path>, timeout_ms: u64) -> Out {
    let mk = || {
        let mut c = Command::new(prog);
        c.args(args);
        if let Some(d) = cwd {
            c.current_dir(d);
        }
        c
    };
    let out = run_cmd(mk(), timeout_ms);
    if out.timed_out {
        // a compiler that needs minutes is a loaded machine, never a verdict: one long retry
        return run_cmd(mk(), timeout_ms.saturating_mul(10));
    }
    out
}

pub fn run_ok(prog: &str, args: &[&str]) -> bool {
    run(prog, args, None, 20_000).ok
}

/// Keep diagnostics short enough for evidence / replay files.
pub fn trim_msg(s: &str) -> String {
    let s = s.trim();
    if s.len() <= 1500 {
        return s.to_string();
    }
    let mut end = 1500;
    while !s.is_char_boundary(end) {
        end -= 1;
    }
    format!("{}…[{} bytes more]", &s[..end], s.len() - end)
}

/// First "error" line of a compiler diagnostic, with absolute scratch paths removed: used to
/// group failures into distinct outcomes.
pub fn first_error(s: &str) -> String {
    for l in s.lines() {
        if l.contains("error") {
            let l = l.trim();
            let l = match l.find("error") {
                Some(i) => &l[i..],
                None => l,
            };
            return l.chars().take(160).collect();
        }
    }
    s.lines().next().unwrap_or("").chars().take(160).collect()
}

/// Fresh scratch directory under the system temp dir; removed by `Scratch::drop`.
pub struct Scratch {
    pub path: PathBuf,
    pub keep: bool,
}

impl Scratch {
    pub fn new(tag: &str) -> Scratch {
        let path = std::env::temp_dir().join(format!("verif-{tag}-{}", std::process::id()));
        let _ = std::fs::remove_dir_all(&path);
        std::fs::create_dir_all(&path)
            .unwrap_or_else(|e| vcommon::machinery(&format!("cannot create {path:?}: {e}")));
        Scratch { path, keep: std::env::var_os("VERIF_KEEP").is_some() }
    }
    pub fn remove(&self) {
        if !self.keep {
            let _ = std::fs::remove_dir_all(&self.path);
        }
    }
}

impl Drop for Scratch {
    fn drop(&mut self) {
        self.remove();
    }
}

/// Rotate work order by VERIF_SEED (results are order independent).
pub fn rotate<T>(v: &mut Vec<T>, seed: u64) {
    if !v.is_empty() {
        let k = (seed as usize) % v.len();
        v.rotate_left(k);
    }
}
