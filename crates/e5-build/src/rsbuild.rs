//! C09 pipeline: generate Rust in-process → (a) real wasm32-unknown-unknown cdylib build with a
//! no_std mini-sysroot built from nightly rust-src + the wit-bindgen runtime built for wasm32
//! no_std, linked by rust-lld, then ComponentEncoder; (b) native `rustc --emit=metadata`
//! type-check against a natively built wit-bindgen rlib for std configurations.

use crate::util::*;
use std::path::{Path, PathBuf};
use wit_parser::{Resolve, WorldId};

#[derive(Clone, Debug, PartialEq, Eq)]
pub struct RConfig {
    pub borrowing: bool,
    /// generator option `std_feature`: the bindings are usable from a `#![no_std]` crate whose
    /// `std` feature is off — this is the "no-std" configuration of crates/test/src/rust.rs
    pub std_feature: bool,
    pub merge: bool,
    pub hashmap: bool,
    pub raw_strings: bool,
}

impl RConfig {
    pub fn name(&self) -> String {
        format!(
            "{}/{}/{}/{}/{}",
            if self.borrowing { "borrowing" } else { "owning" },
            if self.std_feature { "no-std" } else { "std" },
            if self.merge { "merge" } else { "no-merge" },
            if self.hashmap { "hashmap" } else { "btreemap" },
            if self.raw_strings { "raw-strings" } else { "strings" },
        )
    }
    pub fn from_name(n: &str) -> Option<RConfig> {
        let p: Vec<&str> = n.split('/').collect();
        if p.len() != 5 {
            return None;
        }
        Some(RConfig {
            borrowing: p[0] == "borrowing",
            std_feature: p[1] == "no-std",
            merge: p[2] == "merge",
            hashmap: p[3] == "hashmap",
            raw_strings: p[4] == "raw-strings",
        })
    }
    /// Full factorial minus {no-std x HashMap} (`std::collections::HashMap` needs std).
    pub fn all() -> Vec<RConfig> {
        let mut v = Vec::new();
        for borrowing in [false, true] {
            for std_feature in [true, false] {
                for merge in [false, true] {
                    for hashmap in [false, true] {
                        for raw_strings in [false, true] {
                            if std_feature && hashmap {
                                continue;
                            }
                            v.push(RConfig { borrowing, std_feature, merge, hashmap, raw_strings });
                        }
                    }
                }
            }
        }
        v
    }
    /// Three configurations in which every option value occurs at least once.
    pub fn quick() -> Vec<RConfig> {
        vec![
            RConfig { borrowing: false, std_feature: true, merge: false, hashmap: false, raw_strings: false },
            RConfig { borrowing: true, std_feature: false, merge: true, hashmap: true, raw_strings: false },
            RConfig { borrowing: true, std_feature: true, merge: false, hashmap: false, raw_strings: true },
        ]
    }
}

pub fn generate(resolve: &Resolve, world: WorldId, cfg: &RConfig) -> Result<String, String> {
    let mut resolve = resolve.clone();
    let mut opts = wit_bindgen_rust::Opts::default();
    opts.generate_all = true;
    opts.stubs = true;
    opts.std_feature = cfg.std_feature;
    opts.raw_strings = cfg.raw_strings;
    if cfg.borrowing {
        opts.ownership = wit_bindgen_rust::Ownership::Borrowing { duplicate_if_necessary: false };
    }
    if cfg.merge {
        opts.merge_structurally_equal_types = Some(None);
    }
    if cfg.hashmap {
        opts.map_type = Some("std::collections::HashMap".to_string());
    }
    let r = vcommon::catch(move || {
        use wit_bindgen_core::WorldGenerator;
        let mut files = wit_bindgen_core::Files::default();
        let mut g = opts.build();
        g.generate(&mut resolve, world, &mut files).map(|_| {
            files
                .iter()
                .map(|(n, b)| (n.to_string(), String::from_utf8_lossy(b).into_owned()))
                .collect::<Vec<_>>()
        })
    });
    match r {
        Err(p) => Err(format!("generator panicked: {p}")),
        Ok(Err(e)) => Err(format!("generator error: {e:#}")),
        Ok(Ok(f)) => {
            let mut rs: Vec<_> = f.into_iter().filter(|f| f.0.ends_with(".rs")).collect();
            if rs.len() != 1 {
                return Err(format!("expected one .rs file, got {}", rs.len()));
            }
            Ok(rs.remove(0).1)
        }
    }
}

pub struct RustToolchain {
    pub nightly_rustc: PathBuf,
    pub nightly_version: String,
    pub stable_rustc: PathBuf,
    pub stable_version: String,
    pub sysroot: PathBuf,
    pub wasm_args: Vec<String>,
    pub native_args: Vec<String>,
    pub setup_secs: f64,
}

fn which(toolchain: Option<&str>, tool: &str) -> PathBuf {
    let mut args = vec!["which", tool];
    if let Some(t) = toolchain {
        args.push("--toolchain");
        args.push(t);
    }
    let o = run("rustup", &args, None, 30_000);
    if !o.ok {
        vcommon::machinery(&format!("rustup which {tool} ({toolchain:?}) failed: {}", o.text));
    }
    PathBuf::from(o.text.trim())
}

/// Parse cargo's `--message-format=json` output the way crates/test/src/rust.rs::prepare does:
/// artifact of `wit_bindgen` → `--extern`, directories of all artifacts → `-Ldependency=`,
/// build-script linked paths → `-L`.
fn extern_args(json: &str) -> Option<Vec<String>> {
    let mut args = Vec::new();
    let mut seen = std::collections::BTreeSet::new();
    let mut wb = None;
    for line in json.lines() {
        let Ok(v) = serde_json::from_str::<serde_json::Value>(line) else { continue };
        match v["reason"].as_str() {
            Some("compiler-artifact") => {
                let files: Vec<String> = v["filenames"].as_array()?.iter().filter_map(|f| f.as_str().map(String::from)).collect();
                if v["target"]["name"] == "wit_bindgen" {
                    wb = files.iter().find(|f| f.ends_with(".rlib")).cloned();
                }
                for f in &files {
                    let d = Path::new(f).parent()?.to_string_lossy().into_owned();
                    if seen.insert(d.clone()) {
                        args.push(format!("-Ldependency={d}"));
                    }
                }
            }
            Some("build-script-executed") => {
                for p in v["linked_paths"].as_array()? {
                    let p = p.as_str()?.to_string();
                    if seen.insert(p.clone()) {
                        if p.contains('=') {
                            args.push(format!("-L{p}"));
                        } else {
                            args.push(format!("-Ldependency={p}"));
                        }
                    }
                }
            }
            _ => {}
        }
    }
    args.push(format!("--extern=wit_bindgen={}", wb?));
    Some(args)
}

fn cargo_cmd(cargo: &Path, dir: &Path, target_dir: &Path) -> std::process::Command {
    let mut c = std::process::Command::new(cargo);
    c.current_dir(dir)
        .env_remove("CARGO_TARGET_DIR")
        .env_remove("RUSTFLAGS")
        .env_remove("CARGO_ENCODED_RUSTFLAGS")
        .env_remove("RUSTUP_TOOLCHAIN")
        .env("CARGO_NET_OFFLINE", "true")
        .env("CARGO_TERM_COLOR", "never")
        .arg("build")
        .arg("--offline")
        .arg("--target-dir")
        .arg(target_dir);
    c
}

impl RustToolchain {
    /// `cache` = persistent directory (<verif>/target/c09-<hash of repo root>); `tmp` = scratch
    /// directory outside of any cargo configuration for the helper crates' sources.
    pub fn prepare(cache: &Path, tmp: &Path, repo: &str) -> RustToolchain {
        let t0 = std::time::Instant::now();
        std::fs::create_dir_all(cache).unwrap_or_else(|e| vcommon::machinery(&format!("{cache:?}: {e}")));
        let nightly_rustc = which(Some("nightly"), "rustc");
        let nightly_cargo = which(Some("nightly"), "cargo");
        let stable_rustc = which(None, "rustc");
        let stable_cargo = which(None, "cargo");
        let ver = |p: &Path| run(p.to_str().unwrap(), &["-V"], None, 30_000).text.trim().to_string();
        let nightly_version = ver(&nightly_rustc);
        let stable_version = ver(&stable_rustc);
        let nightly_root = nightly_rustc.parent().unwrap().parent().unwrap().to_path_buf();
        let rust_src = nightly_root.join("lib/rustlib/src/rust/library");
        if !rust_src.join("alloc/Cargo.toml").exists() {
            vcommon::machinery(&format!("nightly rust-src not found at {rust_src:?}"));
        }

        // ---- A. mini-sysroot (core, compiler_builtins, alloc for wasm32-unknown-unknown) -------
        let sysroot = cache.join("sysroot");
        let libdir = sysroot.join("lib/rustlib/wasm32-unknown-unknown/lib");
        let stamp = sysroot.join("stamp");
        let want_stamp = format!("{nightly_version}\n");
        if std::fs::read_to_string(&stamp).ok().as_deref() != Some(&want_stamp) {
            let _ = std::fs::remove_dir_all(&sysroot);
            let src = tmp.join("minisysroot");
            std::fs::create_dir_all(&src).unwrap();
            std::fs::write(
                src.join("Cargo.toml"),
                format!(
                    "[package]\nname = \"minisysroot\"\nversion = \"0.0.0\"\nedition = \"2021\"\n\n[lib]\npath = \"lib.rs\"\n\n[workspace]\n\n[dependencies]\nalloc = {{ path = \"{}/alloc\", features = [\"compiler-builtins-mem\"] }}\n\n[profile.dev]\nopt-level = 1\ndebug = 0\ncodegen-units = 16\n",
                    rust_src.display()
                ),
            )
            .unwrap();
            // the root crate itself must not need a sysroot `core`
            std::fs::write(src.join("lib.rs"), "#![feature(no_core)]\n#![no_core]\n").unwrap();
            if let Ok(lock) = std::fs::read(rust_src.join("Cargo.lock")) {
                let _ = std::fs::write(src.join("Cargo.lock"), lock);
            }
            let tdir = cache.join("sysroot-build");
            let mut c = cargo_cmd(&nightly_cargo, &src, &tdir);
            c.arg("--target").arg("wasm32-unknown-unknown").env("RUSTFLAGS", "-Zforce-unstable-if-unmarked").env("RUSTC", &nightly_rustc);
            let o = run_cmd(c, 1_500_000);
            if !o.ok {
                // retry without the lock file (it may not match a sub-graph resolution)
                let _ = std::fs::remove_file(src.join("Cargo.lock"));
                let mut c = cargo_cmd(&nightly_cargo, &src, &tdir);
                c.arg("--target").arg("wasm32-unknown-unknown").env("RUSTFLAGS", "-Zforce-unstable-if-unmarked").env("RUSTC", &nightly_rustc);
                let o2 = run_cmd(c, 1_500_000);
                if !o2.ok {
                    vcommon::machinery(&format!("mini-sysroot build failed: {}\n---\n{}", trim_msg(&o.text), trim_msg(&o2.text)));
                }
            }
            std::fs::create_dir_all(&libdir).unwrap();
            let deps = tdir.join("wasm32-unknown-unknown/debug/deps");
            let mut n = 0;
            for e in std::fs::read_dir(&deps).unwrap().flatten() {
                let name = e.file_name().to_string_lossy().into_owned();
                if name.ends_with(".rlib") && (name.starts_with("libcore-") || name.starts_with("liballoc-") || name.starts_with("libcompiler_builtins-")) {
                    std::fs::copy(e.path(), libdir.join(&name)).unwrap();
                    n += 1;
                }
            }
            if n != 3 {
                vcommon::machinery(&format!("mini-sysroot: expected 3 rlibs in {deps:?}, found {n}"));
            }
            std::fs::write(&stamp, &want_stamp).unwrap();
        }

        // ---- B. wit-bindgen runtime for wasm32 no_std --------------------------------------------
        let helper = |name: &str, features: &str, no_std: bool| -> PathBuf {
            let src = tmp.join(name);
            std::fs::create_dir_all(&src).unwrap();
            std::fs::write(
                src.join("Cargo.toml"),
                format!(
                    "[package]\nname = \"tmp\"\nversion = \"0.0.0\"\nedition = \"2021\"\n\n[workspace]\n\n[dependencies]\nwit-bindgen = {{ path = \"{repo}/crates/guest-rust\", default-features = false, features = [{features}] }}\n\n[lib]\npath = \"lib.rs\"\n\n[profile.dev]\ndebug = 0\n"
                ),
            )
            .unwrap();
            std::fs::write(src.join("lib.rs"), if no_std { "#![no_std]\n" } else { "" }).unwrap();
            if let Ok(lock) = std::fs::read(format!("{repo}/Cargo.lock")) {
                let _ = std::fs::write(src.join("Cargo.lock"), lock);
            }
            src
        };
        let src = helper("rt-wasm", "\"realloc\", \"async\", \"bitflags\"", true);
        let mut c = cargo_cmd(&nightly_cargo, &src, &cache.join("rt-wasm"));
        c.arg("--target")
            .arg("wasm32-unknown-unknown")
            .arg("--message-format=json")
            .env("RUSTC", &nightly_rustc)
            .env("RUSTFLAGS", format!("--sysroot {}", sysroot.display()));
        let o = run_cmd(c, 1_500_000);
        if !o.ok {
            vcommon::machinery(&format!(
                "building the wit-bindgen runtime for wasm32 no_std failed: {}",
                trim_msg(&o.text.lines().filter(|l| !l.starts_with('{')).collect::<Vec<_>>().join("\n"))
            ));
        }
        let wasm_args = extern_args(&o.text).unwrap_or_else(|| vcommon::machinery("no wit_bindgen artifact in cargo output (wasm32)"));

        // ---- C. wit-bindgen runtime natively (std) -----------------------------------------------
        let src = helper("rt-native", "\"realloc\", \"async\", \"std\", \"bitflags\"", false);
        let mut c = cargo_cmd(&stable_cargo, &src, &cache.join("rt-native"));
        c.arg("--message-format=json").env("RUSTC", &stable_rustc);
        let o = run_cmd(c, 1_500_000);
        if !o.ok {
            vcommon::machinery(&format!(
                "building the wit-bindgen runtime natively failed: {}",
                trim_msg(&o.text.lines().filter(|l| !l.starts_with('{')).collect::<Vec<_>>().join("\n"))
            ));
        }
        let native_args = extern_args(&o.text).unwrap_or_else(|| vcommon::machinery("no wit_bindgen artifact in cargo output (native)"));

        RustToolchain {
            nightly_rustc,
            nightly_version,
            stable_rustc,
            stable_version,
            sysroot,
            wasm_args,
            native_args,
            setup_secs: t0.elapsed().as_secs_f64(),
        }
    }
}

pub const NO_STD_ROOT: &str = r#"#![no_std]
extern crate alloc;

include!("bindings.rs");

// as in crates/test/src/rust.rs: an empty module named `core` catches module path conflicts
mod core {}

#[panic_handler]
fn verif_panic(_: &::core::panic::PanicInfo<'_>) -> ! {
    loop {}
}

struct VerifAlloc;
unsafe impl ::core::alloc::GlobalAlloc for VerifAlloc {
    unsafe fn alloc(&self, _: ::core::alloc::Layout) -> *mut u8 {
        ::core::ptr::null_mut()
    }
    unsafe fn dealloc(&self, _: *mut u8, _: ::core::alloc::Layout) {}
}
#[global_allocator]
static VERIF_ALLOC: VerifAlloc = VerifAlloc;
"#;

/// A root that references every public non-generic function of the bindings outside `exports`
/// (import wrappers, resource constructors / methods / statics), so that the linker's section GC
/// keeps all of them and all core imports of the world show up in the module.  The extra export
/// `verif_keepalive` is ignored by wit-component (unknown exports are skipped).
pub fn keepalive(bindings: &str) -> Option<(String, usize)> {
    let file = syn::parse_file(bindings).ok()?;
    fn is_pub(v: &syn::Visibility) -> bool {
        matches!(v, syn::Visibility::Public(_))
    }
    fn no_type_generics(g: &syn::Generics) -> bool {
        g.params.iter().all(|p| matches!(p, syn::GenericParam::Lifetime(_)))
    }
    fn has_cfg(attrs: &[syn::Attribute]) -> bool {
        attrs.iter().any(|a| a.path().is_ident("cfg"))
    }
    fn walk(items: &[syn::Item], path: &mut Vec<String>, out: &mut Vec<String>) {
        for it in items {
            match it {
                syn::Item::Mod(m) => {
                    let name = m.ident.to_string();
                    if path.is_empty() && (name == "exports" || name == "_rt") {
                        continue;
                    }
                    if has_cfg(&m.attrs) || !is_pub(&m.vis) {
                        continue;
                    }
                    if let Some((_, items)) = &m.content {
                        path.push(name);
                        walk(items, path, out);
                        path.pop();
                    }
                }
                syn::Item::Fn(f) => {
                    if !is_pub(&f.vis) || has_cfg(&f.attrs) || !no_type_generics(&f.sig.generics) || f.sig.ident.to_string().starts_with('_') {
                        continue;
                    }
                    if f.sig.inputs.iter().any(|a| matches!(a, syn::FnArg::Typed(t) if matches!(*t.ty, syn::Type::ImplTrait(_)))) {
                        continue;
                    }
                    let mut p = path.clone();
                    p.push(f.sig.ident.to_string());
                    out.push(format!("crate::{}", p.join("::")));
                }
                syn::Item::Impl(i) => {
                    if i.trait_.is_some() || has_cfg(&i.attrs) || !i.generics.params.is_empty() {
                        continue;
                    }
                    let syn::Type::Path(tp) = &*i.self_ty else { continue };
                    let Some(id) = tp.path.get_ident() else { continue };
                    for ii in &i.items {
                        if let syn::ImplItem::Fn(f) = ii {
                            if !is_pub(&f.vis) || has_cfg(&f.attrs) || !no_type_generics(&f.sig.generics) {
                                continue;
                            }
                            if f.sig.inputs.iter().any(|a| matches!(a, syn::FnArg::Typed(t) if matches!(*t.ty, syn::Type::ImplTrait(_)))) {
                                continue;
                            }
                            let mut p = path.clone();
                            p.push(id.to_string());
                            p.push(f.sig.ident.to_string());
                            out.push(format!("crate::{}", p.join("::")));
                        }
                    }
                }
                _ => {}
            }
        }
    }
    let mut out = Vec::new();
    walk(&file.items, &mut Vec::new(), &mut out);
    let mut s = String::from("\n#[unsafe(export_name = \"verif_keepalive\")]\npub extern \"C\" fn verif_keepalive() -> usize {\n    let mut n = 0usize;\n");
    for p in &out {
        s.push_str(&format!("    n = n.wrapping_add({p} as usize);\n"));
    }
    s.push_str("    n\n}\n");
    Some((s, out.len()))
}

pub const STD_ROOT: &str = "include!(\"bindings.rs\");\n";

#[derive(Debug, Clone)]
pub struct Fail {
    pub stage: &'static str,
    pub msg: String,
}

/// Real wasm32 build of the bindings in a `#![no_std]` cdylib; returns the core module.
pub fn build_wasm(tc: &RustToolchain, dir: &Path, bindings: &str, edition: &str) -> Result<Vec<u8>, Fail> {
    std::fs::create_dir_all(dir).map_err(|e| Fail { stage: "machinery", msg: e.to_string() })?;
    std::fs::write(dir.join("bindings.rs"), bindings).unwrap();
    let keep = keepalive(bindings).map(|k| k.0).unwrap_or_default();
    std::fs::write(dir.join("main.rs"), format!("{NO_STD_ROOT}{keep}")).unwrap();
    let mut c = std::process::Command::new(&tc.nightly_rustc);
    c.current_dir(dir)
        .env_remove("RUSTFLAGS")
        .arg(format!("--edition={edition}"))
        .arg("--target")
        .arg("wasm32-unknown-unknown")
        .arg("--sysroot")
        .arg(&tc.sysroot)
        .arg("--crate-type=cdylib")
        .arg("--crate-name=verif_case")
        .arg("-Cpanic=abort")
        .arg("-Cdebuginfo=0")
        .arg("-Ccodegen-units=1")
        .args(&tc.wasm_args)
        .arg("main.rs")
        .arg("-o")
        .arg("case.wasm");
    let o = run_cmd(c, 1_800_000);
    if o.timed_out || o.code.is_none() {
        return Err(Fail { stage: "machinery", msg: format!("rustc (wasm32) timed out or was killed: {}", trim_msg(&o.text)) });
    }
    if !o.ok {
        let stage = if o.text.contains("linking with") || o.text.contains("rust-lld") { "link" } else { "rustc-wasm32" };
        return Err(Fail { stage, msg: trim_msg(&o.text) });
    }
    std::fs::read(dir.join("case.wasm")).map_err(|e| Fail { stage: "machinery", msg: e.to_string() })
}

/// Native type-check of the bindings in a std crate.
pub fn check_native(tc: &RustToolchain, dir: &Path, bindings: &str, edition: &str) -> Result<(), Fail> {
    std::fs::create_dir_all(dir).map_err(|e| Fail { stage: "machinery", msg: e.to_string() })?;
    std::fs::write(dir.join("bindings.rs"), bindings).unwrap();
    std::fs::write(dir.join("main_std.rs"), STD_ROOT).unwrap();
    let mut c = std::process::Command::new(&tc.stable_rustc);
    c.current_dir(dir)
        .env_remove("RUSTFLAGS")
        .arg(format!("--edition={edition}"))
        .arg("--crate-type=rlib")
        .arg("--crate-name=verif_case")
        .arg("--emit=metadata")
        .arg("-Cdebuginfo=0")
        .args(&tc.native_args)
        .arg("main_std.rs")
        .arg("-o")
        .arg("case.rmeta");
    let o = run_cmd(c, 1_800_000);
    if o.timed_out || o.code.is_none() {
        return Err(Fail { stage: "machinery", msg: format!("rustc (native) timed out or was killed: {}", trim_msg(&o.text)) });
    }
    if !o.ok {
        return Err(Fail { stage: "rustc-native", msg: trim_msg(&o.text) });
    }
    Ok(())
}

/// `#[link(wasm_import_module = "m")]` / `#[link_name = "n"]` / `#[unsafe(export_name = "e")]`
/// declarations of a bindings file (textual; used for the std configurations whose wasm32 half
/// cannot be built here).
pub fn extract_decls(bindings: &str) -> (Vec<(String, String)>, Vec<String>) {
    let re_mod = regex::Regex::new(r#"wasm_import_module\s*=\s*"((?:[^"\\]|\\.)*)""#).unwrap();
    let re_name = regex::Regex::new(r#"link_name\s*=\s*"((?:[^"\\]|\\.)*)""#).unwrap();
    let re_exp = regex::Regex::new(r#"export_name\s*=\s*"((?:[^"\\]|\\.)*)""#).unwrap();
    let mut imports = Vec::new();
    let mut exports = Vec::new();
    // every link_name belongs to the closest preceding wasm_import_module
    let mods: Vec<(usize, String)> = re_mod.captures_iter(bindings).map(|c| (c.get(0).unwrap().start(), c[1].to_string())).collect();
    for c in re_name.captures_iter(bindings) {
        let at = c.get(0).unwrap().start();
        let m = mods.iter().rev().find(|(p, _)| *p < at).map(|m| m.1.clone()).unwrap_or_default();
        imports.push((m, c[1].to_string()));
    }
    for c in re_exp.captures_iter(bindings) {
        exports.push(c[1].to_string());
    }
    imports.sort();
    imports.dedup();
    exports.sort();
    exports.dedup();
    (imports, exports)
}

/// Core-level imports / exports of a module (function imports; function exports).
pub fn module_decls(module: &[u8]) -> Result<(Vec<(String, String)>, Vec<String>), String> {
    let mut imports = Vec::new();
    let mut exports = Vec::new();
    for p in wasmparser::Parser::new(0).parse_all(module) {
        match p.map_err(|e| e.to_string())? {
            wasmparser::Payload::ImportSection(s) => {
                for i in s.into_imports() {
                    let i = i.map_err(|e| e.to_string())?;
                    if matches!(i.ty, wasmparser::TypeRef::Func(_) | wasmparser::TypeRef::FuncExact(_)) {
                        imports.push((i.module.to_string(), i.name.to_string()));
                    }
                }
            }
            wasmparser::Payload::ExportSection(s) => {
                for e in s {
                    let e = e.map_err(|e| e.to_string())?;
                    if matches!(e.kind, wasmparser::ExternalKind::Func | wasmparser::ExternalKind::FuncExact) {
                        exports.push(e.name.to_string());
                    }
                }
            }
            _ => {}
        }
    }
    imports.sort();
    imports.dedup();
    exports.sort();
    exports.dedup();
    Ok((imports, exports))
}

pub fn cache_dir(repo: &str) -> PathBuf {
    PathBuf::from(vcommon::verif_root()).join("target").join(format!("c09-{:016x}", vcommon::fnv(repo.as_bytes())))
}
