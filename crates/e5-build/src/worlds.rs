//! World enumerator for the build+componentize checks (C12, C09): adversarial-name worlds,
//! type-constructor worlds, resource worlds, collision worlds and the tests/codegen corpus.
//! Everything is deterministic; the alphabets are echoed into the evidence by the callers.

use std::collections::BTreeSet;
use std::path::PathBuf;
use wit_parser::*;

#[derive(Clone, Debug)]
pub enum Source {
    Inline(String),
    /// entry of `<repo>/tests/codegen`
    Corpus(String),
}

#[derive(Clone, Debug)]
pub struct Case {
    pub id: String,
    pub family: &'static str,
    pub source: Source,
}

impl Case {
    pub fn inline(id: impl Into<String>, family: &'static str, wit: String) -> Case {
        Case { id: id.into(), family, source: Source::Inline(wit) }
    }
    pub fn wit_text(&self) -> String {
        match &self.source {
            Source::Inline(s) => s.clone(),
            Source::Corpus(n) => format!("<{}/tests/codegen/{n}>", vcommon::repo_root()),
        }
    }
    pub fn to_json(&self) -> serde_json::Value {
        match &self.source {
            Source::Inline(s) => serde_json::json!({"id": self.id, "family": self.family, "inline": s}),
            Source::Corpus(n) => serde_json::json!({"id": self.id, "family": self.family, "corpus": n}),
        }
    }
    pub fn from_json(v: &serde_json::Value) -> Option<Case> {
        let id = v["id"].as_str()?.to_string();
        let source = if let Some(s) = v["inline"].as_str() {
            Source::Inline(s.to_string())
        } else {
            Source::Corpus(v["corpus"].as_str()?.to_string())
        };
        Some(Case { id, family: "replay", source })
    }
}

/// Parse a case the way `crates/test` does for codegen tests: `push_path` (or `push_str`),
/// `select_world(None)`, falling back to the world called `imports`.
pub fn load(case: &Case) -> anyhow::Result<(Resolve, WorldId)> {
    let mut resolve = Resolve::default();
    let pkg = match &case.source {
        Source::Inline(s) => resolve.push_str("case.wit", s)?,
        Source::Corpus(n) => {
            let p = PathBuf::from(vcommon::repo_root()).join("tests/codegen").join(n);
            resolve.push_path(&p)?.0
        }
    };
    let world = resolve
        .select_world(&[pkg], None)
        .or_else(|err| resolve.select_world(&[pkg], Some("imports")).map_err(|_| err))?;
    Ok((resolve, world))
}

pub fn corpus_entries() -> Vec<String> {
    let dir = PathBuf::from(vcommon::repo_root()).join("tests/codegen");
    let mut v: Vec<String> = std::fs::read_dir(&dir)
        .unwrap_or_else(|e| vcommon::machinery(&format!("cannot read {dir:?}: {e}")))
        .filter_map(|e| e.ok())
        .map(|e| e.file_name().to_string_lossy().into_owned())
        .filter_map(|n| {
            // discovery rule of crates/test/src/lib.rs: `*.wit` files, or directories with a `wit/` sub-directory
            if n.ends_with(".wit") && dir.join(&n).is_file() {
                Some(n)
            } else if dir.join(&n).join("wit").is_dir() {
                Some(format!("{n}/wit"))
            } else {
                None
            }
        })
        .collect();
    v.sort();
    v
}

pub fn corpus_cases() -> Vec<Case> {
    corpus_entries()
        .into_iter()
        .map(|n| Case { id: format!("corpus:{n}"), family: "corpus", source: Source::Corpus(n) })
        .collect()
}

// ---------------------------------------------------------------------------------------------
// feature analysis (drives the declared-exclusion table)

#[derive(Default, Debug, Clone)]
pub struct Features {
    pub error_context: bool,
    pub fixed_length_list: bool,
    pub named_fixed_length_list: bool,
    pub future_or_stream: bool,
    /// a future/stream that is not directly a function parameter/result type
    pub nested_future_or_stream: bool,
    pub async_funcs: bool,
    pub resources: bool,
    pub map: bool,
    pub has_exports: bool,
    pub n_funcs: usize,
    pub n_types: usize,
}

impl Features {
    pub fn to_json(&self) -> serde_json::Value {
        serde_json::json!({
            "error_context": self.error_context, "fixed_length_list": self.fixed_length_list,
            "named_fixed_length_list": self.named_fixed_length_list,
            "future_or_stream": self.future_or_stream,
            "nested_future_or_stream": self.nested_future_or_stream,
            "async_funcs": self.async_funcs, "resources": self.resources, "map": self.map,
            "has_exports": self.has_exports, "n_funcs": self.n_funcs, "n_types": self.n_types,
        })
    }
}

fn walk_type(r: &Resolve, t: &Type, top: bool, seen: &mut BTreeSet<usize>, f: &mut Features) {
    match t {
        Type::ErrorContext => f.error_context = true,
        Type::Id(id) => {
            let td = &r.types[*id];
            let first = seen.insert(id.index());
            if !first && !top {
                // still need "nested" information for re-visits below a constructor
            }
            let mut sub = |t: &Type, f: &mut Features| walk_type(r, t, false, seen, f);
            match &td.kind {
                TypeDefKind::Type(t) => {
                    // an alias keeps the position of its use
                    walk_type(r, t, top, seen, f)
                }
                TypeDefKind::Record(rec) => {
                    if first {
                        for fl in &rec.fields {
                            sub(&fl.ty, f)
                        }
                    }
                }
                TypeDefKind::Resource => f.resources = true,
                TypeDefKind::Handle(_) => f.resources = true,
                TypeDefKind::Flags(_) | TypeDefKind::Enum(_) | TypeDefKind::Unknown => {}
                TypeDefKind::Tuple(t) => {
                    if first {
                        for t in &t.types {
                            sub(t, f)
                        }
                    }
                }
                TypeDefKind::Variant(v) => {
                    if first {
                        for c in &v.cases {
                            if let Some(t) = &c.ty {
                                sub(t, f)
                            }
                        }
                    }
                }
                TypeDefKind::Option(t) | TypeDefKind::List(t) => {
                    if first {
                        sub(t, f)
                    }
                }
                TypeDefKind::Result(res) => {
                    if first {
                        if let Some(t) = &res.ok {
                            sub(t, f)
                        }
                        if let Some(t) = &res.err {
                            sub(t, f)
                        }
                    }
                }
                TypeDefKind::Map(k, v) => {
                    f.map = true;
                    if first {
                        sub(k, f);
                        sub(v, f);
                    }
                }
                TypeDefKind::FixedLengthList(t, _) => {
                    f.fixed_length_list = true;
                    if td.name.is_some() {
                        f.named_fixed_length_list = true;
                    }
                    if first {
                        sub(t, f)
                    }
                }
                TypeDefKind::Future(t) | TypeDefKind::Stream(t) => {
                    f.future_or_stream = true;
                    if !top {
                        f.nested_future_or_stream = true;
                    }
                    if let Some(t) = t {
                        // payload of a future/stream: a future/stream inside is nested
                        walk_type(r, t, false, seen, f)
                    }
                }
            }
        }
        _ => {}
    }
}

fn walk_func(r: &Resolve, func: &Function, seen: &mut BTreeSet<usize>, f: &mut Features) {
    f.n_funcs += 1;
    if matches!(
        func.kind,
        FunctionKind::AsyncFreestanding | FunctionKind::AsyncMethod(_) | FunctionKind::AsyncStatic(_)
    ) {
        f.async_funcs = true;
    }
    for p in &func.params {
        walk_type(r, &p.ty, true, seen, f);
    }
    if let Some(t) = &func.result {
        walk_type(r, t, true, seen, f);
    }
}

pub fn features(r: &Resolve, w: WorldId) -> Features {
    let mut f = Features::default();
    let world = &r.worlds[w];
    f.has_exports = !world.exports.is_empty();
    for (dir, items) in [(0, &world.imports), (1, &world.exports)] {
        let _ = dir;
        for (_, item) in items.iter() {
            // each function position is judged with a fresh "seen" set so that `top`/nested is
            // per use; named typedefs of an interface are visited as non-top (a named
            // `type t = future<u8>` is a nested position for this purpose only if used nested).
            match item {
                WorldItem::Function(func) => {
                    walk_func(r, func, &mut BTreeSet::new(), &mut f);
                }
                WorldItem::Interface { id, .. } => {
                    let i = &r.interfaces[*id];
                    for (_, t) in i.types.iter() {
                        f.n_types += 1;
                        // a named typedef whose body *is* a future/stream counts as top
                        walk_type(r, &Type::Id(*t), true, &mut BTreeSet::new(), &mut f);
                    }
                    for (_, func) in i.functions.iter() {
                        walk_func(r, func, &mut BTreeSet::new(), &mut f);
                    }
                }
                WorldItem::Type { id, .. } => {
                    f.n_types += 1;
                    walk_type(r, &Type::Id(*id), true, &mut BTreeSet::new(), &mut f);
                }
            }
        }
    }
    f
}

// ---------------------------------------------------------------------------------------------
// adversarial-name worlds

pub const POSITIONS: &[&str] = &[
    "all", "namespace", "package", "interface", "world", "type", "world-type", "field", "case",
    "flag", "func", "world-func", "param", "resource", "method",
];

/// One world in which `name` occupies naming position `pos` (or every position for `all`);
/// every other name is a benign two-letter word.  The interface is both imported and exported.
pub fn named_world(name: &str, pos: &str) -> String {
    named_world_ex(name, pos, true)
}

/// `pkg_too = false`: in `all` mode keep namespace and package benign (WIT keywords cannot be
/// escaped there and upper-case words are not valid in package names).
pub fn named_world_ex(name: &str, pos: &str, pkg_too: bool) -> String {
    let p = |which: &str, benign: &str| -> String {
        if pos == "all" || pos == which {
            name.to_string()
        } else {
            benign.to_string()
        }
    };
    let (ns, pkg) = if pos == "all" && !pkg_too {
        ("nsx".to_string(), "pkx".to_string())
    } else {
        (p("namespace", "nsx"), p("package", "pkx"))
    };
    let iface = p("interface", "ifx");
    let world = if pos == "all" { format!("{name}-wo") } else { p("world", "wox") };
    let ty = p("type", "tyx");
    let wty = if pos == "all" { format!("{name}-w") } else { p("world-type", "wtx") };
    let field = p("field", "fdx");
    let case = p("case", "cax");
    let flag = p("flag", "flx");
    let func = if pos == "all" { format!("{name}-fn") } else { p("func", "fnx") };
    let wfunc = p("world-func", "wfx");
    let param = p("param", "pax");
    let res = p("resource", "rex");
    let method = p("method", "mex");
    // a method cannot have an explicit parameter called `self`
    let mparam = if param == "self" { "pax".to_string() } else { param.clone() };
    // in `all` mode the record, the resource, the function … would all be called `name`
    // inside one interface, which WIT rejects for types; give the non-record types a suffix.
    let (res_n, en_n, va_n, fl_n) = if pos == "all" {
        (format!("{res}-r"), format!("{name}-e"), format!("{name}-v"), format!("{name}-f"))
    } else {
        (res.clone(), "enx".to_string(), "vax".to_string(), "fgx".to_string())
    };
    format!(
        r#"package {ns}:{pkg};

interface %{iface} {{
  record %{ty} {{ %{field}: u32, other-field: string }}
  enum %{en_n} {{ %{case}, other-case }}
  variant %{va_n} {{ %{case}(u32), other-case(string), none-case }}
  flags %{fl_n} {{ %{flag}, other-flag }}
  resource %{res_n} {{
    constructor(%{param}: u32);
    %{method}: func(%{mparam}: string) -> u32;
    %{method}-s: static func(%{param}: u32) -> %{res_n};
  }}
  %{func}: func(%{param}: %{ty}, b: %{en_n}, c: %{va_n}, d: %{fl_n}) -> %{ty};
  %{func}-r: func(%{param}: borrow<%{res_n}>, o: option<u32>) -> result<%{res_n}, string>;
  %{func}-two: func(first: string, %{param}: list<u8>, third: list<string>) -> string;
}}

world %{world} {{
  record %{wty} {{ %{field}: u32, other-field: list<u8> }}
  import %{iface};
  import %{wfunc}: func(%{param}: %{wty}) -> %{wty};
  export %{iface};
  export %{wfunc}: func(%{param}: %{wty}) -> %{wty};
}}
"#
    )
}

pub fn named_cases(alphabet: &[&str], positions: &[&str], family: &'static str) -> Vec<Case> {
    let mut v = Vec::new();
    for n in alphabet {
        for p in positions {
            // `all` = every naming position except namespace and package (WIT keywords cannot be
            // escaped there, upper-case words are accepted by wit-parser but rejected by the
            // component binary format, and one unescaped package name would mask every other
            // position); namespace / package are separate positions.
            let upper = n.chars().any(|c| c.is_ascii_uppercase());
            if (*p == "namespace" || *p == "package") && upper {
                continue;
            }
            let c = Case::inline(format!("name:{n}:{p}"), family, named_world_ex(n, p, false));
            v.push(c);
        }
    }
    v
}

// ---------------------------------------------------------------------------------------------
// type-constructor worlds: every constructor in import/export parameter/result position, as a
// named typedef in an interface and as a world-level typedef.

pub const LEAVES: &[&str] = &[
    "bool", "u8", "s8", "u16", "s16", "u32", "s32", "u64", "s64", "f32", "f64", "char", "string",
];

/// (family id, list of type expressions).  Named aggregate types are declared by `decls`.
pub fn type_families(with_fixed: bool, with_errctx: bool) -> Vec<(String, String, Vec<String>)> {
    let mut fam: Vec<(String, String, Vec<String>)> = Vec::new();
    let leaves: Vec<String> = LEAVES.iter().map(|s| s.to_string()).collect();
    fam.push(("leaf".into(), String::new(), leaves.clone()));
    fam.push((
        "list".into(),
        String::new(),
        leaves
            .iter()
            .map(|l| format!("list<{l}>"))
            .chain(["list<list<string>>".to_string(), "list<list<u8>>".into(), "list<option<u16>>".into(), "list<tuple<u8,u64>>".into()])
            .collect(),
    ));
    fam.push((
        "option".into(),
        String::new(),
        leaves
            .iter()
            .map(|l| format!("option<{l}>"))
            .chain(["option<option<u32>>".to_string(), "option<list<u8>>".into(), "option<result<u8,string>>".into(), "option<tuple<f32,s64>>".into()])
            .collect(),
    ));
    fam.push((
        "result".into(),
        String::new(),
        [
            "result", "result<u32>", "result<_, u32>", "result<u32, u32>", "result<string, string>",
            "result<u8, u64>", "result<f32, s64>", "result<f64, u32>", "result<list<u8>, string>",
            "result<_, string>", "result<option<u8>, result<u8>>", "result<char, bool>",
            "result<u64, f32>", "result<tuple<u8,u8>, tuple<u64>>",
        ]
        .iter()
        .map(|s| s.to_string())
        .collect(),
    ));
    fam.push((
        "tuple".into(),
        String::new(),
        [
            "tuple<u8>", "tuple<u8, u64>", "tuple<u8, u16, u32>", "tuple<string, f32, u8>",
            "tuple<f64, u8, string>", "tuple<list<u8>, option<u8>>", "tuple<tuple<u8,u8>, u64>",
            "tuple<char, bool, s8>", "tuple<s64, f32>",
        ]
        .iter()
        .map(|s| s.to_string())
        .collect(),
    ));
    // named aggregates
    let mut decl = String::new();
    let mut names = Vec::new();
    decl.push_str("  record r1 { a: u8 }\n  record r2 { a: u8, b: u64 }\n  record r3 { a: string, b: f32, c: u8 }\n  record r4 { a: r2, b: list<r3>, c: option<r1> }\n");
    names.extend(["r1", "r2", "r3", "r4"].map(String::from));
    decl.push_str("  variant v1 { a, b }\n  variant v2 { a(u8), b(u64) }\n  variant v3 { a(f32), b(s64), c(string) }\n  variant v4 { a(f64), b(u32), c, d(list<u8>) }\n  variant v5 { a(r2), b(v3) }\n");
    names.extend(["v1", "v2", "v3", "v4", "v5"].map(String::from));
    fam.push(("record-variant".into(), decl, names));

    let mut decl = String::new();
    let mut names = Vec::new();
    for n in [1usize, 2, 256, 257] {
        let cases: Vec<String> = (0..n).map(|i| format!("c{i}")).collect();
        decl.push_str(&format!("  enum en{n} {{ {} }}\n", cases.join(", ")));
        names.push(format!("en{n}"));
    }
    for n in [1usize, 8, 9, 16, 17, 32] {
        let cases: Vec<String> = (0..n).map(|i| format!("b{i}")).collect();
        decl.push_str(&format!("  flags fl{n} {{ {} }}\n", cases.join(", ")));
        names.push(format!("fl{n}"));
    }
    fam.push(("enum-flags".into(), decl, names));

    fam.push((
        "map".into(),
        String::new(),
        [
            "map<u8, u8>", "map<u32, string>", "map<string, u32>", "map<char, list<u8>>",
            "map<string, option<u64>>", "map<string, map<u32, string>>", "list<map<u8, f32>>",
        ]
        .iter()
        .map(|s| s.to_string())
        .collect(),
    ));
    fam.push((
        "future-stream".into(),
        String::new(),
        [
            "future", "future<u8>", "future<string>", "future<list<u8>>", "stream", "stream<u8>",
            "stream<string>", "stream<u64>", "future<result<u8, string>>", "stream<tuple<u8, f32>>",
        ]
        .iter()
        .map(|s| s.to_string())
        .collect(),
    ));
    fam.push((
        "future-stream-nested".into(),
        String::new(),
        [
            "list<future<u8>>", "option<stream<u8>>", "future<future<u8>>", "stream<future<string>>",
            "tuple<future, stream>", "result<stream<u8>, future<u8>>", "future<stream<list<u8>>>",
        ]
        .iter()
        .map(|s| s.to_string())
        .collect(),
    ));
    if with_fixed {
        fam.push((
            "fixed-list".into(),
            String::new(),
            ["list<u8, 1>", "list<u32, 2>", "list<string, 3>", "list<list<u8, 2>, 2>", "option<list<f32, 3>>"]
                .iter()
                .map(|s| s.to_string())
                .collect(),
        ));
    }
    if with_errctx {
        fam.push((
            "error-context".into(),
            String::new(),
            ["error-context", "option<error-context>", "result<u8, error-context>", "list<error-context>"]
                .iter()
                .map(|s| s.to_string())
                .collect(),
        ));
    }
    fam
}

/// Positions: import param+result / export param+result (freestanding in the world and inside an
/// interface), named typedef inside the interface, world-level typedef.
pub fn type_world(fam: &str, decls: &str, tys: &[String]) -> String {
    let mut iface = String::new();
    let mut wimp = String::new();
    let mut wexp = String::new();
    let mut wty = String::new();
    for (i, t) in tys.iter().enumerate() {
        iface.push_str(&format!("  type t{i} = {t};\n  f{i}: func(a: {t}) -> {t};\n  g{i}: func(a: t{i}, b: {t}) -> t{i};\n"));
    }
    // world-level functions can only name world-level/used types: use anonymous forms only
    if decls.is_empty() {
        for (i, t) in tys.iter().enumerate() {
            wty.push_str(&format!("  type w{i} = {t};\n"));
            wimp.push_str(&format!("  import wi{i}: func(a: {t}, b: w{i}) -> {t};\n"));
            wexp.push_str(&format!("  export we{i}: func(a: {t}, b: w{i}) -> {t};\n"));
        }
    } else {
        wty.push_str(&format!(
            "  use tys.{{{}}};\n",
            tys.iter().map(|s| s.as_str()).collect::<Vec<_>>().join(", ")
        ));
        for (i, t) in tys.iter().enumerate() {
            wimp.push_str(&format!("  import wi{i}: func(a: {t}) -> {t};\n"));
            wexp.push_str(&format!("  export we{i}: func(a: {t}) -> {t};\n"));
        }
    }
    format!(
        "package ty:fam{fam};\n\ninterface tys {{\n{decls}{iface}}}\n\nworld w {{\n{wty}  import tys;\n{wimp}  export tys;\n{wexp}}}\n",
        fam = fam.replace('-', "")
    )
}

pub fn type_cases(with_fixed: bool, with_errctx: bool) -> Vec<Case> {
    type_families(with_fixed, with_errctx)
        .into_iter()
        .map(|(fam, decls, tys)| Case::inline(format!("types:{fam}"), "types", type_world(&fam, &decls, &tys)))
        .collect()
}

// ---------------------------------------------------------------------------------------------
// resources (imported / exported, multi-word names), limits (16/17 flat params, ret areas)

pub fn resource_cases() -> Vec<Case> {
    let body = |rn: &str| {
        format!(
            r#"  resource {rn} {{
    constructor(a: u32, b: string);
    get-the-value: func() -> u32;
    set-the-value: func(v: u32);
    take-other: func(other: borrow<{rn}>, owned: {rn}) -> option<{rn}>;
    make-two: static func(a: list<u8>) -> tuple<{rn}, {rn}>;
    merge-all: static func(a: list<{rn}>) -> result<{rn}, string>;
  }}
  record holder {{ h: {rn}, n: u32 }}
  variant choice {{ one({rn}), none }}
  consume: func(h: holder, c: choice) -> list<{rn}>;
  peek: func(b: borrow<{rn}>, l: list<borrow<{rn}>>) -> u32;
"#
        )
    };
    let mut v = Vec::new();
    for rn in ["r", "my-thing", "my-BIG-thing2", "a-b-c-d"] {
        let id = rn.to_lowercase();
        v.push(Case::inline(
            format!("resource:import:{id}"),
            "resource",
            format!("package re:im;\n\ninterface things {{\n{}}}\n\nworld w {{\n  import things;\n}}\n", body(rn)),
        ));
        v.push(Case::inline(
            format!("resource:export:{id}"),
            "resource",
            format!("package re:ex;\n\ninterface things {{\n{}}}\n\nworld w {{\n  export things;\n}}\n", body(rn)),
        ));
        v.push(Case::inline(
            format!("resource:both:{id}"),
            "resource",
            format!("package re:bo;\n\ninterface things {{\n{}}}\n\nworld w {{\n  import things;\n  export things;\n}}\n", body(rn)),
        ));
    }
    // world-level resource, resource used across interfaces, fallible constructor
    v.push(Case::inline(
        "resource:world-level",
        "resource",
        "package re:wl;\n\nworld w {\n  resource my-res {\n    constructor(a: u32);\n    do-it: func() -> string;\n  }\n  import use-it: func(r: borrow<my-res>) -> my-res;\n  export give-it: func(r: my-res) -> u32;\n}\n".into(),
    ));
    v.push(Case::inline(
        "resource:cross-interface",
        "resource",
        "package re:ci;\n\ninterface a-defs {\n  resource my-res {\n    constructor();\n    m: func() -> u32;\n  }\n}\n\ninterface b-users {\n  use a-defs.{my-res};\n  type alias-res = my-res;\n  take: func(r: my-res, b: borrow<alias-res>) -> alias-res;\n}\n\nworld w {\n  import b-users;\n  export b-users;\n}\n".into(),
    ));
    v.push(Case::inline(
        "resource:fallible-ctor",
        "resource",
        "package re:fc;\n\ninterface i {\n  resource my-res {\n    constructor(a: u32) -> result<my-res, string>;\n  }\n}\n\nworld w {\n  import i;\n  export i;\n}\n".into(),
    ));
    v
}

pub fn limit_cases() -> Vec<Case> {
    let mut v = Vec::new();
    for n in [15usize, 16, 17, 18] {
        let params: Vec<String> = (0..n).map(|i| format!("p{i}: u32")).collect();
        let params64: Vec<String> = (0..n).map(|i| format!("p{i}: {}", ["u64", "f32", "f64", "u8"][i % 4])).collect();
        let n2 = n / 2;
        let strs: Vec<String> = (0..n2).map(|i| format!("p{i}: string")).collect();
        v.push(Case::inline(
            format!("limits:params{n}"),
            "limits",
            format!(
                "package li:pa;\n\ninterface i {{\n  f: func({}) -> u32;\n  g: func({});\n  h: func({}) -> string;\n}}\n\nworld w {{\n  import i;\n  export i;\n  import wf: func({});\n  export wg: func({}) -> tuple<u32, u64, string>;\n}}\n",
                params.join(", "), params64.join(", "), strs.join(", "), params.join(", "), params64.join(", ")
            ),
        ));
    }
    v.push(Case::inline(
        "limits:results",
        "limits",
        "package li:re;\n\ninterface i {\n  record big { a: u64, b: string, c: list<u8>, d: f64, e: option<u32>, f: tuple<u8, u16, u32, u64> }\n  r1: func() -> big;\n  r2: func() -> tuple<big, big>;\n  r3: func() -> result<big, string>;\n  r4: func() -> option<list<big>>;\n  r5: func() -> tuple<u8, u8, u8, u8, u8, u8, u8, u8, u8, u8, u8, u8, u8, u8, u8, u8, u8>;\n}\n\nworld w {\n  import i;\n  export i;\n}\n".into(),
    ));
    v.push(Case::inline(
        "limits:empty",
        "limits",
        "package li:em;\n\nworld w {\n}\n".into(),
    ));
    v.push(Case::inline(
        "limits:only-export-func",
        "limits",
        "package li:oe;\n\nworld w {\n  export run: func();\n}\n".into(),
    ));
    v.push(Case::inline(
        "limits:only-import-func",
        "limits",
        "package li:oi;\n\nworld w {\n  import run: func();\n}\n".into(),
    ));
    v.push(Case::inline(
        "limits:async-funcs",
        "limits",
        "package li:af;\n\ninterface i {\n  f: async func(a: u32, b: string) -> string;\n  g: async func();\n  h: func(a: list<u8>) -> u8;\n}\n\nworld w {\n  import i;\n  export i;\n  import wf: async func(a: u64) -> u64;\n  export wg: async func(a: string) -> list<string>;\n}\n".into(),
    ));
    v
}

// ---------------------------------------------------------------------------------------------
// Kebab / case / separator variants that WIT accepts as distinct names.

pub fn kebab_cases() -> Vec<Case> {
    let mut v = Vec::new();
    v.push(Case::inline(
        "kebab:multi-word",
        "kebab",
        "package my-ns:my-pkg-name;\n\ninterface my-iface-name {\n  record my-record-type { my-field-name: u32, my-OTHER-field: string }\n  enum my-enum-type { first-case, second-CASE, third-case3 }\n  variant my-variant-type { first-case(u32), second-CASE(string), a1-b2-c3 }\n  flags my-flags-type { first-flag, second-FLAG }\n  my-func-name: func(my-param-name: my-record-type, my-OTHER-param: my-enum-type) -> my-variant-type;\n  my-f2: func(a-b: my-flags-type) -> my-flags-type;\n}\n\nworld my-world-name {\n  import my-iface-name;\n  export my-iface-name;\n  import my-world-func: func(my-param: u32) -> u32;\n  export my-world-func: func(my-param: u32) -> u32;\n}\n".into(),
    ));
    v.push(Case::inline(
        "kebab:versioned",
        "kebab",
        "package my-ns:my-pkg@1.2.3-rc.1;\n\ninterface my-iface {\n  type t = u32;\n  f: func(a: t) -> t;\n}\n\nworld w {\n  import my-iface;\n  export my-iface;\n}\n".into(),
    ));
    v.push(Case::inline(
        "kebab:digits",
        "kebab",
        "package a1:b2;\n\ninterface i3 {\n  record r4 { f5: u32, f5-a: u32, f-5a: u32 }\n  f6: func(p7: r4, p-7: u32, p7-a: u32) -> r4;\n  f-6: func();\n  f6a: func();\n}\n\nworld w8 {\n  import i3;\n  export i3;\n}\n".into(),
    ));
    v
}

// ---------------------------------------------------------------------------------------------
// Make every function of the resolve `async`-typed (constructors cannot be).  Used by the
// `--async=all` configuration: the pinned wit-component only accepts the `async` canonical
// option on async-typed functions, so the derived world `<case>+async-typed` is the one on which
// `--async=all` can be validated end to end.

pub fn make_async_typed(r: &mut Resolve) -> usize {
    fn conv(f: &mut Function) -> bool {
        let k = match &f.kind {
            FunctionKind::Freestanding => FunctionKind::AsyncFreestanding,
            FunctionKind::Method(t) => FunctionKind::AsyncMethod(*t),
            FunctionKind::Static(t) => FunctionKind::AsyncStatic(*t),
            _ => return false,
        };
        f.kind = k;
        true
    }
    let mut n = 0;
    for (_, i) in r.interfaces.iter_mut() {
        for (_, f) in i.functions.iter_mut() {
            n += conv(f) as usize;
        }
    }
    for (_, w) in r.worlds.iter_mut() {
        for (_, item) in w.imports.iter_mut().chain(w.exports.iter_mut()) {
            if let WorldItem::Function(f) = item {
                n += conv(f) as usize;
            }
        }
    }
    n
}

/// Does the world still contain a function that is not async-typed?
pub fn has_sync_typed_function(r: &Resolve, w: WorldId) -> bool {
    let is_sync = |f: &Function| {
        matches!(
            f.kind,
            FunctionKind::Freestanding | FunctionKind::Method(_) | FunctionKind::Static(_) | FunctionKind::Constructor(_)
        )
    };
    let world = &r.worlds[w];
    world.imports.iter().chain(world.exports.iter()).any(|(_, item)| match item {
        WorldItem::Function(f) => is_sync(f),
        WorldItem::Interface { id, .. } => r.interfaces[*id].functions.values().any(is_sync),
        WorldItem::Type { .. } => false,
    })
}

// ---------------------------------------------------------------------------------------------
// C name alphabet and C mangling-collision worlds (C12)

pub const C_NAMES: &[&str] = &[
    // C keywords (the property's list first)
    "int", "char", "return", "struct", "union", "enum", "typedef", "static", "register", "errno",
    "bool", "true", "false", "void", "default", "switch", "case", "if", "else", "while", "for", "do",
    "goto", "const", "volatile", "extern", "inline", "restrict", "short", "long", "float", "double",
    "signed", "unsigned", "sizeof", "break", "continue", "auto", "typeof", "asm",
    // C++ keywords (-Wc++-compat) and alternative tokens
    "class", "new", "delete", "this", "template", "namespace", "and", "not", "xor",
    // names of things the generated code itself uses
    "ret", "err", "ptr", "len", "val", "tag", "self", "arg", "arg0", "result", "handle", "rep", "i",
    "ret-area", "is-some", "is-err", "ok", "main", "exports", "free", "abort", "malloc", "realloc",
    "memcpy", "strlen", "cabi-realloc", "null", "NULL", "stdin",
    // typedef names from the included headers (after snake-casing)
    "size-t", "uint8-t", "int32-t", "uint32-t", "uint64-t", "char16-t", "wchar-t", "ptrdiff-t",
    "static-assert", "thread-local",
];

pub fn c_collision_cases() -> Vec<Case> {
    let mut v = Vec::new();
    let mut add = |id: &str, wit: &str| v.push(Case::inline(format!("collide:{id}"), "collide", wit.to_string()));
    // two interfaces whose <namespace>_<package>_<interface> prefixes coincide after mangling
    add(
        "pkg-iface-split",
        "package a:b;\n\npackage a:b-foo {\n  interface bar {\n    f: func() -> u32;\n  }\n}\n\ninterface foo-bar {\n  f: func() -> u32;\n}\n\nworld w {\n  import foo-bar;\n  import a:b-foo/bar;\n}\n",
    );
    add(
        "iface-func-split",
        "package a:b;\n\ninterface c {\n  a-b: func() -> u32;\n}\n\ninterface c-a {\n  b: func() -> u32;\n}\n\nworld w {\n  import c;\n  import c-a;\n}\n",
    );
    // a named type whose mangled name equals the name of an anonymous type
    add(
        "named-vs-anon-list",
        "package a:b;\n\nworld w {\n  record list-u8 { a: u32 }\n  import f: func(a: list-u8, b: list<u8>);\n}\n",
    );
    add(
        "named-vs-anon-option",
        "package a:b;\n\nworld w {\n  type option-u32 = u64;\n  import f: func(a: option-u32, b: option<u32>);\n}\n",
    );
    add(
        "named-vs-anon-tuple",
        "package a:b;\n\nworld w {\n  record tuple2-u8-u8 { a: u32 }\n  import f: func(a: tuple2-u8-u8, b: tuple<u8, u8>);\n}\n",
    );
    add(
        "named-vs-builtin-string",
        "package a:b;\n\nworld w {\n  record %string { a: u32 }\n  import f: func(a: %string, b: string);\n}\n",
    );
    add(
        "named-vs-handle",
        "package a:b;\n\ninterface i {\n  resource r;\n  record own-r { a: u32 }\n  f: func(a: own-r, b: r);\n}\n\nworld w {\n  import i;\n}\n",
    );
    // a type named like a function (`foo` -> foo_t, function `foo-t` -> foo_t)
    add(
        "type-vs-func",
        "package a:b;\n\nworld w {\n  record foo { a: u32 }\n  import foo-t: func(a: foo);\n}\n",
    );
    add(
        "type-vs-func-iface",
        "package a:b;\n\ninterface i {\n  record foo { a: u32 }\n  foo-t: func(a: foo);\n  foo-free: func(a: foo);\n}\n\nworld w {\n  import i;\n  export i;\n}\n",
    );
    // enum constants: <TYPE>_<CASE> splits
    add(
        "enum-case-split",
        "package a:b;\n\ninterface i {\n  enum e { a-b, c }\n  enum e-a { b, d }\n  f: func(a: e, b: e-a);\n}\n\nworld w {\n  import i;\n}\n",
    );
    add(
        "flags-vs-enum-const",
        "package a:b;\n\ninterface i {\n  enum e { a, b }\n  variant e-a { x, y }\n  flags e-b { c }\n  f: func(a: e, b: e-a, c: e-b);\n}\n\nworld w {\n  import i;\n}\n",
    );
    // exported world function vs imported interface called `exports`
    add(
        "exports-prefix",
        "package a:b;\n\nworld w {\n  import exports: interface {\n    w-f: func();\n  }\n  export f: func();\n}\n",
    );
    // names differing only by case / separator
    add(
        "case-variants",
        "package a:b;\n\ninterface i {\n  record foo-bar { a: u32 }\n  record foo-BAR { a: u32 }\n  f: func(a: foo-bar, b: foo-BAR);\n}\n\nworld w {\n  import i;\n}\n",
    );
    add(
        "field-case-variants",
        "package a:b;\n\ninterface i {\n  record r { a-b: u32, A-B: u32 }\n  f: func(a: r, a-b: u32, A-B: u32);\n}\n\nworld w {\n  import i;\n}\n",
    );
    add(
        "digit-separator",
        "package a:b;\n\ninterface i {\n  record r { a1: u32, a-1x: u32 }\n  a1: func(a: r);\n  a-b1: func();\n  a-b-1: func();\n}\n\nworld w {\n  import i;\n}\n",
    );
    // method vs freestanding function: [method]r.f -> <ns>_method_r_f
    add(
        "method-vs-func",
        "package a:b;\n\ninterface i {\n  resource r {\n    f: func();\n    g: static func();\n    constructor();\n  }\n  method-r-f: func();\n  static-r-g: func();\n  constructor-r: func();\n  r-drop-own: func();\n}\n\nworld w {\n  import i;\n}\n",
    );
    // world name equal to an interface prefix
    add(
        "world-vs-iface-prefix",
        "package a:b;\n\ninterface i {\n  f: func();\n}\n\nworld a-b-i {\n  import i;\n  import f: func();\n}\n",
    );
    v
}

// ---------------------------------------------------------------------------------------------
// Multi-version worlds: the same interface of one package referenced in two versions (imported;
// in the `+export` variant the second version is also exported).  Each interface has a type and
// a function using it; the second version only *adds* a type and a function (semver-compatible
// versions must agree on what they share: wit-component resolves `@1.0.0` against `@1.0.1`).

pub const VERSION_PAIRS: &[(&str, &str)] = &[
    ("0.1.0", "0.2.0"),
    ("1.0.0", "1.0.1"),
    ("1.0.0-rc.1", "1.0.0-rc.2"),
    ("1.0.0-rc.1", "1.0.0"),
    ("1.0.0+b1", "1.0.0+b2"),
    ("1.0.0-a.1", "1.0.0-a-1"),
];

pub fn multiversion_cases() -> Vec<Case> {
    let mut v = Vec::new();
    for (v1, v2) in VERSION_PAIRS {
        for export in [false, true] {
            let wit = format!(
                "package foo:bar;\n\npackage my:dep@{v1} {{\n  interface a {{\n    record t {{ x: u32 }}\n    f: func(p: t) -> t;\n  }}\n}}\n\npackage my:dep@{v2} {{\n  interface a {{\n    record t {{ x: u32 }}\n    record t2 {{ x: u32, y: string }}\n    f: func(p: t) -> t;\n    g: func(p: t2) -> list<t2>;\n  }}\n}}\n\nworld w {{\n  import my:dep/a@{v1};\n  import my:dep/a@{v2};\n{}}}\n",
                if export { format!("  export my:dep/a@{v2};\n") } else { String::new() }
            );
            v.push(Case::inline(
                format!("multiversion:{v1}|{v2}{}", if export { ":import+export" } else { ":import" }),
                "multiversion",
                wit,
            ));
        }
    }
    v
}
