//! C29 — Markdown docs have valid links and verbatim documentation text.
//!
//! Space: a fixed world template with 32 documentation slots (world, imported / exported interface,
//! every kind of type, fields, cases, flags, resource members, functions, world-level items), types
//! referenced from other types and from signatures, names shared between the two interfaces, types
//! `use`d from another interface plainly and renamed (`use imp.{t as u}`, in an interface and in the
//! world) with the renamed type referenced from parameters, results, record fields and aliases.
//! A case puts one fragment (quick) or two fragments (thorough) from the fragment alphabet into
//! one / two slots, every other slot carries a plain unique sentence; x 2 layouts (fragment alone /
//! between two marker lines) x 2 comment styles (`///`, `/** */`) x 2 world shapes.
//! The real generator runs in both output modes (`w.md`+`w.html`, `--html-in-md`).
//!
//! Oracle (from the statement): (1) no `<a` while an `<a>` is open; (2) every `href="#x"` has an
//! `id="x"`/`name="x"` in the same document; (3a) in the markdown output every doc line appears as a
//! line of its own, unchanged apart from surrounding whitespace (and the `<p>` the generator puts in
//! front of member docs), the lines of one doc in order; (3b) in the HTML output the text content
//! (tags stripped, entities decoded, white space collapsed) contains every doc's text, where for
//! a fragment with markdown meaning both its rendered and its raw text are accepted.

use e7_text::*;
use serde_json::{json, Value};
use std::collections::{BTreeMap, BTreeSet};
use wit_bindgen_core::wit_parser::{Docs, Resolve, TypeDefKind, WorldId, WorldItem};

// ---------------------------------------------------------------------------------------------
// Fragment alphabet
// ---------------------------------------------------------------------------------------------

struct Fragment {
    id: &'static str,
    /// doc lines; `~` is replaced by the slot number so that texts are unique per slot
    lines: &'static [&'static str],
    /// what the HTML *text content* may show for each non-blank line: the markdown-rendered text or the raw
    /// text (member docs follow a literal `<p>` and are therefore raw HTML up to the next blank line)
    html_texts: &'static [&'static [&'static str]],
    /// may be used inside `/** */` (no `/*`, no `*/`)
    block_ok: bool,
}

const FRAGMENTS: &[Fragment] = &[
    Fragment { id: "open-brace", lines: &["{"], html_texts: &[&["{"]], block_ok: true },
    Fragment { id: "close-brace", lines: &["}"], html_texts: &[&["}"]], block_ok: true },
    Fragment { id: "close-brace-at-line-start", lines: &["} tail~"], html_texts: &[&["} tail~"]], block_ok: true },
    Fragment { id: "line-ends-with-open-brace", lines: &["open~ {", "inner~", "}"], html_texts: &[&["open~ {"], &["inner~"], &["}"]], block_ok: true },
    Fragment { id: "slashes", lines: &["// x~"], html_texts: &[&["// x~"]], block_ok: true },
    Fragment { id: "slashes-brace", lines: &["// } x~ {"], html_texts: &[&["// } x~ {"]], block_ok: true },
    Fragment { id: "code-span", lines: &["`code~`"], html_texts: &[&["code~", "`code~`"]], block_ok: true },
    Fragment { id: "html-tag", lines: &["<b>bold~</b>"], html_texts: &[&["bold~"]], block_ok: true },
    Fragment { id: "bare-html-tag", lines: &["<b>"], html_texts: &[&[""]], block_ok: true },
    Fragment { id: "ampersand", lines: &["a~ & b~"], html_texts: &[&["a~ & b~"]], block_ok: true },
    Fragment { id: "less-than", lines: &["a~ < b~"], html_texts: &[&["a~ < b~"]], block_ok: true },
    Fragment { id: "md-link", lines: &["[txt~](u)"], html_texts: &[&["txt~", "[txt~](u)"]], block_ok: true },
    Fragment { id: "md-heading", lines: &["# hd~"], html_texts: &[&["hd~", "# hd~"]], block_ok: true },
    Fragment { id: "blank-line-inside", lines: &["top~", "", "bottom~"], html_texts: &[&["top~"], &["bottom~"]], block_ok: true },
    Fragment { id: "leading-spaces", lines: &["    indented~"], html_texts: &[&["indented~"]], block_ok: true },
    Fragment { id: "code-naming-a-type", lines: &["see `rec-type` x~"], html_texts: &[&["see rec-type x~", "see `rec-type` x~"]], block_ok: true },
    Fragment { id: "link-around-code-naming-a-type", lines: &["[`rec-type`](u) y~"], html_texts: &[&["rec-type y~", "[`rec-type`](u) y~"]], block_ok: true },
    Fragment { id: "code-naming-a-field", lines: &["`rec-type::fld-one` z~"], html_texts: &[&["rec-type::fld-one z~", "`rec-type::fld-one` z~"]], block_ok: true },
    Fragment { id: "ref-full-plain", lines: &["[txt~][lbl~] w~", "", "[lbl~]: https://full.example/p"], html_texts: &[&["txt~ w~", "[txt~][lbl~] w~"], &["", "[lbl~]: https://full.example/p"]], block_ok: true },
    Fragment { id: "ref-collapsed-plain", lines: &["[txt~][] v~", "", "[txt~]: https://collapsed.example/p"], html_texts: &[&["txt~ v~", "[txt~][] v~"], &["", "[txt~]: https://collapsed.example/p"]], block_ok: true },
    Fragment { id: "ref-shortcut-plain", lines: &["[txt~] u~", "", "[txt~]: https://shortcut.example/p"], html_texts: &[&["txt~ u~", "[txt~] u~"], &["", "[txt~]: https://shortcut.example/p"]], block_ok: true },
    Fragment { id: "ref-full-code-type", lines: &["[`rec-type`][lbl~] w~", "", "[lbl~]: https://full.example/p"], html_texts: &[&["rec-type w~", "[`rec-type`][lbl~] w~"], &["", "[lbl~]: https://full.example/p"]], block_ok: true },
    Fragment { id: "ref-collapsed-code-type", lines: &["[`rec-type`][] v~", "", "[`rec-type`]: https://collapsed.example/p"], html_texts: &[&["rec-type v~", "[`rec-type`][] v~"], &["", "[`rec-type`]: https://collapsed.example/p"]], block_ok: true },
    Fragment { id: "ref-shortcut-code-type", lines: &["[`rec-type`] u~", "", "[`rec-type`]: https://shortcut.example/p"], html_texts: &[&["rec-type u~", "[`rec-type`] u~"], &["", "[`rec-type`]: https://shortcut.example/p"]], block_ok: true },
    Fragment { id: "ref-full-code-field", lines: &["[`rec-type::fld-one`][lbl~] w~", "", "[lbl~]: https://full.example/p"], html_texts: &[&["rec-type::fld-one w~", "[`rec-type::fld-one`][lbl~] w~"], &["", "[lbl~]: https://full.example/p"]], block_ok: true },
    Fragment { id: "ref-collapsed-code-field", lines: &["[`rec-type::fld-one`][] v~", "", "[`rec-type::fld-one`]: https://collapsed.example/p"], html_texts: &[&["rec-type::fld-one v~", "[`rec-type::fld-one`][] v~"], &["", "[`rec-type::fld-one`]: https://collapsed.example/p"]], block_ok: true },
    Fragment { id: "ref-shortcut-code-field", lines: &["[`rec-type::fld-one`] u~", "", "[`rec-type::fld-one`]: https://shortcut.example/p"], html_texts: &[&["rec-type::fld-one u~", "[`rec-type::fld-one`] u~"], &["", "[`rec-type::fld-one`]: https://shortcut.example/p"]], block_ok: true },
    Fragment { id: "ref-full-code-func", lines: &["[`do-it`][lbl~] w~", "", "[lbl~]: https://full.example/p"], html_texts: &[&["do-it w~", "[`do-it`][lbl~] w~"], &["", "[lbl~]: https://full.example/p"]], block_ok: true },
    Fragment { id: "ref-collapsed-code-func", lines: &["[`do-it`][] v~", "", "[`do-it`]: https://collapsed.example/p"], html_texts: &[&["do-it v~", "[`do-it`][] v~"], &["", "[`do-it`]: https://collapsed.example/p"]], block_ok: true },
    Fragment { id: "ref-shortcut-code-func", lines: &["[`do-it`] u~", "", "[`do-it`]: https://shortcut.example/p"], html_texts: &[&["do-it u~", "[`do-it`] u~"], &["", "[`do-it`]: https://shortcut.example/p"]], block_ok: true },
    Fragment { id: "ref-full-code-iface", lines: &["[`a:b/imp`][lbl~] w~", "", "[lbl~]: https://full.example/p"], html_texts: &[&["a:b/imp w~", "[`a:b/imp`][lbl~] w~"], &["", "[lbl~]: https://full.example/p"]], block_ok: true },
    Fragment { id: "ref-collapsed-code-iface", lines: &["[`a:b/imp`][] v~", "", "[`a:b/imp`]: https://collapsed.example/p"], html_texts: &[&["a:b/imp v~", "[`a:b/imp`][] v~"], &["", "[`a:b/imp`]: https://collapsed.example/p"]], block_ok: true },
    Fragment { id: "ref-shortcut-code-iface", lines: &["[`a:b/imp`] u~", "", "[`a:b/imp`]: https://shortcut.example/p"], html_texts: &[&["a:b/imp u~", "[`a:b/imp`] u~"], &["", "[`a:b/imp`]: https://shortcut.example/p"]], block_ok: true },
    Fragment { id: "autolink", lines: &["<https://x~.example/p> q~"], html_texts: &[&["https://x~.example/p q~", "q~"]], block_ok: true },
    Fragment { id: "block-comment-markers", lines: &["/* c~ * /"], html_texts: &[&["/* c~ * /"]], block_ok: false },
];

// ---------------------------------------------------------------------------------------------
// World templates; `@@name@@` marks a documentation slot
// ---------------------------------------------------------------------------------------------

const IFACE_IMP: &str = r#"@@iface-import@@
interface imp {
  @@record@@
  record rec-type {
    @@record-field@@
    fld-one: u32,
    @@record-field-2@@
    fld-two: shared,
  }
  @@alias@@
  type shared = u32;
  @@variant@@
  variant var-type {
    @@variant-case@@
    case-one(rec-type),
    @@variant-case-2@@
    case-two,
  }
  @@enum@@
  enum enum-type {
    @@enum-case@@
    en-one,
    en-two,
  }
  @@flags@@
  flags flags-type {
    @@flag@@
    fl-one,
    fl-two,
  }
  @@option-type@@
  type opt-type = option<rec-type>;
  @@result-type@@
  type res-type = result<var-type, enum-type>;
  @@tuple-type@@
  type tup-type = tuple<rec-type, u32>;
  @@list-type@@
  type list-type = list<rec-type>;
  @@resource@@
  resource res-handle {
    @@constructor@@
    constructor(a: rec-type);
    @@method@@
    meth: func(a: borrow<res-handle>, b: tup-type) -> var-type;
    @@static@@
    make: static func() -> res-handle;
  }
  @@func@@
  do-it: func(a: rec-type, b: opt-type, c: list<flags-type>, d: list-type) -> res-type;
}
"#;

const IFACE_EXP: &str = r#"@@iface-export@@
interface exp {
  use imp.{rec-type, var-type as renamed-var};
  @@export-alias@@
  type shared = string;
  @@export-alias-of-renamed@@
  type again = renamed-var;
  @@export-record@@
  record other-rec {
    @@export-record-field@@
    a: rec-type,
    b: shared,
    c: renamed-var,
    d: again,
  }
  @@export-func@@
  do-it: func(a: other-rec, v: renamed-var) -> tuple<rec-type, shared, renamed-var>;
}
"#;

const WORLD_A: &str = r#"@@world@@
world w {
  import imp;
  export exp;
  use imp.{rec-type, var-type, enum-type as world-enum};
  @@world-type@@
  record world-rec {
    @@world-type-field@@
    x: rec-type,
    y: world-enum,
  }
  @@world-alias-of-renamed@@
  type world-again = world-enum;
  @@world-func-import@@
  import wfunc: func(a: world-rec, e: world-enum) -> var-type;
  @@world-func-export@@
  export wexp: func(a: rec-type, g: world-again) -> world-enum;
}
"#;

/// shape B: the same interface imported and exported, an inline exported interface
const WORLD_B: &str = r#"@@world@@
world w {
  import imp;
  export imp;
  export exp;
  use imp.{flags-type as world-flags};
  @@world-func-import@@
  import wfunc: func(a: world-flags) -> world-flags;
}
"#;

fn template(shape: usize) -> String {
    let world = if shape == 0 { WORLD_A } else { WORLD_B };
    format!("package a:b;\n\n{IFACE_IMP}\n{IFACE_EXP}\n{world}")
}

fn slots(shape: usize) -> Vec<String> {
    let t = template(shape);
    let mut out = Vec::new();
    let mut rest = &t[..];
    while let Some(i) = rest.find("@@") {
        let r2 = &rest[i + 2..];
        let j = r2.find("@@").unwrap();
        out.push(r2[..j].to_string());
        rest = &r2[j + 2..];
    }
    out
}

#[derive(Clone, Debug)]
struct CaseSpec {
    shape: usize,
    style: usize,  // 0 = `///`, 1 = `/** */`
    layout: usize, // 0 = fragment alone, 1 = between marker lines
    /// (slot index, fragment index)
    placed: Vec<(usize, usize)>,
}

fn doc_lines_for(slot_idx: usize, slot: &str, spec: &CaseSpec) -> Vec<String> {
    let frags: Vec<usize> = spec
        .placed
        .iter()
        .filter(|(s, _)| *s == slot_idx)
        .map(|(_, f)| *f)
        .collect();
    if frags.is_empty() {
        return vec![format!("plain words about {slot} number {slot_idx}")];
    }
    let mut lines = Vec::new();
    if spec.layout == 1 {
        lines.push(format!("before{slot_idx}"));
    }
    for f in frags {
        for l in FRAGMENTS[f].lines {
            lines.push(l.replace('~', &slot_idx.to_string()));
        }
    }
    if spec.layout == 1 {
        lines.push(format!("after{slot_idx}"));
    }
    lines
}

fn build_wit(spec: &CaseSpec) -> String {
    let t = template(spec.shape);
    let names = slots(spec.shape);
    let mut out = String::new();
    let mut slot_idx = 0usize;
    for line in t.lines() {
        let trimmed = line.trim();
        if trimmed.starts_with("@@") && trimmed.ends_with("@@") {
            let indent = &line[..line.len() - line.trim_start().len()];
            let lines = doc_lines_for(slot_idx, &names[slot_idx], spec);
            if spec.style == 0 {
                for l in &lines {
                    if l.is_empty() {
                        out += &format!("{indent}///\n");
                    } else {
                        out += &format!("{indent}/// {l}\n");
                    }
                }
            } else {
                out += &format!("{indent}/**\n");
                for l in &lines {
                    out += &format!("{indent}{l}\n");
                }
                out += &format!("{indent}*/\n");
            }
            slot_idx += 1;
        } else {
            out += line;
            out.push('\n');
        }
    }
    out
}

// ---------------------------------------------------------------------------------------------
// Reference: which documentation comments does the world have?
// ---------------------------------------------------------------------------------------------

#[derive(Debug, Clone)]
struct DocUse {
    /// structural position, independent of the template's slot names
    position: String,
    text: String,
}

fn collect_docs(resolve: &Resolve, world: WorldId) -> Vec<DocUse> {
    let mut out = Vec::new();
    let mut push = |position: String, d: &Docs| {
        if let Some(c) = &d.contents {
            if !c.trim().is_empty() {
                out.push(DocUse {
                    position,
                    text: c.clone(),
                });
            }
        }
    };
    let w = &resolve.worlds[world];
    push("world".into(), &w.docs);
    let type_docs = |push: &mut dyn FnMut(String, &Docs), id, ctx: &str| {
        let td = &resolve.types[id];
        let kind = match &td.kind {
            TypeDefKind::Record(_) => "record",
            TypeDefKind::Variant(_) => "variant",
            TypeDefKind::Enum(_) => "enum",
            TypeDefKind::Flags(_) => "flags",
            TypeDefKind::Resource => "resource",
            TypeDefKind::Option(_) => "option-type",
            TypeDefKind::Result(_) => "result-type",
            TypeDefKind::Tuple(_) => "tuple-type",
            TypeDefKind::List(_) => "list-type",
            TypeDefKind::Type(_) => "alias",
            _ => "other-type",
        };
        push(format!("{ctx}:{kind}"), &td.docs);
        match &td.kind {
            TypeDefKind::Record(r) => {
                for f in &r.fields {
                    push(format!("{ctx}:record-field"), &f.docs);
                }
            }
            TypeDefKind::Variant(v) => {
                for c in &v.cases {
                    push(format!("{ctx}:variant-case"), &c.docs);
                }
            }
            TypeDefKind::Enum(e) => {
                for c in &e.cases {
                    push(format!("{ctx}:enum-case"), &c.docs);
                }
            }
            TypeDefKind::Flags(f) => {
                for c in &f.flags {
                    push(format!("{ctx}:flag"), &c.docs);
                }
            }
            _ => {}
        }
    };
    for (dir, items) in [("import", &w.imports), ("export", &w.exports)] {
        for (_key, item) in items.iter() {
            match item {
                WorldItem::Interface { id, .. } => {
                    let iface = &resolve.interfaces[*id];
                    push(format!("{dir}:interface"), &iface.docs);
                    for (_, ty) in iface.types.iter() {
                        type_docs(&mut push, *ty, &format!("{dir}:interface"));
                    }
                    for (_, f) in iface.functions.iter() {
                        push(format!("{dir}:interface:func"), &f.docs);
                    }
                }
                WorldItem::Function(f) => push(format!("{dir}:world-func"), &f.docs),
                WorldItem::Type { id, .. } => type_docs(&mut push, *id, &format!("{dir}:world")),
            }
        }
    }
    out
}

// ---------------------------------------------------------------------------------------------
// HTML scanning
// ---------------------------------------------------------------------------------------------

#[derive(Debug)]
enum Tok {
    Open { name: String, attrs: Vec<(String, String)> },
    Close { name: String },
    Text(String),
}

fn unescape(s: &str) -> String {
    let mut out = String::new();
    let mut rest = s;
    while let Some(i) = rest.find('&') {
        out.push_str(&rest[..i]);
        let tail = &rest[i..];
        let end = tail.find(';').filter(|e| *e <= 10);
        let mut done = false;
        if let Some(e) = end {
            let ent = &tail[1..e];
            let rep = match ent {
                "amp" => Some('&'),
                "lt" => Some('<'),
                "gt" => Some('>'),
                "quot" => Some('"'),
                "apos" => Some('\''),
                _ => {
                    if let Some(h) = ent.strip_prefix("#x").or_else(|| ent.strip_prefix("#X")) {
                        u32::from_str_radix(h, 16).ok().and_then(char::from_u32)
                    } else if let Some(d) = ent.strip_prefix('#') {
                        d.parse::<u32>().ok().and_then(char::from_u32)
                    } else {
                        None
                    }
                }
            };
            if let Some(c) = rep {
                out.push(c);
                rest = &tail[e + 1..];
                done = true;
            }
        }
        if !done {
            out.push('&');
            rest = &tail[1..];
        }
    }
    out.push_str(rest);
    out
}

fn scan_html(s: &str) -> Vec<Tok> {
    let b = s.as_bytes();
    let mut toks = Vec::new();
    let mut i = 0;
    let mut text_start = 0;
    let flush = |toks: &mut Vec<Tok>, from: usize, to: usize| {
        if to > from {
            toks.push(Tok::Text(unescape(&s[from..to])));
        }
    };
    while i < b.len() {
        if b[i] != b'<' {
            i += 1;
            continue;
        }
        if s[i..].starts_with("<!--") {
            flush(&mut toks, text_start, i);
            i = s[i..].find("-->").map(|e| i + e + 3).unwrap_or(b.len());
            text_start = i;
            continue;
        }
        let closing = i + 1 < b.len() && b[i + 1] == b'/';
        let ns = if closing { i + 2 } else { i + 1 };
        if ns >= b.len() || !b[ns].is_ascii_alphabetic() {
            // `<` that does not start a tag is text (HTML tokenizer rule)
            i += 1;
            continue;
        }
        flush(&mut toks, text_start, i);
        let mut j = ns;
        while j < b.len() && (b[j].is_ascii_alphanumeric() || b[j] == b'-') {
            j += 1;
        }
        let name = s[ns..j].to_ascii_lowercase();
        let mut attrs = Vec::new();
        // attributes
        loop {
            while j < b.len() && (b[j].is_ascii_whitespace() || b[j] == b'/') {
                j += 1;
            }
            if j >= b.len() || b[j] == b'>' {
                break;
            }
            let as_ = j;
            while j < b.len() && !b[j].is_ascii_whitespace() && b[j] != b'=' && b[j] != b'>' && b[j] != b'/' {
                j += 1;
            }
            let an = s[as_..j].to_ascii_lowercase();
            let mut val = String::new();
            while j < b.len() && b[j].is_ascii_whitespace() {
                j += 1;
            }
            if j < b.len() && b[j] == b'=' {
                j += 1;
                while j < b.len() && b[j].is_ascii_whitespace() {
                    j += 1;
                }
                if j < b.len() && (b[j] == b'"' || b[j] == b'\'') {
                    let q = b[j];
                    let vs = j + 1;
                    j = vs;
                    while j < b.len() && b[j] != q {
                        j += 1;
                    }
                    val = unescape(&s[vs..j.min(b.len())]);
                    j = (j + 1).min(b.len());
                } else {
                    let vs = j;
                    while j < b.len() && !b[j].is_ascii_whitespace() && b[j] != b'>' {
                        j += 1;
                    }
                    val = unescape(&s[vs..j]);
                }
            }
            if an.is_empty() {
                j += 1;
            } else {
                attrs.push((an, val));
            }
        }
        if j < b.len() {
            j += 1; // '>'
        }
        if closing {
            toks.push(Tok::Close { name });
        } else {
            toks.push(Tok::Open { name, attrs });
        }
        i = j;
        text_start = j;
    }
    flush(&mut toks, text_start, b.len());
    toks
}

fn collapse_ws(s: &str) -> String {
    s.split_whitespace().collect::<Vec<_>>().join(" ")
}

struct HtmlFacts {
    nested: Vec<String>,
    dangling: Vec<String>,
    links: usize,
    anchors: usize,
    text: String,
}

fn html_facts(html: &str) -> HtmlFacts {
    let toks = scan_html(html);
    let mut open_a: Vec<String> = Vec::new();
    let mut nested = Vec::new();
    let mut ids = BTreeSet::new();
    let mut hrefs = Vec::new();
    let mut text = String::new();
    let mut links = 0;
    for t in &toks {
        match t {
            Tok::Open { name, attrs } => {
                for (k, v) in attrs {
                    if k == "id" || (k == "name" && name == "a") {
                        ids.insert(v.clone());
                    }
                }
                if name == "a" {
                    let desc = attrs
                        .iter()
                        .map(|(k, v)| format!("{k}={v}"))
                        .collect::<Vec<_>>()
                        .join(" ");
                    if let Some(outer) = open_a.last() {
                        nested.push(format!("<a {desc}> inside <a {outer}>"));
                    }
                    if let Some((_, h)) = attrs.iter().find(|(k, _)| k == "href") {
                        links += 1;
                        if let Some(frag) = h.strip_prefix('#') {
                            hrefs.push(frag.to_string());
                        }
                    }
                    open_a.push(desc);
                }
                text.push(' ');
            }
            Tok::Close { name } => {
                if name == "a" {
                    open_a.pop();
                }
                // inline closers do not separate words; block closers do
                if !matches!(name.as_str(), "a" | "code" | "b" | "em" | "strong") {
                    text.push(' ');
                }
            }
            Tok::Text(t) => text.push_str(t),
        }
    }
    let dangling = hrefs
        .iter()
        .filter(|h| !ids.contains(*h))
        .cloned()
        .collect::<BTreeSet<_>>()
        .into_iter()
        .collect();
    HtmlFacts {
        nested,
        dangling,
        links,
        anchors: ids.len(),
        text: collapse_ws(&text),
    }
}

// ---------------------------------------------------------------------------------------------
// The check for one world
// ---------------------------------------------------------------------------------------------

#[derive(Default)]
struct Findings {
    /// (key, what)
    items: Vec<(String, String)>,
    docs_checked: usize,
    links: usize,
    anchors: usize,
    generator: String,
}

/// 3a: the lines of `doc` appear in `md` as consecutive lines, the first one possibly behind `<p>`.
fn md_occurrences(md_lines: &[&str], doc: &str) -> usize {
    let dl: Vec<&str> = doc.lines().map(|l| l.trim()).collect();
    // leading/trailing blank lines are "surrounding whitespace"
    let first = dl.iter().position(|l| !l.is_empty());
    let last = dl.iter().rposition(|l| !l.is_empty());
    let (Some(first), Some(last)) = (first, last) else {
        return usize::MAX;
    };
    let dl = &dl[first..=last];
    let mut n = 0;
    for i in 0..md_lines.len() {
        if i + dl.len() > md_lines.len() {
            break;
        }
        let l0 = md_lines[i].trim();
        let l0 = l0.strip_prefix("<p>").map(|s| s.trim_start()).filter(|s| *s == dl[0]).unwrap_or(l0);
        if l0 != dl[0] {
            continue;
        }
        if (1..dl.len()).all(|k| md_lines[i + k].trim() == dl[k]) {
            n += 1;
        }
    }
    n
}

/// acceptable HTML text renderings of one doc line (white space collapsed)
fn html_alternatives(line: &str) -> Vec<String> {
    let l = collapse_ws(line);
    // find the fragment line this came from (by pattern with the slot number abstracted)
    for f in FRAGMENTS {
        for (k, fl) in f.lines.iter().filter(|l| !l.is_empty()).enumerate() {
            // match `fl` with '~' standing for a decimal number
            if let Some(num) = match_template(fl.trim(), &l) {
                return f.html_texts[k]
                    .iter()
                    .map(|t| collapse_ws(&t.replace('~', &num)))
                    .collect();
            }
        }
    }
    vec![l]
}

/// If `s` equals `tmpl` with every `~` replaced by one and the same decimal number, return it.
fn match_template(tmpl: &str, s: &str) -> Option<String> {
    if !tmpl.contains('~') {
        return (tmpl == s).then(String::new);
    }
    let first = tmpl.find('~').unwrap();
    if !s.starts_with(&tmpl[..first]) {
        return None;
    }
    let digits: String = s[first..].chars().take_while(|c| c.is_ascii_digit()).collect();
    if digits.is_empty() {
        return None;
    }
    (tmpl.replace('~', &digits) == s).then_some(digits)
}

fn check_world(wit: &str, findings: &mut Findings) {
    let input = Input::Texts(vec![("c29.wit".into(), wit.to_string())]);
    let (mut resolve, world) = match parse(&input, Some("w")) {
        Ok(x) => x,
        Err(e) => vcommon::machinery(&format!("C29 template is not valid WIT: {e}\n{wit}")),
    };
    let docs = collect_docs(&resolve, world);
    findings.docs_checked += docs.len();

    let mut outputs: Vec<(&str, String)> = Vec::new(); // (kind, html)
    let mut md_raw = None;
    for html_in_md in [false, true] {
        let g = generate_resolved(&mut resolve, world, &Backend::Markdown { html_in_md });
        match g {
            Gen::Ok(files) => {
                let get = |n: &str| files.get(n).map(|b| String::from_utf8_lossy(b).into_owned());
                if html_in_md {
                    match get("w.md") {
                        Some(h) => outputs.push(("html-in-md", h)),
                        None => findings.items.push(("output:html-in-md:w.md-missing".into(), "w.md not generated".into())),
                    }
                } else {
                    md_raw = get("w.md");
                    match get("w.html") {
                        Some(h) => outputs.push(("html", h)),
                        None => findings.items.push(("output:w.html-missing".into(), "w.html not generated".into())),
                    }
                }
            }
            other => {
                findings.generator = other.class().to_string();
                // a panic / Err is C16's business; nothing to scan
                return;
            }
        }
    }
    findings.generator = "ok".into();

    // 3a on the markdown file
    let mut missing_positions: BTreeSet<String> = BTreeSet::new();
    if let Some(md) = &md_raw {
        let md_lines: Vec<&str> = md.lines().collect();
        let mut mult: BTreeMap<&str, (usize, &str)> = BTreeMap::new();
        for d in docs.iter().filter(|d| d.position != "export:interface") {
            let e = mult.entry(d.text.as_str()).or_insert((0, d.position.as_str()));
            e.0 += 1;
        }
        // The docs of an exported interface: one more occurrence than the other comments with
        // the same text account for -- unless the same interface is also imported, in which case
        // the imported copy carries the very same comment. One key for this position, whatever
        // the text: the generator either writes this comment or it does not.
        let import_iface_texts: BTreeSet<&str> = docs
            .iter()
            .filter(|d| d.position == "import:interface")
            .map(|d| d.text.as_str())
            .collect();
        for d in docs.iter().filter(|d| d.position == "export:interface") {
            if import_iface_texts.contains(d.text.as_str()) {
                continue;
            }
            let others = mult.get(d.text.as_str()).map(|x| x.0).unwrap_or(0);
            let got = md_occurrences(&md_lines, &d.text);
            if got < others + 1 {
                findings.items.push((
                    "doc-missing:export:interface".to_string(),
                    format!("documentation comment of an exported interface {:?} does not appear in w.md (found {got} occurrence(s), {others} of them owed to other comments with the same text)", d.text),
                ));
                missing_positions.insert(d.position.clone());
            }
        }
        for (text, (want, position)) in mult {
            let got = md_occurrences(&md_lines, text);
            if got == 0 {
                // "missing": not a single line of the comment is a line of the output
                let any_line = text.lines().map(|l| l.trim()).filter(|l| !l.is_empty()).any(|l| {
                    md_lines.iter().any(|m| {
                        let m = m.trim();
                        m == l || m.strip_prefix("<p>").map(|x| x.trim_start()) == Some(l)
                    })
                });
                if !any_line {
                    findings.items.push((
                        format!("doc-missing:{position}"),
                        format!("documentation comment at {position} {:?} is not in the output at all (w.md)", text),
                    ));
                    missing_positions.insert(position.to_string());
                } else {
                    findings.items.push((
                        format!("doc-text:md:{position}:{}", classify_doc(text)),
                        format!("documentation comment at {position} {:?} does not appear (lines unchanged, in order) in w.md", text),
                    ));
                }
            } else if got < want {
                findings.items.push((
                    format!("doc-text:md:{position}:{}:multiplicity", classify_doc(text)),
                    format!("documentation comment {:?} is used {want} times but appears {got} times in w.md", text),
                ));
            }
        }
    } else {
        findings.items.push(("output:w.md-missing".into(), "w.md not generated".into()));
    }

    for (kind, html) in &outputs {
        let facts = html_facts(html);
        findings.links += facts.links;
        findings.anchors += facts.anchors;
        for n in &facts.nested {
            findings.items.push((
                format!("nested-link:{kind}:{}", abstract_digits(n)),
                format!("{kind}: {n}"),
            ));
        }
        for d in &facts.dangling {
            findings.items.push((
                format!("dangling-href:{kind}:#{d}"),
                format!("{kind}: href=\"#{d}\" has no id=\"{d}\" in the document"),
            ));
        }
        // 3b
        for d in &docs {
            if missing_positions.contains(&d.position) {
                continue; // already reported once as doc-missing
            }
            let mut pos = 0usize;
            let mut ok = true;
            let mut missing = String::new();
            for line in d.text.lines().map(|l| l.trim()).filter(|l| !l.is_empty()) {
                let alts = html_alternatives(line);
                let found = alts
                    .iter()
                    .filter_map(|a| {
                        if a.is_empty() {
                            Some(pos)
                        } else {
                            facts.text[pos..].find(a.as_str()).map(|i| pos + i + a.len())
                        }
                    })
                    .min();
                match found {
                    Some(p) => pos = p,
                    None => {
                        // order within the document is not demanded for repeated texts: retry from the start
                        if alts.iter().any(|a| facts.text.contains(a.as_str())) {
                            continue;
                        }
                        ok = false;
                        missing = line.to_string();
                        break;
                    }
                }
            }
            if !ok {
                findings.items.push((
                    format!("doc-text:{kind}:{}:{}", d.position, classify_doc(&d.text)),
                    format!("{kind}: text of doc line {missing:?} (comment at {}) not found in the document's text content", d.position),
                ));
            }
        }
    }
    if outputs.len() == 2 && outputs[0].1 != outputs[1].1 {
        // not demanded by the statement; both were scanned separately above
    }
}

fn abstract_digits(s: &str) -> String {
    let mut out = String::new();
    for c in s.chars() {
        if c.is_ascii_digit() {
            if !out.ends_with('N') {
                out.push('N');
            }
        } else {
            out.push(c);
        }
    }
    out
}

/// fragment id(s) of a doc text (for stable keys), or "plain"
fn classify_doc(text: &str) -> String {
    let mut ids = Vec::new();
    for line in text.lines().map(|l| collapse_ws(l)).filter(|l| !l.is_empty()) {
        for f in FRAGMENTS {
            if f.lines.iter().filter(|l| !l.is_empty()).next().map(|fl| match_template(&collapse_ws(fl), &line).is_some()) == Some(true)
                && !ids.contains(&f.id)
            {
                ids.push(f.id);
            }
        }
    }
    if ids.is_empty() {
        "plain".into()
    } else {
        ids.join("+")
    }
}

fn spec_to_json(s: &CaseSpec) -> Value {
    json!({"shape": s.shape, "style": s.style, "layout": s.layout, "placed": s.placed})
}

fn describe(s: &CaseSpec) -> String {
    let names = slots(s.shape);
    let placed = s
        .placed
        .iter()
        .map(|(sl, f)| format!("{}@{}", FRAGMENTS[*f].id, names[*sl]))
        .collect::<Vec<_>>()
        .join(" + ");
    format!(
        "shape{} {} {} {}",
        s.shape,
        if s.style == 0 { "///" } else { "/** */" },
        if s.layout == 0 { "alone" } else { "between-markers" },
        placed
    )
}

fn main() {
    let mut run = vcommon::Run::from_args("C29", "exploration");
    vcommon::install_quiet_panic_hook();
    tune_malloc();

    if let Some(d) = run.replay_detail() {
        let wit = d["wit"].as_str().unwrap_or_else(|| vcommon::machinery("replay: no wit"));
        println!("{wit}");
        let mut f = Findings::default();
        check_world(wit, &mut f);
        println!("generator: {}", f.generator);
        for (k, w) in &f.items {
            println!("FAILS {k}: {w}");
        }
        let want = d["key"].as_str().unwrap_or("");
        let still = f.items.iter().any(|(k, _)| want.is_empty() || k == want);
        println!("replay: {}", if still { "STILL FAILS" } else { "does not fail" });
        std::process::exit(if still { 1 } else { 0 });
    }

    // vacuity guard: every slot of the template must reach the generator as a documentation comment
    for shape in 0..2usize {
        for style in 0..2usize {
            let spec = CaseSpec { shape, style, layout: 0, placed: vec![] };
            let wit = build_wit(&spec);
            let input = Input::Texts(vec![("c29.wit".into(), wit.clone())]);
            let (resolve, world) = parse(&input, Some("w"))
                .unwrap_or_else(|e| vcommon::machinery(&format!("C29 template is not valid WIT: {e}\n{wit}")));
            let texts: BTreeSet<String> = collect_docs(&resolve, world).into_iter().map(|d| d.text.trim().to_string()).collect();
            let want = slots(shape).len();
            if texts.len() != want {
                vcommon::machinery(&format!(
                    "C29 template shape {shape} style {style}: {want} slots but {} distinct documentation comments reach the generator",
                    texts.len()
                ));
            }
        }
    }

    // enumerate
    let thorough = run.thorough();
    let mut specs: Vec<CaseSpec> = Vec::new();
    for shape in 0..2usize {
        let nslots = slots(shape).len();
        for style in 0..2usize {
            for layout in 0..2usize {
                let frag_ok = |f: usize| style == 0 || FRAGMENTS[f].block_ok;
                // no fragment at all (baseline: links of the plain template)
                specs.push(CaseSpec { shape, style, layout, placed: vec![] });
                for s in 0..nslots {
                    for f in (0..FRAGMENTS.len()).filter(|f| frag_ok(*f)) {
                        specs.push(CaseSpec { shape, style, layout, placed: vec![(s, f)] });
                    }
                }
                if thorough && style == 0 && shape == 0 && layout == 0 {
                    // pairs (`///` style, world shape 0, fragments alone in their comment): two fragments in one slot (both orders) and two fragments in two slots
                    for s1 in 0..nslots {
                        for f1 in (0..FRAGMENTS.len()).filter(|f| frag_ok(*f)) {
                            for s2 in s1..nslots {
                                for f2 in (0..FRAGMENTS.len()).filter(|f| frag_ok(*f)) {
                                    if s1 == s2 && f1 == f2 {
                                        continue;
                                    }
                                    specs.push(CaseSpec { shape, style, layout, placed: vec![(s1, f1), (s2, f2)] });
                                }
                            }
                        }
                    }
                }
            }
        }
    }
    rotate(&mut specs, run.seed);
    let n = specs.len();
    let workers = vcommon::ncpu().min(16);
    let chunk = 64usize;
    let nchunks = (n + chunk - 1) / chunk;
    let results = vcommon::par_map(nchunks, workers, |c| {
        let mut items: Vec<Value> = Vec::new();
        let mut docs = 0usize;
        let mut links = 0usize;
        let mut anchors = 0usize;
        let mut gen: BTreeMap<String, usize> = BTreeMap::new();
        let mut seen = BTreeSet::new();
        for i in c * chunk..((c + 1) * chunk).min(n) {
            let wit = build_wit(&specs[i]);
            let mut f = Findings::default();
            check_world(&wit, &mut f);
            docs += f.docs_checked;
            links += f.links;
            anchors += f.anchors;
            *gen.entry(f.generator.clone()).or_insert(0) += 1;
            for (k, w) in f.items {
                if seen.insert(k.clone()) {
                    items.push(json!({"key": k, "what": w, "spec": i}));
                }
            }
        }
        json!({"items": items, "docs": docs, "links": links, "anchors": anchors, "gen": gen})
    });

    let mut docs = 0u64;
    let mut links = 0u64;
    let mut anchors = 0u64;
    let mut gen: BTreeMap<String, u64> = BTreeMap::new();
    for r in &results {
        docs += r["docs"].as_u64().unwrap_or(0);
        links += r["links"].as_u64().unwrap_or(0);
        anchors += r["anchors"].as_u64().unwrap_or(0);
        for (k, v) in r["gen"].as_object().unwrap() {
            *gen.entry(k.clone()).or_insert(0) += v.as_u64().unwrap_or(0);
        }
        for it in r["items"].as_array().unwrap() {
            let i = it["spec"].as_u64().unwrap() as usize;
            let key = it["key"].as_str().unwrap();
            let wit = build_wit(&specs[i]);
            run.violation(
                key,
                &format!("{} [{}]", it["what"].as_str().unwrap_or(""), describe(&specs[i])),
                json!({"wit": wit, "key": key, "spec": spec_to_json(&specs[i]), "case": describe(&specs[i])}),
            );
        }
    }
    if gen.get("ok").copied().unwrap_or(0) == 0 {
        vcommon::machinery("the markdown generator produced no output for any world");
    }
    for (k, v) in &gen {
        if k != "ok" {
            println!("NOTE (C16, not a C29 verdict): generator outcome {k} on {v} worlds");
        }
    }
    // distinct fragment placements (one fragment in a slot, or an unordered pair of placements;
    // two fragments in one slot count per order) whose world was generated and scanned
    let mut distinct = BTreeSet::new();
    for s in &specs {
        if !s.placed.is_empty() {
            let mut p = s.placed.clone();
            if p.len() == 2 && p[0].0 != p[1].0 {
                p.sort();
            }
            distinct.insert((s.shape, s.style, s.layout, p));
        }
    }
    let mut samples = Vec::new();
    for i in [0usize, 1, n / 3, n / 2, n - 1] {
        if i < n {
            samples.push(json!({"case": describe(&specs[i]), "wit_head": build_wit(&specs[i]).lines().take(12).collect::<Vec<_>>().join("\n")}));
        }
    }
    let coverage = json!({
        "evaluations": n,
        "distinct_nontrivial": distinct.len(),
        "rule": "distinct (world shape, comment style, layout, set of (slot, fragment) placements) whose world was generated in both output modes and scanned; the fragment-free baseline worlds are not counted",
        "exhaustive": true,
        "bounds": {
            "fragments": FRAGMENTS.iter().map(|f| json!({"id": f.id, "lines": f.lines})).collect::<Vec<_>>(),
            "slots": {"shape0": slots(0), "shape1": slots(1)},
            "styles": ["/// lines", "/** block */"],
            "layouts": ["fragment alone", "fragment between two marker lines"],
            "fragments_per_world": if thorough { "0, 1 (both styles, both shapes, both layouts) and, for the `///` style on world shape 0 with the alone layout, every pair (same slot in both orders, or two different slots)" } else { "0 and 1 (each fragment x each slot)" },
            "output_modes": ["w.md + w.html", "--html-in-md"],
        },
        "doc_comments_checked": docs,
        "links_seen": links,
        "anchors_seen": anchors,
        "distinct_outcomes": gen,
        "samples": samples,
    });
    let assumptions = vec![
        "Docs are markdown: the generator copies each doc line (trimmed) into the markdown source and renders the whole source with pulldown-cmark. 'Text unchanged' is therefore judged (a) exactly, line by line, on the markdown file (`w.md`, default mode), where member docs may follow the `<p>` the generator writes; (b) on the HTML text content (tags stripped, entities decoded, white space collapsed) with a per-fragment table that accepts both the markdown-rendered text and the raw text (member docs sit in a raw HTML block). pulldown-cmark is not in [workspace.dependencies], so no independent rendering is computed; fragments outside the table are plain words whose rendering is the identity.".to_string(),
        "'Surrounding whitespace' is read per line (the generator trims each line) and includes leading/trailing blank lines of a comment.".to_string(),
        "The documentation comments of a world are those wit-parser attaches to the world, its imported/exported interfaces, their types (and fields/cases/flags), functions, and world-level functions/types. Docs of an *exported* interface are included, since the statement says 'every documentation comment'; they get their own key (`...:export:interface:...`).".to_string(),
        "An `<a id=..>` anchor opened inside an open `<a>` counts as nesting (invalid HTML either way).".to_string(),
        "Links written by the doc author (`[txt](u)`) use a non-fragment URL, so a dangling `#` href can only come from the generator.".to_string(),
    ];
    run.finish(coverage, assumptions);
}
