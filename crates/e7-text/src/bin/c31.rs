//! C31 — generated C++ bindings are well-formed C++.
//!
//! Space (input-shape exploration):
//!  (a) every entry of `<repo>/tests/codegen` (discovered like `crates/test/src/lib.rs::discover_tests`)
//!      minus the exclusions `crates/test/src/cpp.rs::should_fail_verify` declares;
//!  (b) enumerated worlds: every C++20 keyword (cppreference list, written in kebab case) at every
//!      *name position* of a small world template, imported and exported; plus a fixed catalogue of
//!      worlds whose names coincide after the obvious manglings (kebab -> snake / Pascal / `_`-joined).
//! Oracle: `g++ -std=c++20 -fsyntax-only` with the repository's include directories exits 0.

use e7_text::*;
use serde_json::{json, Value};
use std::collections::{BTreeMap, BTreeSet};
use std::path::{Path, PathBuf};
use std::process::Command;

// ---------------------------------------------------------------------------------------------
// Exclusion table (DESIGN Appendix D), re-derived from crates/test/src/cpp.rs at the pinned commit.
// ---------------------------------------------------------------------------------------------

/// Whitespace-normalised text of `Cpp::should_fail_verify` this table was derived from.
const PINNED_SHOULD_FAIL: &str = "fn should_fail_verify( &self, _runner: &Runner, name: &str, config: &crate::config::WitConfig, _args: &[String], ) -> bool { // Compiles on C++ despite the blanket async exclusion below. if name == \"issue-1598.wit\" { return false; } return match name { \"issue1514-6.wit\" | \"named-fixed-length-list.wit\" => true, _ => false, } || config.async_; }";

struct Exclusion {
    source: &'static str,
    feature: &'static str,
}
const EXCL_ASYNC: Exclusion = Exclusion {
    source: "crates/test/src/cpp.rs:56 `|| config.async_` (leading `//@ async = true`)",
    feature: "anything async (async funcs, future<T>, stream<T>, error-context)",
};
const EXCL_1514_6: Exclusion = Exclusion {
    source: "crates/test/src/cpp.rs:53 \"issue1514-6.wit\"",
    feature: "a variant with a case named like the variant itself",
};
const EXCL_FLL: Exclusion = Exclusion {
    source: "crates/test/src/cpp.rs:53 \"named-fixed-length-list.wit\"",
    feature: "fixed-length lists list<T, N>",
};
const EXCEPT_1598: &str = "crates/test/src/cpp.rs:49 \"issue-1598.wit\" compiles despite `async = true`";

fn check_exclusion_source(repo: &str) {
    let p = format!("{repo}/crates/test/src/cpp.rs");
    let text = std::fs::read_to_string(&p)
        .unwrap_or_else(|e| vcommon::machinery(&format!("cannot read {p}: {e}")));
    let Some(start) = text.find("fn should_fail_verify(") else {
        vcommon::machinery("exclusion table out of date: should_fail_verify not found in cpp.rs")
    };
    let rest = &text[start..];
    let end = rest
        .find("\n    }\n")
        .unwrap_or_else(|| vcommon::machinery("exclusion table out of date: function end"));
    let body = &rest[..end + 6];
    let norm = body.split_whitespace().collect::<Vec<_>>().join(" ");
    if norm != PINNED_SHOULD_FAIL {
        vcommon::machinery(&format!(
            "exclusion table out of date: crates/test/src/cpp.rs::should_fail_verify changed:\n{norm}"
        ));
    }
}

/// `config.async_` as `crates/test/src/config.rs::parse_test_config` computes it: the leading
/// block of `//@` lines is TOML; `async = true` sets it.
fn config_async(text: &str) -> bool {
    text.lines()
        .take_while(|l| l.starts_with("//@"))
        .map(|l| l[3..].trim())
        .any(|l| {
            let mut it = l.splitn(2, '=');
            it.next().map(|k| k.trim()) == Some("async")
                && it.next().map(|v| v.trim()) == Some("true")
        })
}

// ---------------------------------------------------------------------------------------------
// World catalogue
// ---------------------------------------------------------------------------------------------

#[derive(Clone, Debug)]
struct Case {
    /// `<kind of world / name position>` part of the violation key
    kind: String,
    /// human readable id (corpus file, or position/dir/name)
    id: String,
    input: Input,
    world: Option<String>,
    /// names under test (for minimisation of batched keyword worlds)
    names: Vec<String>,
}

/// The C++20 keyword list from https://en.cppreference.com/w/cpp/keyword (incl. alternative
/// tokens), spelled as WIT kebab-case identifiers (`_` -> `-`). Independent of the generator's
/// own escape table in crates/c/src/lib.rs.
const CPP_KEYWORDS: &[&str] = &[
    "class", "new", "delete", "namespace", "template", "int", "this", "operator", "explicit",
    "private", // the ten named in the task come first (quick tier batch)
    "alignas", "alignof", "and", "and-eq", "asm", "auto", "bitand", "bitor", "bool", "break",
    "case", "catch", "char", "char8-t", "char16-t", "char32-t", "compl", "concept", "const",
    "consteval", "constexpr", "constinit", "const-cast", "continue", "co-await", "co-return",
    "co-yield", "decltype", "default", "do", "double", "dynamic-cast", "else", "enum", "export",
    "extern", "false", "float", "for", "friend", "goto", "if", "inline", "long", "mutable",
    "noexcept", "not", "not-eq", "nullptr", "or", "or-eq", "protected", "public", "register",
    "reinterpret-cast", "requires", "return", "short", "signed", "sizeof", "static",
    "static-assert", "static-cast", "struct", "switch", "thread-local", "throw", "true", "try",
    "typedef", "typeid", "typename", "union", "unsigned", "using", "virtual", "void", "volatile",
    "wchar-t", "while", "xor", "xor-eq",
];

/// Quick tier: three of the keywords that contain `_`.
const QUICK_MULTIWORD: &[&str] = &["const-cast", "char8-t", "and-eq"];

const POSITIONS: &[&str] = &[
    "record-name",
    "record-field",
    "variant-name",
    "variant-case",
    "enum-name",
    "enum-case",
    "flags-name",
    "flag",
    "alias-name",
    "func-name",
    "param-name",
    "resource-name",
    "method-name",
    "static-name",
    "interface-name",
    "world-func-name",
    "world-name",
    "package-name",
    "namespace-name",
];

/// Positions where only one name fits in a world.
fn single_only(pos: &str) -> bool {
    matches!(pos, "world-name" | "package-name" | "namespace-name")
}

/// Build a world that puts every name of `names` at `pos`; `export` selects the direction.
/// Everything is written with `%` so WIT keywords are plain identifiers.
fn keyword_world(pos: &str, export: bool, names: &[&str]) -> String {
    let dir = if export { "export" } else { "import" };
    let mut ns = "tns".to_string();
    let mut pkg = "tpkg".to_string();
    let mut world = "tworld".to_string();
    let mut ifaces: Vec<(String, String)> = Vec::new(); // (name, body)
    let mut world_items = String::new();
    let mut body = String::new();
    let n0 = names[0];
    match pos {
        "record-name" => {
            for (i, n) in names.iter().enumerate() {
                body += &format!("  record %{n} {{ x: u32, y: string }}\n  fun{i}: func(a: %{n}) -> %{n};\n");
            }
        }
        "record-field" => {
            body += "  record r {\n";
            for n in names {
                body += &format!("    %{n}: u32,\n");
            }
            body += "    tail: string,\n  }\n  f: func(a: r) -> r;\n";
        }
        "variant-name" => {
            for (i, n) in names.iter().enumerate() {
                body += &format!("  variant %{n} {{ ca(u32), cb(string), cc }}\n  fun{i}: func(a: %{n}) -> %{n};\n");
            }
        }
        "variant-case" => {
            body += "  variant v {\n";
            for (i, n) in names.iter().enumerate() {
                body += &match i % 3 {
                    0 => format!("    %{n}(u32),\n"),
                    1 => format!("    %{n}(string),\n"),
                    _ => format!("    %{n},\n"),
                };
            }
            body += "    tail,\n  }\n  f: func(a: v) -> v;\n";
        }
        "enum-name" => {
            for (i, n) in names.iter().enumerate() {
                body += &format!("  enum %{n} {{ ea, eb }}\n  fun{i}: func(a: %{n}) -> %{n};\n");
            }
        }
        "enum-case" => {
            body += "  enum e {\n";
            for n in names {
                body += &format!("    %{n},\n");
            }
            body += "    tail,\n  }\n  f: func(a: e) -> e;\n";
        }
        "flags-name" => {
            for (i, n) in names.iter().enumerate() {
                body += &format!("  flags %{n} {{ fa, fb }}\n  fun{i}: func(a: %{n}) -> %{n};\n");
            }
        }
        "flag" => {
            body += "  flags fl {\n";
            for n in names.iter().take(30) {
                body += &format!("    %{n},\n");
            }
            body += "    tail,\n  }\n  f: func(a: fl) -> fl;\n";
        }
        "alias-name" => {
            body += "  record base { x: u32 }\n";
            for (i, n) in names.iter().enumerate() {
                if i % 2 == 0 {
                    body += &format!("  type %{n} = base;\n");
                } else {
                    body += &format!("  type %{n} = list<u32>;\n");
                }
                body += &format!("  fun{i}: func(a: %{n}) -> %{n};\n");
            }
        }
        "func-name" => {
            for (i, n) in names.iter().enumerate() {
                body += &match i % 3 {
                    0 => format!("  %{n}: func();\n"),
                    1 => format!("  %{n}: func(a: u32) -> u32;\n"),
                    _ => format!("  %{n}: func(a: string) -> list<string>;\n"),
                };
            }
        }
        "param-name" => {
            body += "  record r { x: u32 }\n";
            // at most 8 params per function so that flattening does not go indirect everywhere
            for (k, chunk) in names.chunks(8).enumerate() {
                let ps = chunk
                    .iter()
                    .enumerate()
                    .map(|(i, n)| match i % 3 {
                        0 => format!("%{n}: u32"),
                        1 => format!("%{n}: string"),
                        _ => format!("%{n}: r"),
                    })
                    .collect::<Vec<_>>()
                    .join(", ");
                body += &format!("  fun{k}: func({ps}) -> u32;\n");
            }
        }
        "resource-name" => {
            for (i, n) in names.iter().enumerate() {
                body += &format!(
                    "  resource %{n} {{ constructor(a: u32); get: func() -> u32; make: static func() -> %{n}; }}\n  fun{i}: func(a: borrow<%{n}>) -> %{n};\n"
                );
            }
        }
        "method-name" => {
            body += "  resource res {\n    constructor(a: u32);\n";
            for (i, n) in names.iter().enumerate() {
                body += &match i % 2 {
                    0 => format!("    %{n}: func() -> u32;\n"),
                    _ => format!("    %{n}: func(a: string);\n"),
                };
            }
            body += "  }\n";
        }
        "static-name" => {
            body += "  resource res {\n    constructor(a: u32);\n";
            for n in names {
                body += &format!("    %{n}: static func(a: u32) -> res;\n");
            }
            body += "  }\n";
        }
        "interface-name" => {
            for n in names {
                ifaces.push((
                    format!("%{n}"),
                    "  record r { x: u32 }\n  f: func(a: r) -> r;\n".to_string(),
                ));
            }
        }
        "world-func-name" => {
            for (i, n) in names.iter().enumerate() {
                world_items += &match i % 2 {
                    0 => format!("  {dir} %{n}: func(a: u32) -> u32;\n"),
                    _ => format!("  {dir} %{n}: func(a: string) -> string;\n"),
                };
            }
        }
        "world-name" => {
            world = n0.to_string();
            body += "  record r { x: u32 }\n  f: func(a: r) -> r;\n";
        }
        "package-name" => {
            pkg = n0.to_string();
            body += "  record r { x: u32 }\n  f: func(a: r) -> r;\n";
        }
        "namespace-name" => {
            ns = n0.to_string();
            body += "  record r { x: u32 }\n  f: func(a: r) -> r;\n";
        }
        _ => unreachable!(),
    }
    if !body.is_empty() {
        ifaces.push(("iface".to_string(), body));
    }
    let mut out = format!("package %{ns}:%{pkg};\n\n");
    for (n, b) in &ifaces {
        out += &format!("interface {n} {{\n{b}}}\n\n");
    }
    out += &format!("world %{world} {{\n");
    for (n, _) in &ifaces {
        out += &format!("  {dir} {n};\n");
    }
    out += &world_items;
    out += "}\n";
    out
}

/// Identifiers the generated C++ itself relies on (member functions of the resource base
/// classes in crates/cpp/helper-types/wit.h, the `exports` / `wit` / `std` namespaces): a WIT
/// name that mangles to one of them collides with generated code rather than with a keyword.
const RESERVED: &[&str] = &[
    "dtor", "resource-new", "resource-rep", "resource-drop", "owned", "exports", "std", "wit",
];

fn kw_case(group: &str, pos: &str, export: bool, names: &[&str]) -> Case {
    let dir = if export { "export" } else { "import" };
    // `%` as the test runner does (`--world %name`), so WIT keywords are accepted as world names
    let world = if pos == "world-name" { format!("%{}", names[0]) } else { "tworld".to_string() };
    Case {
        kind: format!("{group}:{pos}:{dir}"),
        id: format!("{group}:{pos}:{dir}:{}", names.join(",")),
        input: Input::Texts(vec![(
            "kw.wit".into(),
            keyword_world(pos, export, names),
        )]),
        world: Some(world),
        names: names.iter().map(|s| s.to_string()).collect(),
    }
}

/// Worlds whose distinct WIT names coincide after an obvious mangling. Each entry:
/// (kind, id, [(file, text)...], world)
fn collision_cases() -> Vec<Case> {
    let mut v: Vec<(&str, &str, Vec<(&str, String)>)> = Vec::new();
    let one = |s: &str| vec![("c.wit", s.to_string())];
    for dir in ["import", "export"] {
        // `_`-joined symbol paths: (pkg q, iface a-b, func c) vs (pkg q, iface a, func b-c)
        v.push((
            "collision:iface-func-join",
            dir,
            one(&format!(
                "package p:q;\ninterface a-b {{ c: func(x: u32) -> u32; }}\ninterface a {{ b-c: func(x: u32) -> u32; }}\nworld w {{ {dir} a-b; {dir} a; }}\n"
            )),
        ));
        // record foo-bar vs record foo with field bar, and funcs named alike
        v.push((
            "collision:type-member-join",
            dir,
            one(&format!(
                "package p:q;\ninterface i {{\n record foo-bar {{ x: u32 }}\n record foo {{ bar: u32 }}\n foo-bar-get: func(a: foo-bar) -> foo;\n get: func(a: foo) -> foo-bar;\n}}\nworld w {{ {dir} i; }}\n"
            )),
        ));
        // resource foo with method bar vs free function foo-bar / type foo-bar
        v.push((
            "collision:resource-method-join",
            dir,
            one(&format!(
                "package p:q;\ninterface i {{\n resource foo {{ constructor(); bar: func() -> u32; baz: static func() -> u32; }}\n foo-bar: func() -> u32;\n foo-baz: func() -> u32;\n record foo-bar-rec {{ x: u32 }}\n}}\nworld w {{ {dir} i; }}\n"
            )),
        ));
        // variant case vs separate type: variant foo {{ bar(u32) }} + record foo-bar
        v.push((
            "collision:variant-case-join",
            dir,
            one(&format!(
                "package p:q;\ninterface i {{\n variant foo {{ bar(u32), baz }}\n record foo-bar {{ x: u32 }}\n enum foo-baz {{ qa, qb }}\n f: func(a: foo, b: foo-bar, c: foo-baz) -> foo;\n}}\nworld w {{ {dir} i; }}\n"
            )),
        ));
        // same type name in two interfaces, both used from a third
        v.push((
            "collision:same-type-two-ifaces",
            dir,
            one(&format!(
                "package p:q;\ninterface a {{ record t {{ x: u32 }} f: func(v: t) -> t; }}\ninterface b {{ record t {{ y: string }} f: func(v: t) -> t; }}\ninterface c {{ use a.{{t}}; use b.{{t as u}}; g: func(x: t, y: u) -> tuple<t, u>; }}\nworld w {{ {dir} a; {dir} b; {dir} c; }}\n"
            )),
        ));
        // interface named like its package / namespace; type named like the interface
        v.push((
            "collision:iface-pkg-ns-same",
            dir,
            one(&format!(
                "package a:a;\ninterface a {{ record a {{ a: u32 }} get-a: func(a: a) -> a; }}\nworld w {{ {dir} a; }}\n"
            )),
        ));
        // world named like an interface of another package that it contains
        v.push((
            "collision:world-iface-same",
            dir,
            vec![
                (
                    "d.wit",
                    "package p:d;\ninterface w { record r { x: u32 } f: func(a: r) -> r; }\n".to_string(),
                ),
                ("c.wit", format!("package p:q;\nworld w {{ {dir} p:d/w; }}\n")),
            ],
        ));
        // function named like a type in the same interface (Pascal/snake differ only by case)
        v.push((
            "collision:func-vs-type-case",
            dir,
            one(&format!(
                "package p:q;\ninterface i {{ record foo-bar {{ x: u32 }} make-foo-bar: func() -> foo-bar; foo-bar-of: func(x: u32) -> foo-bar; }}\nworld w {{ {dir} i; }}\n"
            )),
        ));
        // field / param named like their own type
        v.push((
            "collision:member-named-like-type",
            dir,
            one(&format!(
                "package p:q;\ninterface i {{ record foo {{ foo: u32 }} record holder {{ foo: foo }} enum color {{ color, red }} f: func(foo: foo, holder: holder, color: color) -> foo; }}\nworld w {{ {dir} i; }}\n"
            )),
        ));
        // kebab names that differ only in where the dash is (snake a_bc vs ab_c are distinct, Pascal ABc / AbC differ by case only)
        v.push((
            "collision:dash-placement",
            dir,
            one(&format!(
                "package p:q;\ninterface i {{ record a-bc {{ x: u32 }} record ab-c {{ y: u32 }} f-abc: func(v: a-bc) -> ab-c; fa-bc: func(v: ab-c) -> a-bc; fab-c: func(); }}\nworld w {{ {dir} i; }}\n"
            )),
        ));
        // upper-case words: HTTP-server vs http-server are the same id in WIT? use distinct ones
        v.push((
            "collision:upper-words",
            dir,
            one(&format!(
                "package p:q;\ninterface i {{ record HTTP-header {{ x: u32 }} record http-headers {{ y: u32 }} GET-it: func(v: HTTP-header) -> http-headers; }}\nworld w {{ {dir} i; }}\n"
            )),
        ));
        // digits at word ends: a1-b vs a-1... (only valid spellings)
        v.push((
            "collision:digits",
            dir,
            one(&format!(
                "package p:q;\ninterface i {{ record a1 {{ x: u32 }} record a-b1 {{ y: u32 }} record a1-b {{ z: u32 }} f1: func(v: a1) -> a-b1; f-1x: func(v: a1-b); }}\nworld w {{ {dir} i; }}\n"
            )),
        ));
        // two packages whose `_`-joined paths coincide: p:q-a/b vs p:q/a-b
        v.push((
            "collision:pkg-iface-join",
            dir,
            vec![
                (
                    "d.wit",
                    "package p:q-a;\ninterface b { record r { x: u32 } f: func(v: r) -> r; }\n".to_string(),
                ),
                (
                    "c.wit",
                    format!("package p:q;\ninterface a-b {{ record r {{ x: u32 }} f: func(v: r) -> r; }}\nworld w {{ {dir} a-b; {dir} p:q-a/b; }}\n"),
                ),
            ],
        ));
        // two versions of one package in one world
        v.push((
            "collision:two-versions",
            dir,
            vec![
                (
                    "d1.wit",
                    "package p:dep@1.0.0;\ninterface i { record r { x: u32 } f: func(v: r) -> r; }\n".to_string(),
                ),
                (
                    "d2.wit",
                    "package p:dep@2.0.0;\ninterface i { record r { x: string } f: func(v: r) -> r; }\n".to_string(),
                ),
                (
                    "c.wit",
                    format!("package p:q;\nworld w {{ {dir} p:dep/i@1.0.0; {dir} p:dep/i@2.0.0; }}\n"),
                ),
            ],
        ));
    }
    // the same interface imported and exported; import named like an export
    v.push((
        "collision:import-and-export-same-iface",
        "both",
        one("package p:q;\ninterface i { record r { x: u32 } resource res { constructor(); get: func() -> r; } f: func(a: r) -> r; }\nworld w { import i; export i; }\n"),
    ));
    v.push((
        "collision:world-func-vs-iface-func",
        "both",
        one("package p:q;\ninterface f { f: func(a: u32) -> u32; }\nworld w { import f; import g: func(a: u32) -> u32; export g: func(a: u32) -> u32; export f; }\n"),
    ));
    v.push((
        "collision:named-import-vs-iface",
        "both",
        one("package p:q;\ninterface i { record r { x: u32 } f: func(a: r) -> r; }\nworld w { import i; import j: interface { record r { x: u32 } f: func(a: r) -> r; } export k: interface { record r { x: u32 } f: func(a: r) -> r; } }\n"),
    ));
    v.into_iter()
        .map(|(kind, dir, texts)| Case {
            kind: format!("{kind}:{dir}"),
            id: format!("{kind}:{dir}"),
            input: Input::Texts(
                texts
                    .into_iter()
                    .map(|(a, b)| (a.to_string(), b))
                    .collect(),
            ),
            world: Some("w".into()),
            names: vec![],
        })
        .collect()
}

/// Cross-package `use` where one name component of the *using* interface's path (namespace,
/// package or interface) equals a component of the *used* interface's path, at every pair of
/// levels: C++ name lookup of `a::b::c::T` written inside `x::a::y` finds the inner `a` first.
/// The used types appear in a record, a variant, function parameters / results and resource methods.
const LEVELS: &[&str] = &["namespace", "package", "interface"];

fn cross_pkg_cases(thorough: bool) -> Vec<Case> {
    let mut out = Vec::new();
    for lu in 0..3usize {
        for ld in 0..3usize {
            if !thorough && lu == ld {
                continue; // quick: the six different-level pairs
            }
            let mut using = ["uns".to_string(), "upk".to_string(), "uif".to_string()];
            let mut used = ["dns".to_string(), "dpk".to_string(), "dif".to_string()];
            using[lu] = "shared".into();
            used[ld] = "shared".into();
            let dep = format!(
                "package {}:{};\ninterface {} {{\n  record chunk {{ offset: u64, len: u32 }}\n  enum mode {{ read, write }}\n  resource handle {{ constructor(); size: func() -> u32; }}\n}}\n",
                used[0], used[1], used[2]
            );
            let dirs: &[&str] = &["import", "export", "export-both"];
            for dir in dirs {
                let world_items = match *dir {
                    "import" => format!("  import {};\n", using[2]),
                    "export" => format!("  export {};\n", using[2]),
                    _ => format!("  export {}:{}/{};\n  export {};\n", used[0], used[1], used[2], using[2]),
                };
                // An *exported* resource whose methods mention types declared elsewhere does not
                // compile for an unrelated, known reason (its user-class header is included before
                // any type definition: known finding `collision:import-and-export-same-iface`), so
                // resource methods over the used types are exercised on the import side only.
                let resource = if *dir == "import" {
                    "  resource cursor {\n    constructor(c: chunk);\n    next: func() -> option<chunk>;\n    set-mode: func(m: mode) -> mode;\n  }\n"
                } else {
                    ""
                };
                let main = format!(
                    "package {}:{};\ninterface {} {{\n  use {}:{}/{}.{{chunk, mode, handle}};\n  record wrapper {{ c: chunk, m: mode, cs: list<chunk> }}\n  variant choice {{ a(chunk), b(mode) }}\n  describe: func(c: chunk, m: mode) -> chunk;\n  peek: func() -> option<mode>;\n  wrap: func(w: wrapper) -> result<wrapper, mode>;\n  pick: func(h: borrow<handle>) -> choice;\n{}}}\nworld w {{\n{}}}\n",
                    using[0], using[1], using[2], used[0], used[1], used[2], resource, world_items
                );
                let kind = format!("crosspkg:{}-vs-{}:{dir}", LEVELS[lu], LEVELS[ld]);
                out.push(Case {
                    kind: kind.clone(),
                    id: kind,
                    input: Input::Texts(vec![("dep.wit".into(), dep.clone()), ("main.wit".into(), main)]),
                    world: Some("w".into()),
                    names: vec![],
                });
            }
        }
    }
    out
}

fn corpus_cases(repo: &str) -> (Vec<Case>, Vec<Value>) {
    let root = PathBuf::from(format!("{repo}/tests/codegen"));
    let mut found: Vec<(String, PathBuf, bool)> = Vec::new(); // name, path to push, async
    fn walk(p: &Path, out: &mut Vec<(String, PathBuf, bool)>) {
        // mirrors crates/test/src/lib.rs::discover_tests (no runtime tests under tests/codegen)
        if p.is_file() {
            if p.extension().and_then(|s| s.to_str()) == Some("wit") {
                let text = std::fs::read_to_string(p).unwrap_or_default();
                out.push((
                    p.file_name().unwrap().to_string_lossy().into_owned(),
                    p.to_path_buf(),
                    config_async(&text),
                ));
            }
            return;
        }
        let cand = p.join("wit");
        if cand.is_dir() {
            out.push((
                p.file_name().unwrap().to_string_lossy().into_owned(),
                cand,
                false,
            ));
            return;
        }
        if let Ok(rd) = std::fs::read_dir(p) {
            let mut es: Vec<_> = rd.filter_map(|e| e.ok()).map(|e| e.path()).collect();
            es.sort();
            for e in es {
                walk(&e, out);
            }
        }
    }
    walk(&root, &mut found);
    if found.len() < 50 {
        vcommon::machinery(&format!(
            "tests/codegen corpus looks wrong: {} entries under {}",
            found.len(),
            root.display()
        ));
    }
    let mut cases = Vec::new();
    let mut excluded = Vec::new();
    for (name, path, is_async) in found {
        // should_fail_verify, as a table
        let ex: Option<&Exclusion> = if name == "issue-1598.wit" {
            None
        } else if name == "issue1514-6.wit" {
            Some(&EXCL_1514_6)
        } else if name == "named-fixed-length-list.wit" {
            Some(&EXCL_FLL)
        } else if is_async {
            Some(&EXCL_ASYNC)
        } else {
            None
        };
        if let Some(ex) = ex {
            excluded.push(json!({"test": name, "feature": ex.feature, "source": ex.source}));
            continue;
        }
        cases.push(Case {
            kind: "corpus".into(),
            id: format!("corpus:{name}"),
            input: Input::Path(path),
            world: None,
            names: vec![],
        });
    }
    (cases, excluded)
}

// ---------------------------------------------------------------------------------------------
// Running one case
// ---------------------------------------------------------------------------------------------

/// How the C++ compiler is invoked. The repository targets wasm32 (ILP32); native g++ is LP64,
/// where the generated `(int32_t) ptr` casts are ill-formed for a reason that has nothing to do
/// with the property. `g++ -m32 -fsyntax-only` gives an ILP32 data model; this sandbox has no
/// 32-bit multilib, but the x86 glibc/libstdc++ headers are shared between both word sizes, so
/// two extra `-isystem` directories and an empty `gnu/stubs-32.h` are enough for syntax checking.
#[derive(Clone, Debug)]
struct Cxx {
    mode: &'static str,
    args: Vec<String>,
}

fn gxx_query(arg: &str) -> String {
    Command::new("g++")
        .arg(arg)
        .output()
        .ok()
        .map(|o| String::from_utf8_lossy(&o.stdout).trim().to_string())
        .unwrap_or_default()
}

fn base_args(repo: &str) -> Vec<String> {
    vec![
        "-std=c++20".into(),
        "-fsyntax-only".into(),
        "-fno-exceptions".into(), // crates/test/src/cpp.rs::compile
        "-fmax-errors=5".into(),
        // libstdc++ keeps the pre-C++17 `std::unexpected()` in C++20 mode unless told otherwise;
        // it clashes with `using ::tl::unexpected` in crates/cpp/test_headers/expected whenever
        // <exception> was included first. libc++ (the repository's toolchain) has no such function.
        "-D_GLIBCXX_USE_DEPRECATED=0".into(),
        "-I".into(),
        format!("{repo}/crates/cpp/helper-types"),
        "-I".into(),
        format!("{repo}/crates/cpp/test_headers"),
    ]
}

fn probe_compiler(repo: &str, shim: &Path) -> Cxx {
    let probe = shim.join("probe.cpp");
    let _ = std::fs::create_dir_all(shim.join("gnu"));
    let _ = std::fs::write(shim.join("gnu/stubs-32.h"), "");
    let multiarch = gxx_query("-print-multiarch");
    let ver = gxx_query("-dumpversion");
    let mut a32 = vec![
        "-m32".to_string(),
        "-isystem".into(),
        format!("/usr/include/{multiarch}/c++/{ver}"),
        "-isystem".into(),
        format!("/usr/include/{multiarch}"),
        "-isystem".into(),
        shim.to_string_lossy().into_owned(),
    ];
    a32.extend(base_args(repo));
    std::fs::write(
        &probe,
        "#include <wit.h>\n#include <expected>\nstatic_assert(sizeof(void*) == 4 && sizeof(size_t) == 4);\nint32_t f(uint8_t* p) { return (int32_t) p; }\nint main() { return 0; }\n",
    )
    .ok();
    let ok32 = Command::new("g++")
        .env("LC_ALL", "C")
        .args(&a32)
        .arg(&probe)
        .output()
        .map(|o| o.status.success())
        .unwrap_or(false);
    if ok32 && std::env::var_os("E7_FORCE_LP64").is_none() {
        return Cxx { mode: "ilp32", args: a32 };
    }
    // fall back: native LP64 with -fpermissive; permissive-class diagnostics are classified in `judge`
    let mut a64 = vec!["-fpermissive".to_string()];
    a64.extend(base_args(repo));
    std::fs::write(&probe, "#include <wit.h>\n#include <expected>\nint main() { return 0; }\n").ok();
    match Command::new("g++").env("LC_ALL", "C").args(&a64).arg(&probe).output() {
        Ok(o) if o.status.success() => Cxx { mode: "lp64-permissive", args: a64 },
        Ok(o) => vcommon::machinery(&format!(
            "g++ cannot compile the helper headers alone: {}",
            String::from_utf8_lossy(&o.stderr)
        )),
        Err(e) => vcommon::machinery(&format!("g++ not runnable: {e}")),
    }
}

/// First diagnostic that makes the translation unit ill-formed, if any.
fn judge(cxx: &Cxx, success: bool, stderr: &str) -> Option<String> {
    let first_error = stderr.lines().find(|l| l.contains("error:"));
    if cxx.mode == "ilp32" {
        return if success {
            None
        } else {
            Some(first_error.unwrap_or("g++ failed without an error line").to_string())
        };
    }
    if let Some(e) = first_error {
        return Some(e.to_string());
    }
    // LP64 fallback: `[-fpermissive]` warnings are errors in conforming mode, except the one
    // that only exists because pointers are wider than int32_t on this host.
    for l in stderr.lines() {
        if l.contains("[-fpermissive]") && !l.contains("loses precision") {
            return Some(l.replace("warning:", "error:"));
        }
    }
    if success {
        None
    } else {
        Some("g++ failed without an error line".into())
    }
}

fn snake(world: &str) -> String {
    let world = world.trim_start_matches('%');
    // heck::ToSnakeCase on a kebab identifier (words of [a-zA-Z][a-zA-Z0-9]*): lower-case words joined by `_`.
    // Used only to *find* the generated `<world>.cpp`; if the generator names it differently we look for the single `.cpp`.
    world.replace('-', "_").to_lowercase()
}

fn normalise_error(line: &str) -> String {
    // drop `path:line:col: ` prefixes, quoted identifiers and numbers
    let mut s = line.to_string();
    if let Some(i) = s.find("error:") {
        s = s[i..].to_string();
    }
    let mut out = String::new();
    let mut chars = s.chars().peekable();
    let mut in_q = false;
    while let Some(c) = chars.next() {
        if c == '\'' || c == '\u{2018}' || c == '\u{2019}' {
            if !in_q {
                out.push_str("'_'");
            }
            in_q = !in_q;
            continue;
        }
        if in_q {
            continue;
        }
        if c.is_ascii_digit() {
            if !out.ends_with('N') {
                out.push('N');
            }
            continue;
        }
        out.push(c);
    }
    out.trim().to_string()
}

/// Result of one world: JSON so that it can cross the `par_map` process boundary.
fn run_case(case: &Case, idx: usize, cxx: &Cxx, keep: bool) -> Value {
    let dir = std::env::temp_dir().join(format!("e7-c31-{}-{}", std::process::id(), idx));
    let _ = std::fs::remove_dir_all(&dir);
    let gen = generate(
        &case.input,
        case.world.as_deref(),
        &Backend::Cpp {
            out_dir: dir.clone(),
        },
    );
    let files = match gen {
        Gen::Ok(f) => f,
        other => {
            let (cls, msg) = match &other {
                Gen::Invalid(m) => ("invalid-input", m.clone()),
                Gen::Err(m) => ("generator-err", m.clone()),
                Gen::Panic(m) => ("generator-panic", m.clone()),
                Gen::Ok(_) => unreachable!(),
            };
            return json!({"id": case.id, "kind": case.kind, "class": cls, "msg": msg});
        }
    };
    if let Err(e) = std::fs::create_dir_all(&dir) {
        vcommon::machinery(&format!("cannot create {}: {e}", dir.display()));
    }
    let mut cpps = Vec::new();
    for (name, bytes) in &files {
        let p = dir.join(name);
        if let Some(parent) = p.parent() {
            let _ = std::fs::create_dir_all(parent);
        }
        if let Err(e) = std::fs::write(&p, bytes) {
            vcommon::machinery(&format!("cannot write {}: {e}", p.display()));
        }
        if name.ends_with(".cpp") {
            cpps.push(name.clone());
        }
    }
    // crates/test/src/cpp.rs::verify compiles `<world snake>.cpp`
    let main_cpp = match &case.world {
        Some(w) if files.contains_key(&format!("{}.cpp", snake(w))) => format!("{}.cpp", snake(w)),
        _ if cpps.len() == 1 => cpps[0].clone(),
        _ => {
            let _ = std::fs::remove_dir_all(&dir);
            return json!({"id": case.id, "kind": case.kind, "class": "no-cpp", "msg": format!("generated files: {:?}", files.keys().collect::<Vec<_>>())});
        }
    };
    let out = Command::new("g++")
        .env("LC_ALL", "C")
        .arg("-I")
        .arg(&dir)
        .args(&cxx.args)
        .arg(dir.join(&main_cpp))
        .output();
    let out = match out {
        Ok(o) => o,
        Err(e) => vcommon::machinery(&format!("cannot run g++: {e}")),
    };
    let stderr = String::from_utf8_lossy(&out.stderr).into_owned();
    let verdict = judge(cxx, out.status.success(), &stderr);
    let ok = verdict.is_none();
    let first_err = verdict.unwrap_or_default();
    let lines: usize = files
        .iter()
        .filter(|(n, _)| n.ends_with(".cpp") || n.ends_with(".h"))
        .map(|(_, b)| b.iter().filter(|c| **c == b'\n').count())
        .sum();
    if !keep {
        let _ = std::fs::remove_dir_all(&dir);
    }
    if ok {
        json!({"id": case.id, "kind": case.kind, "class": "compiled", "lines": lines, "hash": format!("{:016x}", vcommon::fnv(files.get(&main_cpp).map(|v| &v[..]).unwrap_or(b"")))})
    } else {
        let tail: String = stderr.lines().filter(|l| !l.contains("note:")).take(14).collect::<Vec<_>>().join("\n");
        json!({"id": case.id, "kind": case.kind, "class": "gxx-error", "lines": lines,
               "first_error": first_err.replace(&dir.to_string_lossy().to_string(), "<out>"),
               "norm": normalise_error(&first_err),
               "stderr": tail.replace(&dir.to_string_lossy().to_string(), "<out>"),
               "dir": if keep { dir.to_string_lossy().to_string() } else { String::new() }})
    }
}

fn case_to_json(c: &Case) -> Value {
    json!({"kind": c.kind, "id": c.id, "input": input_to_json(&c.input), "world": c.world, "names": c.names})
}
fn case_from_json(v: &Value) -> Case {
    Case {
        kind: v["kind"].as_str().unwrap_or("").into(),
        id: v["id"].as_str().unwrap_or("").into(),
        input: input_from_json(&v["input"]),
        world: v["world"].as_str().map(|s| s.to_string()),
        names: v["names"]
            .as_array()
            .map(|a| a.iter().filter_map(|x| x.as_str().map(String::from)).collect())
            .unwrap_or_default(),
    }
}

fn main() {
    let mut run = vcommon::Run::from_args("C31", "exploration");
    vcommon::install_quiet_panic_hook();
    tune_malloc();
    let repo = vcommon::repo_root();

    if let Some(d) = run.replay_detail() {
        let mut case = case_from_json(&d["case"]);
        // corpus paths are stored relative to the repository root
        if let Input::Path(p) = &case.input {
            if p.is_relative() {
                case.input = Input::Path(PathBuf::from(&repo).join(p));
            }
        }
        if let Input::Texts(t) = &case.input {
            for (n, s) in t {
                println!("--- {n}\n{s}");
            }
        }
        let shim = std::env::temp_dir().join(format!("e7-c31-shim-{}", std::process::id()));
        let cxx = probe_compiler(&repo, &shim);
        let keep = run.extra_args.iter().any(|a| a == "--keep");
        let r = run_case(&case, 0, &cxx, keep);
        let _ = std::fs::remove_dir_all(&shim);
        println!("{}", serde_json::to_string_pretty(&r).unwrap());
        let failed = r["class"] == "gxx-error";
        println!("replay: {}", if failed { "STILL FAILS" } else { "does not fail" });
        std::process::exit(if failed { 1 } else { 0 });
    }

    check_exclusion_source(&repo);
    // g++ must exist and accept the flags, otherwise every world would "fail".
    let shim = std::env::temp_dir().join(format!("e7-c31-shim-{}", std::process::id()));
    let cxx = probe_compiler(&repo, &shim);

    let thorough = run.thorough();
    let (corpus, excluded) = corpus_cases(&repo);
    let mut cases: Vec<Case> = Vec::new();
    cases.extend(corpus.iter().cloned());
    let collisions = collision_cases();
    cases.extend(collisions.iter().cloned());
    let crosspkg = cross_pkg_cases(thorough);
    cases.extend(crosspkg.iter().cloned());
    // keyword worlds
    let quick_batch: Vec<&str> = CPP_KEYWORDS[..10].to_vec();
    let mut kw_worlds = 0usize;
    for pos in POSITIONS {
        for export in [false, true] {
            if thorough {
                for (group, list) in [("keyword", CPP_KEYWORDS), ("reserved", RESERVED)] {
                    if single_only(pos) {
                        for k in list {
                            cases.push(kw_case(group, pos, export, &[k]));
                            kw_worlds += 1;
                        }
                    } else {
                        // all names of the list next to each other; a failing batch is re-run one name at a time below
                        cases.push(kw_case(group, pos, export, list));
                        kw_worlds += 1;
                    }
                }
            } else if single_only(pos) {
                // one name per world: a different one of the task's list per position
                let k = quick_batch[POSITIONS.iter().position(|p| p == pos).unwrap() % quick_batch.len()];
                cases.push(kw_case("keyword", pos, export, &[k]));
                kw_worlds += 1;
            } else {
                cases.push(kw_case("keyword", pos, export, &quick_batch));
                kw_worlds += 1;
            }
        }
    }
    if !thorough {
        // keywords spelled with `_` (kebab `-` in WIT) at four places where names go through the identifier escaper
        for (pos, export) in [("record-field", false), ("param-name", true), ("interface-name", false)] {
            cases.push(kw_case("keyword", pos, export, QUICK_MULTIWORD));
            kw_worlds += 1;
        }
        cases.push(kw_case("keyword", "namespace-name", true, &QUICK_MULTIWORD[..1]));
        kw_worlds += 1;
    }
    if !thorough {
        // quick: every third corpus entry and the export-side / mixed collision worlds only
        let mut k = 0usize;
        cases.retain(|c| {
            if c.kind == "corpus" {
                k += 1;
                k % 3 == 1
            } else if c.kind.starts_with("collision:") {
                !c.kind.ends_with(":import")
            } else {
                true
            }
        });
    }
    let n_corpus_run = cases.iter().filter(|c| c.kind == "corpus").count();
    let n_collision_run = cases.iter().filter(|c| c.kind.starts_with("collision:")).count();
    // development aid: `--only <substring>` restricts the run (never used by ./check)
    let only: Option<String> = run
        .extra_args
        .iter()
        .position(|a| a == "--only")
        .and_then(|i| run.extra_args.get(i + 1).cloned());
    if let Some(o) = &only {
        cases.retain(|c| c.id.contains(o.as_str()));
    }
    rotate(&mut cases, run.seed);

    // every enumerated world must be valid WIT (checked up front: a typo in the catalogue would make
    // the world vacuous, and finding out after all compilations wastes the run)
    {
        let bad: Vec<String> = cases
            .iter()
            .filter(|c| matches!(c.input, Input::Texts(_)))
            .filter_map(|c| parse(&c.input, c.world.as_deref()).err().map(|e| format!("{}: {e}", c.id)))
            .collect();
        if !bad.is_empty() {
            vcommon::machinery(&format!("enumerated worlds that are not valid WIT: {bad:?}"));
        }
    }

    let n = cases.len();
    let workers = vcommon::ncpu().min(16);
    let results = vcommon::par_map(n, workers, |i| run_case(&cases[i], i, &cxx, false));

    // minimise failing batched keyword worlds: re-run each keyword on its own
    let mut extra_cases: Vec<Case> = Vec::new();
    for (i, r) in results.iter().enumerate() {
        if r["class"] == "gxx-error" && cases[i].names.len() > 1 {
            let parts: Vec<&str> = cases[i].kind.split(':').collect();
            let (group, pos) = (parts[0], parts[1]);
            let export = parts[2] == "export";
            for nme in &cases[i].names {
                extra_cases.push(kw_case(group, pos, export, &[nme.as_str()]));
            }
        }
    }
    let extra_results = vcommon::par_map(extra_cases.len(), workers, |i| {
        run_case(&extra_cases[i], n + i, &cxx, false)
    });

    let _ = std::fs::remove_dir_all(&shim);

    let mut class_counts: BTreeMap<String, usize> = BTreeMap::new();
    let mut kinds_compiled: BTreeSet<String> = BTreeSet::new();
    let mut distinct_outputs: BTreeSet<String> = BTreeSet::new();
    let mut samples = vcommon::Samples::new(12);
    let mut gen_errs = Vec::new();
    let mut gen_panics = Vec::new();
    let mut invalid = Vec::new();
    let mut total_lines = 0u64;
    let report = |run: &mut vcommon::Run, case: &Case, r: &Value, minimised_from: Option<&str>| {
        let norm = r["norm"].as_str().unwrap_or("");
        let key = if case.names.len() == 1 {
            format!("{}:{}:{}", case.kind, case.names[0], norm)
        } else if case.kind == "corpus" {
            format!("{}:{}", case.id, norm)
        } else {
            format!("{}:{}", case.kind, norm)
        };
        let mut case_json = case_to_json(case);
        if let Input::Path(p) = &case.input {
            // store corpus paths relative to the repo so that replay works on any checkout
            if let Ok(rel) = p.strip_prefix(&vcommon::repo_root()) {
                case_json["input"] = json!({"path": rel.to_string_lossy()});
            }
        }
        run.violation(
            &key,
            &format!(
                "g++ -std=c++20 -fsyntax-only rejects the C++ generated for {}: {}",
                case.id,
                r["first_error"].as_str().unwrap_or("")
            ),
            json!({"case": case_json, "result": r, "minimised_from": minimised_from}),
        );
    };
    for (i, r) in results.iter().enumerate() {
        let cls = r["class"].as_str().unwrap_or("?").to_string();
        *class_counts.entry(cls.clone()).or_insert(0) += 1;
        match cls.as_str() {
            "compiled" => {
                kinds_compiled.insert(cases[i].kind.clone());
                distinct_outputs.insert(r["hash"].as_str().unwrap_or("").to_string());
                total_lines += r["lines"].as_u64().unwrap_or(0);
                samples.offer(|| json!({"id": cases[i].id, "class": "compiled", "lines": r["lines"]}));
            }
            "gxx-error" => {
                total_lines += r["lines"].as_u64().unwrap_or(0);
                // batched keyword worlds are reported through their minimised single-name re-runs
                if cases[i].names.len() > 1 {
                    let any_single = extra_cases
                        .iter()
                        .zip(extra_results.iter())
                        .any(|(c, r)| c.kind == cases[i].kind && r["class"] == "gxx-error");
                    if any_single {
                        continue;
                    }
                }
                report(&mut run, &cases[i], r, None);
            }
            "generator-err" => gen_errs.push(json!({"id": cases[i].id, "msg": r["msg"]})),
            "generator-panic" => gen_panics.push(json!({"id": cases[i].id, "msg": r["msg"]})),
            "invalid-input" => invalid.push(json!({"id": cases[i].id, "msg": r["msg"]})),
            _ => vcommon::machinery(&format!("case {}: {}", cases[i].id, r)),
        }
    }
    for (c, r) in extra_cases.iter().zip(extra_results.iter()) {
        if r["class"] == "gxx-error" {
            report(&mut run, c, r, Some(&c.kind));
        }
    }
    // corpus entries must be valid WIT; catalogue worlds too (a typo in the catalogue would be vacuous)
    if !invalid.is_empty() {
        vcommon::machinery(&format!(
            "catalogue/corpus inputs that are not valid WIT (would be vacuous): {}",
            serde_json::to_string(&invalid).unwrap()
        ));
    }
    for p in &gen_panics {
        println!("NOTE (C16, not a C31 verdict): generator panic on {}: {}", p["id"], p["msg"]);
    }
    for e in &gen_errs {
        println!("NOTE: generator refused {}: {}", e["id"], e["msg"]);
    }

    let evaluations = n + extra_cases.len();
    let coverage = json!({
        "evaluations": evaluations,
        "distinct_nontrivial": distinct_outputs.len(),
        "rule": "number of distinct generated `<world>.cpp` contents (FNV-1a of the bytes) that g++ accepted; a world counts only if the generator produced C++ and the compiler ran on it",
        "exhaustive": only.is_none(),
        "bounds": {
            "corpus": format!("{} of the {} entries of tests/codegen found by the discover_tests rule ({} declared exclusions removed{})", n_corpus_run, corpus.len() + excluded.len(), excluded.len(), if thorough { "" } else { "; quick takes every third remaining entry" }),
            "keywords": if thorough { format!("all {} C++20 keywords and {} generator-reserved identifiers {:?} x {} name positions x import/export: one world per (position, direction) containing every name of the list (one world per name for world / package / namespace names); failing batches are re-run one name at a time", CPP_KEYWORDS.len(), RESERVED.len(), RESERVED, POSITIONS.len()) } else { format!("the 10 keywords {:?} in one world per (position, direction), {} name positions x import/export (one keyword for world / package / namespace names), plus the multi-word keywords {:?} as record fields (import), parameters (export), interface names (import) and namespace (export); failing batches are re-run one keyword at a time", &CPP_KEYWORDS[..10], POSITIONS.len(), QUICK_MULTIWORD) },
            "cross_package_use": format!("{} worlds: a using interface `use`s record / enum / resource types of another package while its namespace | package | interface name equals the used side's namespace | package | interface name ({}), x {}", crosspkg.len(), if thorough { "all 9 level pairs" } else { "the 6 different-level pairs" }, "import / export / export with the used interface exported too"),
            "collisions": format!("{} of {} catalogue worlds (mangling collisions{})", n_collision_run, collisions.len(), if thorough { "" } else { "; quick skips the import-only variants" }),
        },
        "positions": POSITIONS,
        "worlds": {"cross_package_use": crosspkg.len(), "corpus": n_corpus_run, "keyword": kw_worlds, "collision": n_collision_run, "minimisation_reruns": extra_cases.len()},
        "distinct_outcomes": class_counts,
        "kinds_with_a_compiled_world": kinds_compiled.len(),
        "generated_cpp_lines_compiled": total_lines,
        "generator_err": gen_errs,
        "generator_panic_belongs_to_C16": gen_panics,
        "exclusion_table": excluded,
        "exclusion_exception": EXCEPT_1598,
        "compiler": format!("g++ -I <out> {} <out>/<world>.cpp (LC_ALL=C)", cxx.args.join(" ")),
        "data_model": cxx.mode,
        "samples": samples.items,
    });
    let assumptions = vec![
        "The repository compiles generated C++ with wasm32-wasip2-clang++ (-Wall -Wextra -Werror -Wc++-compat -Wno-unused-parameter -std=c++20 -c, crates/test/src/cpp.rs::verify); no wasm C++ toolchain exists in this sandbox, so the oracle is g++ -std=c++20 -fsyntax-only -fno-exceptions with the same include directories. Warnings are not errors (the statement says 'type-check'). The generated code assumes 32-bit pointers (`(int32_t) ptr`), so g++ runs with -m32 (ILP32; two extra -isystem dirs and an empty gnu/stubs-32.h stand in for the missing multilib, which is enough for -fsyntax-only); if -m32 is unusable the check falls back to LP64 with -fpermissive and ignores only the 'cast ... loses precision' diagnostic. `data_model` in coverage says which mode ran.".to_string(),
        "-D_GLIBCXX_USE_DEPRECATED=0 removes libstdc++'s pre-C++17 `std::unexpected()` (not part of C++20; absent from libc++), which otherwise clashes with `using ::tl::unexpected` in crates/cpp/test_headers/expected; that clash is a host-library artefact, not generated code.".to_string(),
        "Exclusions are exactly those of crates/test/src/cpp.rs::should_fail_verify (pinned text; the check exits 2 if that function changes): `//@ async = true` files except issue-1598.wit, issue1514-6.wit, named-fixed-length-list.wit. Enumerated worlds use none of those features (no async, no future/stream/error-context, no fixed-length list, no variant case named like its variant).".to_string(),
        "A generator Err is counted, not a violation; a generator panic is printed and counted (C16's business).".to_string(),
        "Only the main `<world>.cpp` translation unit is compiled (it includes the generated headers), as the repository's verify step does.".to_string(),
    ];
    run.finish(coverage, assumptions);
}
