//! C30 — MoonBit output forms a consistent package graph.
//!
//! Space: worlds with n interfaces (quick n = 2..3, thorough n = 2..5) spread over 1..3 WIT packages
//! taken from a pool of kebab-case / versioned / same-name-different-namespace package ids, interface
//! names from a pool in which last path segments coincide (and one that looks like a de-duplicated
//! alias), every interface defining a record + a function and optionally using the record types of
//! earlier interfaces, each interface imported / exported / both, with or without world-level
//! functions over the interfaces' types; x {sync, `--async=all`}.
//!
//! Oracle (from the statement, on the generated files only): every directory with a `moon.pkg.json`
//! is a package; every `@alias.` used in one of its `.mbt` files (string literals, comments and
//! `#|` lines skipped) is declared in its import list; aliases are unique within a package and no
//! package path is imported twice; every imported path is `<moon.mod.json name>/<dir>` of a generated
//! package (or a `moonbitlang/core/` standard-library package); the symbol named after `@alias.` is
//! defined in the package the alias maps to; every interface of the world has a package directory
//! whose path spells the WIT namespace / package / interface names unchanged (kebab case kept,
//! optional de-duplication digits at the end).

use e7_text::*;
use serde_json::{json, Value};
use std::collections::{BTreeMap, BTreeSet};
use wit_bindgen_core::wit_parser::{Resolve, WorldId, WorldItem, WorldKey};

// ---------------------------------------------------------------------------------------------
// World enumeration
// ---------------------------------------------------------------------------------------------

/// (namespace, name, version)
const PKG_POOL: &[(&str, &str, &str)] = &[
    ("my-ns", "my-pkg", ""),
    ("my-ns", "other-pkg", "1.2.3"),
    ("other-ns", "my-pkg", ""),
    ("my-ns", "other-pkg", "2.0.0"),
];
const NAME_POOL: &[&str] = &["types", "leaf-interface", "types0"];
const WORLD_PKG: (&str, &str) = ("my-ns", "world-pkg");
const WORLD_NAME: &str = "http-proxy";

#[derive(Clone, Debug, PartialEq)]
struct Iface {
    pkg: usize,
    name: usize,
    /// indices of earlier interfaces whose record type this one uses
    uses: Vec<usize>,
    /// 0 import, 1 export, 2 both
    dir: u8,
}

#[derive(Clone, Debug)]
struct Spec {
    ifaces: Vec<Iface>,
    world_funcs: bool,
    async_all: bool,
}

fn pkg_id(p: usize) -> String {
    let (ns, n, v) = PKG_POOL[p];
    if v.is_empty() {
        format!("{ns}:{n}")
    } else {
        format!("{ns}:{n}@{v}")
    }
}

fn iface_path(i: &Iface) -> String {
    let (ns, n, v) = PKG_POOL[i.pkg];
    let name = NAME_POOL[i.name];
    if v.is_empty() {
        format!("{ns}:{n}/{name}")
    } else {
        format!("{ns}:{n}/{name}@{v}")
    }
}

/// WIT texts, dependency packages first (interfaces only use earlier interfaces and are sorted
/// by package index, so the package order is a topological order), the world's package last.
fn build_wit(spec: &Spec) -> Vec<(String, String)> {
    let mut out = Vec::new();
    let mut pkgs: Vec<usize> = spec.ifaces.iter().map(|i| i.pkg).collect();
    pkgs.dedup();
    for p in pkgs {
        let mut text = format!("package {};\n\n", pkg_id(p));
        for (k, i) in spec.ifaces.iter().enumerate().filter(|(_, i)| i.pkg == p) {
            text += &format!("/// interface number {k}\ninterface {} {{\n", NAME_POOL[i.name]);
            for &j in &i.uses {
                let dep = &spec.ifaces[j];
                if dep.pkg == p {
                    text += &format!("  use {}.{{t-{j}}};\n", NAME_POOL[dep.name]);
                } else {
                    text += &format!("  use {}.{{t-{j}}};\n", iface_path(dep));
                }
            }
            text += &format!("  record t-{k} {{\n    x: u32,\n");
            for &j in &i.uses {
                text += &format!("    dep-{j}: t-{j},\n");
            }
            text += "  }\n";
            text += &format!("  enum e-{k} {{ a, b }}\n");
            let mut params = format!("a: t-{k}, e: e-{k}");
            for &j in &i.uses {
                params += &format!(", b-{j}: t-{j}");
            }
            text += &format!("  f-{k}: func({params}) -> t-{k};\n");
            text += "}\n\n";
        }
        out.push((format!("p{p}.wit"), text));
    }
    let mut w = format!("package {}:{};\n\nworld {WORLD_NAME} {{\n", WORLD_PKG.0, WORLD_PKG.1);
    for i in &spec.ifaces {
        if i.dir == 0 || i.dir == 2 {
            w += &format!("  import {};\n", iface_path(i));
        }
        if i.dir == 1 || i.dir == 2 {
            w += &format!("  export {};\n", iface_path(i));
        }
    }
    if spec.world_funcs {
        for (k, i) in spec.ifaces.iter().enumerate() {
            w += &format!("  use {}.{{t-{k}}};\n", iface_path(i));
        }
        let params = (0..spec.ifaces.len())
            .map(|k| format!("p-{k}: t-{k}"))
            .collect::<Vec<_>>()
            .join(", ");
        let last = spec.ifaces.len() - 1;
        w += &format!("  import world-in: func({params}) -> t-{last};\n");
        w += &format!("  export world-out: func({params}) -> t-0;\n");
    }
    w += "}\n";
    out.push(("world.wit".into(), w));
    out
}

fn enumerate(thorough: bool) -> (Vec<Spec>, Value) {
    let max_n = if thorough { 5 } else { 3 };
    let mut specs = Vec::new();
    let mut per_n = BTreeMap::new();
    for n in 2..=max_n {
        // (pkg, name) assignments: package indices non-decreasing, at most 3 distinct packages,
        // (pkg, name) pairs distinct; for n = 5 only the first two names (keeps the space small)
        let names = if n >= 5 { 2 } else { NAME_POOL.len() };
        let mut assigns: Vec<Vec<(usize, usize)>> = vec![vec![]];
        for _ in 0..n {
            let mut next = Vec::new();
            for a in &assigns {
                let lo = a.last().map(|x| x.0).unwrap_or(0);
                for p in lo..PKG_POOL.len() {
                    for nm in 0..names {
                        if a.contains(&(p, nm)) {
                            continue;
                        }
                        let mut b = a.clone();
                        b.push((p, nm));
                        let distinct: BTreeSet<usize> = b.iter().map(|x| x.0).collect();
                        if distinct.len() <= 3 {
                            next.push(b);
                        }
                    }
                }
            }
            assigns = next;
        }
        // uses patterns
        let use_patterns: Vec<Vec<Vec<usize>>> = if n <= 3 && thorough {
            // every subset of earlier interfaces for every interface
            let mut pats: Vec<Vec<Vec<usize>>> = vec![vec![]];
            for i in 0..n {
                let mut next = Vec::new();
                for p in &pats {
                    for mask in 0..(1u32 << i) {
                        let mut q = p.clone();
                        q.push((0..i).filter(|j| mask & (1 << j) != 0).collect());
                        next.push(q);
                    }
                }
                pats = next;
            }
            pats
        } else {
            vec![
                (0..n).map(|_| vec![]).collect(),                                  // none
                (0..n).map(|i| if i > 0 { vec![i - 1] } else { vec![] }).collect(), // chain
                (0..n).map(|i| (0..i).collect()).collect(),                        // all earlier
                (0..n).map(|i| if i > 0 { vec![0] } else { vec![] }).collect(),     // star: everyone uses the first
            ]
        };
        let mut use_patterns = use_patterns;
        use_patterns.sort();
        use_patterns.dedup();
        let dir_patterns: Vec<Vec<u8>> = vec![
            vec![0; n],
            vec![1; n],
            vec![2; n],
            (0..n).map(|i| (i % 2) as u8).collect(),
            (0..n).map(|i| ((i + 1) % 2) as u8).collect(),
        ];
        let before = specs.len();
        for a in &assigns {
            for u in &use_patterns {
                for d in &dir_patterns {
                    for world_funcs in [false, true] {
                        for async_all in [false, true] {
                            specs.push(Spec {
                                ifaces: (0..n)
                                    .map(|i| Iface { pkg: a[i].0, name: a[i].1, uses: u[i].clone(), dir: d[i] })
                                    .collect(),
                                world_funcs,
                                async_all,
                            });
                        }
                    }
                }
            }
        }
        per_n.insert(
            n.to_string(),
            json!({"name_assignments": assigns.len(), "use_patterns": use_patterns.len(), "dir_patterns": dir_patterns.len(), "worlds": specs.len() - before}),
        );
    }
    (specs, json!(per_n))
}

// ---------------------------------------------------------------------------------------------
// Scanning generated MoonBit
// ---------------------------------------------------------------------------------------------

/// `@alias.Symbol` uses outside comments, string / char literals and `#|` / `$|` lines.
fn scan_uses(src: &str) -> Vec<(String, String)> {
    let mut out = Vec::new();
    for line in src.lines() {
        let t = line.trim_start();
        if t.starts_with("#|") || t.starts_with("$|") {
            continue;
        }
        let b = line.as_bytes();
        let mut i = 0;
        while i < b.len() {
            match b[i] {
                b'/' if i + 1 < b.len() && b[i + 1] == b'/' => break,
                b'"' => {
                    i += 1;
                    while i < b.len() && b[i] != b'"' {
                        if b[i] == b'\\' {
                            i += 1;
                        }
                        i += 1;
                    }
                    i += 1;
                }
                b'\'' => {
                    // char literal: 'x', '\n', '\u{..}'
                    if i + 1 < b.len() && b[i + 1] == b'\\' {
                        i += 2;
                        while i < b.len() && b[i] != b'\'' {
                            i += 1;
                        }
                        i += 1;
                    } else {
                        // one (possibly multi-byte) character followed by a quote
                        let rest = &line[i + 1..];
                        let mut cs = rest.char_indices();
                        match (cs.next(), cs.next()) {
                            (Some(_), Some((k, '\''))) => i += 1 + k + 1,
                            _ => i += 1,
                        }
                    }
                }
                b'@' => {
                    let s = i + 1;
                    let mut j = s;
                    while j < b.len() && (b[j].is_ascii_alphanumeric() || b[j] == b'_' || b[j] == b'-' || b[j] == b'/') {
                        j += 1;
                    }
                    if j > s && j < b.len() && b[j] == b'.' {
                        let alias = line[s..j].to_string();
                        let ss = j + 1;
                        let mut k = ss;
                        while k < b.len() && (b[k].is_ascii_alphanumeric() || b[k] == b'_') {
                            k += 1;
                        }
                        out.push((alias, line[ss..k].to_string()));
                        i = k;
                    } else {
                        i = j.max(i + 1);
                    }
                }
                _ => i += 1,
            }
        }
    }
    out
}

/// Is `sym` defined at top level in this MoonBit source (type, function, constant, trait...)?
fn defines(src: &str, sym: &str) -> bool {
    const MODS: &[&str] = &["pub(all)", "pub(open)", "pub(readonly)", "pub", "priv", "async", "extern \"wasm\"", "extern \"js\"", "extern \"C\""];
    const KWS: &[&str] = &["struct", "enum", "typealias", "type!", "type", "traitalias", "trait", "suberror", "fnalias", "fn", "let", "const"];
    for line in src.lines() {
        let mut t = line.trim_start();
        if t.starts_with("//") {
            continue;
        }
        loop {
            let mut stripped = false;
            for m in MODS {
                if let Some(r) = t.strip_prefix(m) {
                    if r.starts_with(' ') {
                        t = r.trim_start();
                        stripped = true;
                    }
                }
            }
            if !stripped {
                break;
            }
        }
        let Some(rest) = KWS.iter().find_map(|k| {
            t.strip_prefix(k).filter(|r| r.starts_with(' ') || r.starts_with('['))
        }) else {
            continue;
        };
        let mut rest = rest.trim_start();
        // generic parameters before the name: `fn[X] name`
        if rest.starts_with('[') {
            let mut depth = 0;
            let mut end = rest.len();
            for (i, c) in rest.char_indices() {
                match c {
                    '[' => depth += 1,
                    ']' => {
                        depth -= 1;
                        if depth == 0 {
                            end = i + 1;
                            break;
                        }
                    }
                    _ => {}
                }
            }
            rest = rest[end..].trim_start();
        }
        let name: String = rest
            .chars()
            .take_while(|c| c.is_alphanumeric() || *c == '_' || *c == ':')
            .collect();
        // `fn Type::method` defines `Type::method`, not a top-level `method`
        if name == sym {
            return true;
        }
    }
    false
}

struct Package {
    dir: String,
    /// (path, alias)
    imports: Vec<(String, String)>,
    mbt: Vec<(String, String)>,
}

fn parse_packages(files: &FileMap) -> Result<(String, Vec<Package>, Vec<(String, String)>), String> {
    let project = match files.get("moon.mod.json") {
        Some(b) => {
            let v: Value = serde_json::from_slice(b).map_err(|e| format!("moon.mod.json: {e}"))?;
            v["name"].as_str().ok_or("moon.mod.json without name")?.to_string()
        }
        None => return Err("moon.mod.json not generated".into()),
    };
    let mut pkgs: BTreeMap<String, Package> = BTreeMap::new();
    for (name, bytes) in files {
        if let Some(dir) = name.strip_suffix("/moon.pkg.json").or(if name == "moon.pkg.json" { Some("") } else { None }) {
            let v: Value = serde_json::from_slice(bytes).map_err(|e| format!("{name}: not JSON: {e}"))?;
            let mut imports = Vec::new();
            if let Some(arr) = v.get("import") {
                let arr = arr.as_array().ok_or(format!("{name}: import is not an array"))?;
                for e in arr {
                    if let Some(p) = e.as_str() {
                        imports.push((p.to_string(), p.rsplit('/').next().unwrap_or(p).to_string()));
                    } else {
                        let p = e["path"].as_str().ok_or(format!("{name}: import without path"))?;
                        let a = e["alias"]
                            .as_str()
                            .map(|s| s.to_string())
                            .unwrap_or_else(|| p.rsplit('/').next().unwrap_or(p).to_string());
                        imports.push((p.to_string(), a));
                    }
                }
            }
            pkgs.insert(dir.to_string(), Package { dir: dir.to_string(), imports, mbt: Vec::new() });
        }
    }
    let mut orphans = Vec::new();
    for (name, bytes) in files {
        if name.ends_with(".mbt") {
            let dir = name.rsplit_once('/').map(|x| x.0).unwrap_or("");
            let text = String::from_utf8_lossy(bytes).into_owned();
            match pkgs.get_mut(dir) {
                Some(p) => p.mbt.push((name.clone(), text)),
                None => orphans.push((name.clone(), text)),
            }
        }
    }
    Ok((project, pkgs.into_values().collect(), orphans))
}

/// Standard-library packages that are not part of the generated output. Only
/// `crates/moonbit/src/async/moon.pkg.json` (copied verbatim to `async-core/moon.pkg.json`)
/// imports them: `moonbitlang/core/{deque,ref,set}`; `moonbitlang/core` is the MoonBit standard
/// library module shipped with the toolchain.
const EXTERNAL_PREFIXES: &[&str] = &["moonbitlang/core/"];

fn digits_suffix_of(base: &str, dir: &str) -> bool {
    dir.strip_prefix(base)
        .map(|rest| rest.chars().all(|c| c.is_ascii_digit()))
        .unwrap_or(false)
}

/// injective assignment of expected base paths to generated package dirs (tiny backtracking)
fn match_dirs(expected: &[String], dirs: &[String], used: &mut Vec<bool>, k: usize) -> bool {
    if k == expected.len() {
        return true;
    }
    for (i, d) in dirs.iter().enumerate() {
        if !used[i] && digits_suffix_of(&expected[k], d) {
            used[i] = true;
            if match_dirs(expected, dirs, used, k + 1) {
                return true;
            }
            used[i] = false;
        }
    }
    false
}

struct Outcome {
    /// (key, what)
    items: Vec<(String, String)>,
    generator: String,
    packages: usize,
    uses: usize,
    cross_edges: usize,
    max_alias_suffix: bool,
}

/// expected package directories, from the WIT names of the (elaborated) world's items alone
fn expected_dirs(resolve: &Resolve, world: WorldId) -> Vec<String> {
    let w = &resolve.worlds[world];
    let mut v = Vec::new();
    let mut export_funcs = false;
    for (prefix, items) in [("", &w.imports), ("gen/", &w.exports)] {
        for (key, item) in items.iter() {
            match (key, item) {
                (WorldKey::Interface(id), WorldItem::Interface { .. }) => {
                    let iface = &resolve.interfaces[*id];
                    let pkg = &resolve.packages[iface.package.unwrap()].name;
                    v.push(format!(
                        "{prefix}interface/{}/{}/{}",
                        pkg.namespace,
                        pkg.name,
                        iface.name.as_deref().unwrap_or("")
                    ));
                }
                (WorldKey::Name(n), WorldItem::Interface { .. }) => v.push(format!("{prefix}interface/{n}")),
                (_, WorldItem::Function(_)) if !prefix.is_empty() => export_funcs = true,
                _ => {}
            }
        }
    }
    v.push(format!("world/{}", w.name));
    if export_funcs {
        v.push(format!("gen/world/{}", w.name));
    }
    v
}

fn check(spec: &Spec, dump: bool) -> Outcome {
    let texts = build_wit(spec);
    let input = Input::Texts(texts.clone());
    let mut o = Outcome { items: vec![], generator: String::new(), packages: 0, uses: 0, cross_edges: 0, max_alias_suffix: false };
    let (mut resolve, world) = match parse(&input, Some(WORLD_NAME)) {
        Ok(x) => x,
        Err(m) => {
            // some import/export mixes are rejected by wit-parser ("transitively depends on an
            // interface in incompatible ways"): outside the property's domain, counted
            o.generator = "invalid-world".into();
            let m = m.replace(|c: char| c.is_ascii_digit(), "N");
            let m = match m.find("interface `") {
                Some(i) => match m[i + 11..].find('`') {
                    Some(j) => format!("{}interface `_`{}", &m[..i], &m[i + 11 + j + 1..]),
                    None => m,
                },
                None => m,
            };
            o.items.push((String::new(), m));
            return o;
        }
    };
    let expected = expected_dirs(&resolve, world);
    let gen = generate_resolved(&mut resolve, world, &Backend::MoonBit { async_all: spec.async_all });
    o.generator = gen.class().to_string();
    let files = match gen {
        Gen::Ok(f) => f,
        Gen::Invalid(m) => vcommon::machinery(&format!("C30 enumerated world is not valid WIT: {m}\n{texts:?}")),
        Gen::Err(m) | Gen::Panic(m) => {
            o.items.push((String::new(), m));
            return o;
        }
    };
    if dump {
        for (n, b) in &files {
            if n.ends_with("moon.pkg.json") || n.ends_with("moon.mod.json") {
                println!("=== {n}\n{}", String::from_utf8_lossy(b));
            } else {
                println!("=== {n} ({} bytes)", b.len());
                if n.ends_with(".mbt") {
                    for u in scan_uses(&String::from_utf8_lossy(b)) {
                        println!("      @{}.{}", u.0, u.1);
                    }
                }
            }
        }
    }
    let (project, pkgs, orphans) = match parse_packages(&files) {
        Ok(x) => x,
        Err(e) => {
            o.items.push((format!("unparsable:{e}"), e));
            return o;
        }
    };
    o.packages = pkgs.len();
    let dirs: BTreeSet<&str> = pkgs.iter().map(|p| p.dir.as_str()).collect();
    let by_dir: BTreeMap<&str, &Package> = pkgs.iter().map(|p| (p.dir.as_str(), p)).collect();
    let kind_of = |dir: &str| -> String {
        // position of a package in the graph, without the enumerated names
        let d = dir;
        if d == "gen" {
            "gen".into()
        } else if d.starts_with("gen/interface/") {
            "export-interface".into()
        } else if d.starts_with("interface/") {
            "import-interface".into()
        } else if d.starts_with("gen/world/") {
            "export-world".into()
        } else if d.starts_with("world/") {
            "import-world".into()
        } else {
            d.to_string()
        }
    };
    for (name, text) in &orphans {
        let uses = scan_uses(text);
        if let Some((a, _)) = uses.first() {
            o.items.push((
                format!("no-package-file:{}", name.rsplit_once('/').map(|x| x.0).unwrap_or("")),
                format!("{name} uses @{a}. but its directory has no moon.pkg.json"),
            ));
        }
    }
    for p in &pkgs {
        let kind = kind_of(&p.dir);
        // R1 / R2
        let mut by_alias: BTreeMap<&str, Vec<&str>> = BTreeMap::new();
        let mut by_path: BTreeMap<&str, usize> = BTreeMap::new();
        for (path, alias) in &p.imports {
            by_alias.entry(alias.as_str()).or_default().push(path.as_str());
            *by_path.entry(path.as_str()).or_insert(0) += 1;
        }
        for (alias, paths) in &by_alias {
            if paths.len() > 1 {
                o.items.push((
                    format!("duplicate-alias:{kind}"),
                    format!("package {} declares alias {alias:?} {} times: {paths:?}", p.dir, paths.len()),
                ));
            }
            if alias.chars().last().map(|c| c.is_ascii_digit()).unwrap_or(false) {
                o.max_alias_suffix = true;
            }
        }
        for (path, c) in &by_path {
            if *c > 1 {
                o.items.push((
                    format!("duplicate-import:{kind}"),
                    format!("package {} imports {path:?} {c} times", p.dir),
                ));
            }
        }
        // R3
        let mut alias_dir: BTreeMap<&str, Option<&str>> = BTreeMap::new();
        for (path, alias) in &p.imports {
            let local = path.strip_prefix(&format!("{project}/"));
            match local {
                Some(d) if dirs.contains(d) => {
                    alias_dir.insert(alias.as_str(), Some(d));
                    if d != p.dir {
                        o.cross_edges += 1;
                    }
                }
                _ if EXTERNAL_PREFIXES.iter().any(|e| path.starts_with(e)) => {
                    alias_dir.insert(alias.as_str(), None);
                }
                _ => {
                    alias_dir.insert(alias.as_str(), None);
                    o.items.push((
                        format!("missing-package:{kind}"),
                        format!("package {} imports {path:?}, which is neither a generated package of project {project:?} nor a moonbitlang/core package", p.dir),
                    ));
                }
            }
        }
        // R4 / R5
        for (fname, text) in &p.mbt {
            for (alias, sym) in scan_uses(text) {
                o.uses += 1;
                match alias_dir.get(alias.as_str()) {
                    None => o.items.push((
                        format!("undeclared-alias:{kind}"),
                        format!("{fname} uses @{alias}.{sym} but {}/moon.pkg.json does not declare alias {alias:?} (declared: {:?})", p.dir, p.imports),
                    )),
                    Some(Some(d)) => {
                        let target = by_dir[d];
                        if !sym.is_empty() && by_alias[alias.as_str()].len() == 1 && !target.mbt.iter().any(|(_, t)| defines(t, &sym)) {
                            o.items.push((
                                format!("unresolved-symbol:{kind}"),
                                format!("{fname} uses @{alias}.{sym}; alias {alias:?} maps to package {d:?}, which does not define {sym}"),
                            ));
                        }
                    }
                    Some(None) => {}
                }
            }
        }
    }
    // R6 kebab-case preserved / every interface has its package
    let dir_list: Vec<String> = dirs.iter().map(|s| s.to_string()).collect();
    let mut used = vec![false; dir_list.len()];
    if !match_dirs(&expected, &dir_list, &mut used, 0) {
        // name the first expected dir that has no candidate at all, else the whole set
        let lone = expected.iter().find(|e| !dir_list.iter().any(|d| digits_suffix_of(e, d)));
        let kind = lone.map(|e| kind_of(e)).unwrap_or_else(|| "assignment".into());
        o.items.push((
            format!("package-path:{kind}"),
            format!(
                "expected one package directory per world item spelling the WIT names unchanged: {expected:?}; generated package directories: {dir_list:?}{}",
                lone.map(|e| format!("; nothing matches {e:?}")).unwrap_or_default()
            ),
        ));
    }
    if project != format!("{}/{}", WORLD_PKG.0, WORLD_PKG.1) {
        o.items.push((
            "project-name".into(),
            format!("moon.mod.json name {project:?} does not spell the world's package {}:{}", WORLD_PKG.0, WORLD_PKG.1),
        ));
    }
    o
}

fn spec_to_json(s: &Spec) -> Value {
    json!({
        "ifaces": s.ifaces.iter().map(|i| json!({"pkg": i.pkg, "name": i.name, "uses": i.uses, "dir": i.dir})).collect::<Vec<_>>(),
        "world_funcs": s.world_funcs,
        "async_all": s.async_all,
    })
}

fn spec_from_json(v: &Value) -> Spec {
    Spec {
        ifaces: v["ifaces"]
            .as_array()
            .unwrap_or_else(|| vcommon::machinery("replay: no ifaces"))
            .iter()
            .map(|i| Iface {
                pkg: i["pkg"].as_u64().unwrap() as usize,
                name: i["name"].as_u64().unwrap() as usize,
                uses: i["uses"].as_array().unwrap().iter().map(|x| x.as_u64().unwrap() as usize).collect(),
                dir: i["dir"].as_u64().unwrap() as u8,
            })
            .collect(),
        world_funcs: v["world_funcs"].as_bool().unwrap_or(false),
        async_all: v["async_all"].as_bool().unwrap_or(false),
    }
}

fn describe(s: &Spec) -> String {
    let is = s
        .ifaces
        .iter()
        .map(|i| {
            format!(
                "{}{}{}",
                ["import ", "export ", "import+export "][i.dir as usize],
                iface_path(i),
                if i.uses.is_empty() { String::new() } else { format!(" uses {:?}", i.uses) }
            )
        })
        .collect::<Vec<_>>()
        .join("; ");
    format!("{is}; world funcs={} async={}", s.world_funcs, s.async_all)
}

fn main() {
    let mut run = vcommon::Run::from_args("C30", "exploration");
    vcommon::install_quiet_panic_hook();
    tune_malloc();

    if let Some(d) = run.replay_detail() {
        let spec = spec_from_json(&d["spec"]);
        for (n, t) in build_wit(&spec) {
            println!("--- {n}\n{t}");
        }
        println!("options: {}", if spec.async_all { "--async=all" } else { "(sync)" });
        let dump = run.extra_args.iter().any(|a| a == "--dump");
        let o = check(&spec, dump);
        println!("generator: {}", o.generator);
        for (k, w) in &o.items {
            println!("FAILS {k}: {w}");
        }
        let want = d["key"].as_str().unwrap_or("");
        let still = o.generator == "ok" && o.items.iter().any(|(k, _)| want.is_empty() || k == want);
        println!("replay: {}", if still { "STILL FAILS" } else { "does not fail" });
        std::process::exit(if still { 1 } else { 0 });
    }

    let (mut specs, per_n) = enumerate(run.thorough());
    rotate(&mut specs, run.seed);
    let n = specs.len();
    let workers = vcommon::ncpu().min(16);
    let chunk = 128usize;
    let nchunks = (n + chunk - 1) / chunk;
    let results = vcommon::par_map(nchunks, workers, |c| {
        let mut items: Vec<Value> = Vec::new();
        let mut seen = BTreeSet::new();
        let mut gen: BTreeMap<String, usize> = BTreeMap::new();
        let mut gen_msgs: BTreeMap<String, usize> = BTreeMap::new();
        let (mut packages, mut uses, mut edges, mut suffixed) = (0usize, 0usize, 0usize, 0usize);
        let mut shapes = BTreeSet::new();
        for i in c * chunk..((c + 1) * chunk).min(n) {
            let o = check(&specs[i], false);
            *gen.entry(o.generator.clone()).or_insert(0) += 1;
            if o.generator != "ok" {
                for (_, m) in &o.items {
                    *gen_msgs.entry(format!("{}: {}", o.generator, m.chars().take(160).collect::<String>())).or_insert(0) += 1;
                }
                continue;
            }
            packages += o.packages;
            uses += o.uses;
            edges += o.cross_edges;
            if o.max_alias_suffix {
                suffixed += 1;
            }
            if o.cross_edges > 0 {
                shapes.insert(format!("{}p/{}e/{}", o.packages, o.cross_edges, if o.max_alias_suffix { "dedup" } else { "plain" }));
            }
            for (k, w) in o.items {
                if seen.insert(k.clone()) {
                    items.push(json!({"key": k, "what": w, "spec": i}));
                }
            }
        }
        json!({"items": items, "gen": gen, "gen_msgs": gen_msgs, "packages": packages, "uses": uses, "edges": edges, "suffixed": suffixed, "shapes": shapes})
    });

    let mut gen: BTreeMap<String, u64> = BTreeMap::new();
    let mut gen_msgs: BTreeMap<String, u64> = BTreeMap::new();
    let (mut packages, mut uses, mut edges, mut suffixed) = (0u64, 0u64, 0u64, 0u64);
    let mut shapes: BTreeSet<String> = BTreeSet::new();
    // keep, per key, the violation with the smallest world
    let mut best: BTreeMap<String, (usize, String)> = BTreeMap::new();
    for r in &results {
        for (k, v) in r["gen"].as_object().unwrap() {
            *gen.entry(k.clone()).or_insert(0) += v.as_u64().unwrap_or(0);
        }
        for (k, v) in r["gen_msgs"].as_object().unwrap() {
            *gen_msgs.entry(k.clone()).or_insert(0) += v.as_u64().unwrap_or(0);
        }
        packages += r["packages"].as_u64().unwrap_or(0);
        uses += r["uses"].as_u64().unwrap_or(0);
        edges += r["edges"].as_u64().unwrap_or(0);
        suffixed += r["suffixed"].as_u64().unwrap_or(0);
        for s in r["shapes"].as_array().unwrap() {
            shapes.insert(s.as_str().unwrap().to_string());
        }
        for it in r["items"].as_array().unwrap() {
            let i = it["spec"].as_u64().unwrap() as usize;
            let key = it["key"].as_str().unwrap().to_string();
            let size = specs[i].ifaces.len() * 100
                + specs[i].ifaces.iter().map(|x| x.uses.len()).sum::<usize>() * 10
                + specs[i].world_funcs as usize * 5
                + specs[i].async_all as usize;
            let better = best.get(&key).map(|(_, _)| {
                let (j, _) = &best[&key];
                let sj = specs[*j].ifaces.len() * 100
                    + specs[*j].ifaces.iter().map(|x| x.uses.len()).sum::<usize>() * 10
                    + specs[*j].world_funcs as usize * 5
                    + specs[*j].async_all as usize;
                size < sj
            });
            if better != Some(false) {
                best.insert(key, (i, it["what"].as_str().unwrap_or("").to_string()));
            }
        }
    }
    for (key, (i, what)) in &best {
        run.violation(
            key,
            &format!("{what} [{}]", describe(&specs[*i])),
            json!({"spec": spec_to_json(&specs[*i]), "key": key, "wit": build_wit(&specs[*i]), "case": describe(&specs[*i])}),
        );
    }
    if gen.get("ok").copied().unwrap_or(0) == 0 {
        vcommon::machinery("the MoonBit generator produced no output for any world");
    }
    for (k, v) in &gen_msgs {
        println!("NOTE (not a C30 verdict): {v} worlds: {k}");
    }
    let mut samples = Vec::new();
    for i in [0usize, 1, n / 3, n / 2, n - 1] {
        samples.push(json!({"case": describe(&specs[i])}));
    }
    let coverage = json!({
        "evaluations": n,
        "distinct_nontrivial": shapes.len(),
        "rule": "distinct (number of generated packages, number of cross-package import edges, whether a de-duplicated alias ending in a digit was needed) among worlds whose output has at least one cross-package import edge",
        "exhaustive": true,
        "bounds": {
            "interfaces": if run.thorough() { "2..=5" } else { "2..=3" },
            "package_pool": PKG_POOL.iter().enumerate().map(|(i, _)| pkg_id(i)).collect::<Vec<_>>(),
            "interface_names": NAME_POOL,
            "world": format!("{}:{}/{}", WORLD_PKG.0, WORLD_PKG.1, WORLD_NAME),
            "constraints": "package indices non-decreasing over the interface list, at most 3 distinct packages, (package, name) pairs distinct; n = 5 uses the first two interface names only",
            "uses": if run.thorough() { "n <= 3: every subset of earlier interfaces per interface; n >= 4: none / chain / all earlier / star" } else { "none / chain / all earlier / star" },
            "directions": "all import / all export / all import+export / alternating (two phases)",
            "world_level_funcs": [false, true],
            "variants": ["sync", "--async=all"],
            "per_n": per_n,
        },
        "packages_checked": packages,
        "alias_uses_checked": uses,
        "cross_package_import_edges": edges,
        "worlds_needing_deduplicated_alias": suffixed,
        "distinct_outcomes": gen,
        "generator_refusals": gen_msgs,
        "samples": samples,
    });
    let assumptions = vec![
        "A MoonBit package is a directory containing moon.pkg.json; its sources are the .mbt files directly in it. `@alias.` is recognised as `@` + [A-Za-z0-9_/-]+ + `.` outside `//` comments, string/char literals and `#|`/`$|` multi-line string lines.".to_string(),
        "External packages are whitelisted by prefix `moonbitlang/core/` only: they are imported solely by the static async-core/moon.pkg.json (crates/moonbit/src/async/moon.pkg.json: deque, ref, set) and belong to MoonBit's standard library, which is never part of generated output.".to_string(),
        "'Kebab-case preserved': the namespace, package and interface names of every world item appear unchanged as the path segments `[gen/]interface/<ns>/<pkg>/<iface>` (a trailing de-duplication number is allowed, e.g. for two versions of one package), the world as `[gen/]world/<world>`, and moon.mod.json's name is `<ns>/<pkg>` of the world's package. Versions are not part of paths (the generator never writes them), so they are not demanded.".to_string(),
        "The symbol check (`@alias.Sym` must be defined in the package the alias maps to) is how 'declares every package it *references*' is decided when two packages share a last path segment; a symbol counts as defined if a top-level struct/enum/type/fn/let/const/trait line names it.".to_string(),
        "Generator options mirror the CLI defaults plus the repository's codegen-test flags (gen_dir=gen, --derive-*); --ignore-stub / --ignore-module-file / --project-name are not varied.".to_string(),
    ];
    run.finish(coverage, assumptions);
}
