//! E7 (text backends): shared in-process driver for the markdown, MoonBit and C++ generators.
//!
//! Every check in this crate parses WIT text with the repository's own `wit_parser`
//! (re-exported by `wit-bindgen-core`), selects a world and runs the real backend
//! (`Opts::build()` + `WorldGenerator::generate`) exactly like `src/bin/wit-bindgen.rs`
//! does (`gen_world`), only without touching the file system.

use std::collections::BTreeMap;
use std::path::PathBuf;
use wit_bindgen_core::wit_parser::{Resolve, WorldId};
use wit_bindgen_core::Files;

/// One WIT input: packages are pushed in order (dependencies first), the last one is the
/// "main" package whose world is selected.
#[derive(Clone, Debug)]
pub enum Input {
    /// `(file name, WIT text)` pushed with `Resolve::push_str`, in order.
    Texts(Vec<(String, String)>),
    /// A file or directory pushed with `Resolve::push_path` (tests/codegen corpus).
    Path(PathBuf),
}

#[derive(Clone, Debug)]
pub enum Backend {
    Markdown { html_in_md: bool },
    MoonBit { async_all: bool },
    Cpp { out_dir: PathBuf },
}

pub type FileMap = BTreeMap<String, Vec<u8>>;

#[derive(Debug)]
pub enum Gen {
    Ok(FileMap),
    /// WIT did not parse / world not selectable: the *input* is outside the property's domain.
    Invalid(String),
    /// `generate` returned `Err` (declared refusal; not a violation of the text properties).
    Err(String),
    /// the generator panicked (belongs to C16; counted and reported, never a verdict here).
    Panic(String),
}

impl Gen {
    pub fn class(&self) -> &'static str {
        match self {
            Gen::Ok(_) => "ok",
            Gen::Invalid(_) => "invalid-input",
            Gen::Err(_) => "generator-err",
            Gen::Panic(_) => "generator-panic",
        }
    }
}

pub fn parse(input: &Input, world: Option<&str>) -> Result<(Resolve, WorldId), String> {
    let mut resolve = Resolve::default();
    let pkg = match input {
        Input::Texts(list) => {
            let mut last = None;
            for (name, text) in list {
                last = Some(
                    resolve
                        .push_str(name, text)
                        .map_err(|e| format!("{name}: {e:#}"))?,
                );
            }
            last.ok_or_else(|| "no input".to_string())?
        }
        Input::Path(p) => resolve.push_path(p).map_err(|e| format!("{e:#}"))?.0,
    };
    let w = match world {
        Some(w) => resolve
            .select_world(&[pkg], Some(w))
            .map_err(|e| format!("{e:#}"))?,
        // same fallback as crates/test/src/lib.rs `codegen_test`
        None => resolve
            .select_world(&[pkg], None)
            .or_else(|err| resolve.select_world(&[pkg], Some("imports")).map_err(|_| err))
            .map_err(|e| format!("{e:#}"))?,
    };
    Ok((resolve, w))
}

fn markdown_opts(html_in_md: bool) -> wit_bindgen_markdown::Opts {
    // `html_in_md` is a private field; build the options the way the CLI does (clap).
    use clap::{Args, FromArgMatches};
    let cmd = wit_bindgen_markdown::Opts::augment_args(clap::Command::new("markdown"));
    let argv: Vec<&str> = if html_in_md {
        vec!["markdown", "--html-in-md"]
    } else {
        vec!["markdown"]
    };
    let m = cmd
        .try_get_matches_from(argv)
        .unwrap_or_else(|e| vcommon::machinery(&format!("markdown opts: {e}")));
    wit_bindgen_markdown::Opts::from_arg_matches(&m)
        .unwrap_or_else(|e| vcommon::machinery(&format!("markdown opts: {e}")))
}

/// Run the real generator. `install_quiet_panic_hook()` must have been called.
pub fn generate_resolved(resolve: &mut Resolve, world: WorldId, backend: &Backend) -> Gen {
    let mut generator = match backend {
        Backend::Markdown { html_in_md } => markdown_opts(*html_in_md).build(),
        Backend::MoonBit { async_all } => {
            // CLI defaults (clap `default_value`): gen_dir = "gen"; codegen tests pass the
            // four --derive-* flags (crates/test/src/moonbit.rs `default_bindgen_args`).
            let mut o = wit_bindgen_moonbit::Opts {
                gen_dir: "gen".into(),
                ..Default::default()
            };
            o.derive.derive_debug = true;
            o.derive.derive_show = true;
            o.derive.derive_eq = true;
            o.derive.derive_error = true;
            if *async_all {
                o.async_ = wit_bindgen_core::AsyncFilterSet::all(true);
            }
            o.build()
        }
        Backend::Cpp { out_dir } => wit_bindgen_cpp::Opts::default().build(Some(out_dir)),
    };
    let mut files = Files::default();
    let r = vcommon::catch(|| generator.generate(resolve, world, &mut files));
    match r {
        Err(p) => Gen::Panic(p),
        Ok(Err(e)) => Gen::Err(format!("{e:#}")),
        Ok(Ok(())) => Gen::Ok(
            files
                .iter()
                .map(|(n, b)| (n.to_string(), b.to_vec()))
                .collect(),
        ),
    }
}

pub fn generate(input: &Input, world: Option<&str>, backend: &Backend) -> Gen {
    let parsed = vcommon::catch(|| parse(input, world));
    let (mut resolve, w) = match parsed {
        Err(p) => return Gen::Invalid(format!("parser panic: {p}")),
        Ok(Err(e)) => return Gen::Invalid(e),
        Ok(Ok(x)) => x,
    };
    generate_resolved(&mut resolve, w, backend)
}

pub fn input_to_json(i: &Input) -> serde_json::Value {
    match i {
        Input::Texts(l) => serde_json::json!({"texts": l}),
        Input::Path(p) => serde_json::json!({"path": p.to_string_lossy()}),
    }
}

pub fn input_from_json(v: &serde_json::Value) -> Input {
    if let Some(p) = v.get("path").and_then(|p| p.as_str()) {
        return Input::Path(PathBuf::from(p));
    }
    let l = v["texts"]
        .as_array()
        .unwrap_or_else(|| vcommon::machinery("replay: no texts"))
        .iter()
        .map(|e| {
            (
                e[0].as_str().unwrap_or("").to_string(),
                e[1].as_str().unwrap_or("").to_string(),
            )
        })
        .collect();
    Input::Texts(l)
}

/// Rotate the work order by `VERIF_SEED` (results are order independent).
pub fn rotate<T>(v: &mut Vec<T>, seed: u64) {
    if !v.is_empty() {
        let k = (seed as usize) % v.len();
        v.rotate_left(k);
    }
}

/// glibc's default malloc trims and re-grows the heap top for every world (tens of thousands of
/// `brk` calls, as much system time as user time). Keep freed memory instead.
pub fn tune_malloc() {
    unsafe {
        libc::mallopt(libc::M_TRIM_THRESHOLD, 1 << 30);
        libc::mallopt(libc::M_TOP_PAD, 64 << 20);
        libc::mallopt(libc::M_MMAP_THRESHOLD, 1 << 30);
    }
}
