//! Straight-line interpreter for the tiny probe functions emitted by the MoonBit, C#, Go and D
//! backends (no toolchains for these in the sandbox). Exactly the statement / expression forms
//! these functions contain are accepted; anything else is `Unsupported` (=> machinery exit 2,
//! never a silent pass).
//!
//! Semantics table (decisions of the checker, all stated in the evidence `assumptions`):
//! * all integer types are two's complement; explicit conversions between integer types wrap
//!   (C#: default *unchecked* context and `unchecked(..)`; Go conversions `T(x)`; D `cast(T)(x)`);
//!   widening follows the *source* type's signedness;
//! * implicit conversions: Go and MoonBit have none (untyped integer literals adapt to the
//!   context); C# only the value-preserving widening conversions of the language spec §10.2.3;
//!   D integer promotions / same-width sign changes / widening, never narrowing;
//!   a body that needs any other implicit conversion is rejected by the real compiler and is
//!   reported as `ill-typed`;
//! * MoonBit: `Int` 32-bit signed wrapping, `UInt` 32-bit unsigned, `Byte` 8-bit unsigned,
//!   `Int64`/`UInt64`, `Char` = scalar value; `Byte::to_int` zero-extends, `Char::to_int` is the
//!   code point, `Int::to_byte` keeps the low 8 bits, `reinterpret_as_*` keep the bits,
//!   `land` is bitwise and, `Int::unsafe_to_char` keeps the value; `extern "wasm"` helpers
//!   (`mbt_ffi_extend8/16` ...) are interpreted from their inline wasm text (interp/wasm.rs);
//! * float values are opaque bit patterns that only move (no arithmetic on floats accepted).

pub mod langs;
pub mod wasm;

use std::fmt;

#[derive(Clone, Copy, PartialEq, Eq, Debug)]
pub enum Lang {
    Go,
    CSharp,
    MoonBit,
    D,
}

impl Lang {
    pub fn backend(self) -> &'static str {
        match self {
            Lang::Go => "go",
            Lang::CSharp => "csharp",
            Lang::MoonBit => "moonbit",
            Lang::D => "d",
        }
    }
}

#[derive(Clone, Copy, PartialEq, Eq, Debug)]
pub enum Ty {
    Bool,
    I8,
    U8,
    I16,
    U16,
    I32,
    U32,
    I64,
    U64,
    F32,
    F64,
    /// a distinct character type holding a 32-bit code (MoonBit `Char`, D `dchar`)
    Char,
    /// untyped integer literal
    Lit,
}

impl Ty {
    pub fn int(self) -> Option<(u32, bool)> {
        Some(match self {
            Ty::I8 => (8, true),
            Ty::U8 => (8, false),
            Ty::I16 => (16, true),
            Ty::U16 => (16, false),
            Ty::I32 => (32, true),
            Ty::U32 => (32, false),
            Ty::I64 => (64, true),
            Ty::U64 => (64, false),
            _ => return None,
        })
    }
}

#[derive(Clone, Copy, PartialEq, Eq, Debug)]
pub struct Val {
    pub ty: Ty,
    /// ints: the low `width` bits; Lit: the i64 value; Bool 0/1; Char code; floats IEEE bits
    pub bits: u64,
}

impl Val {
    pub fn math(self) -> i128 {
        match self.ty {
            Ty::Lit => (self.bits as i64) as i128,
            t => match t.int() {
                Some((w, true)) => {
                    let sh = 64 - w;
                    (((self.bits << sh) as i64) >> sh) as i128
                }
                _ => self.bits as i128,
            },
        }
    }
    /// wrap a mathematical integer into integer type `t`
    pub fn wrap(t: Ty, m: i128) -> Val {
        let (w, _) = t.int().expect("wrap into non-integer");
        let mask: u128 = if w == 64 { u64::MAX as u128 } else { (1u128 << w) - 1 };
        Val { ty: t, bits: ((m as u128) & mask) as u64 }
    }
    pub fn fits(t: Ty, m: i128) -> bool {
        match t.int() {
            Some((w, true)) => m >= -(1i128 << (w - 1)) && m < (1i128 << (w - 1)),
            Some((w, false)) => m >= 0 && m < (1i128 << w),
            None => false,
        }
    }
}

impl fmt::Display for Val {
    fn fmt(&self, f: &mut fmt::Formatter<'_>) -> fmt::Result {
        match self.ty {
            Ty::Bool => write!(f, "{}", self.bits != 0),
            Ty::F32 | Ty::F64 => write!(f, "{:?}(bits 0x{:x})", self.ty, self.bits),
            Ty::Char => write!(f, "Char(0x{:x})", self.bits),
            _ => write!(f, "{:?}({})", self.ty, self.math()),
        }
    }
}

#[derive(Clone, Debug, PartialEq)]
pub enum EvalErr {
    /// the real compiler would reject the body (missing conversion)
    IllTyped(String),
    /// outside the micro-grammar / semantics table: machinery failure
    Unsupported(String),
}

#[derive(Clone, Copy, Debug, PartialEq, Eq)]
pub enum Op {
    Ne,
    Eq,
    Sub,
    Add,
    And,
    Or,
    Shl,
    Shr,
}

#[derive(Clone, Debug)]
pub enum Expr {
    Var(String),
    Lit(i128),
    BoolLit(bool),
    /// call of a free / qualified function (last path segment)
    Call(String, Vec<Expr>),
    Cast(Ty, Box<Expr>),
    Method(Box<Expr>, String, Vec<Expr>),
    Bin(Op, Box<Expr>, Box<Expr>),
    Cond(Box<Expr>, Box<Expr>, Box<Expr>),
}

#[derive(Clone, Debug)]
pub enum Stmt {
    Let { name: String, ty: Option<Ty>, init: Option<Expr> },
    Assign(String, Expr),
    If(Expr, Vec<Stmt>, Vec<Stmt>),
    Return(Expr),
}

#[derive(Clone, Debug)]
pub struct Sig {
    pub params: Vec<Ty>,
    pub ret: Ty,
}

#[derive(Clone, Debug)]
pub struct Func {
    pub name: String,
    pub params: Vec<(String, Ty)>,
    pub ret: Ty,
    pub body: Vec<Stmt>,
    pub src: String,
}

/// One probe: the glue function, the opaque function it calls and that function's signature.
#[derive(Clone, Debug)]
pub struct Probe {
    pub func: Func,
    pub opaque: String,
    pub opaque_sig: Sig,
    /// MoonBit: the `extern "wasm"` helpers of the package, interpreted with wasm semantics
    pub helpers: std::sync::Arc<wasm::Helpers>,
}

pub struct Outcome {
    pub ret: Val,
    pub opaque_arg: Option<Val>,
}

// ------------------------------------------------------------------------------------------
// semantics

fn ill<T>(m: String) -> Result<T, EvalErr> {
    Err(EvalErr::IllTyped(m))
}
fn unsup<T>(m: String) -> Result<T, EvalErr> {
    Err(EvalErr::Unsupported(m))
}

/// Implicit conversion of `v` to `to` (assignment / argument / return context).
pub fn coerce(lang: Lang, v: Val, to: Ty) -> Result<Val, EvalErr> {
    if v.ty == to {
        return Ok(v);
    }
    if v.ty == Ty::Lit {
        if to.int().is_some() {
            if Val::fits(to, v.math()) {
                return Ok(Val::wrap(to, v.math()));
            }
            return ill(format!("constant {} does not fit {:?}", v.math(), to));
        }
        return ill(format!("integer literal used where {:?} is required", to));
    }
    let allowed = match lang {
        Lang::Go | Lang::MoonBit => false,
        Lang::CSharp => match (v.ty, to) {
            // C# spec "implicit numeric conversions" (integers only)
            (Ty::I8, Ty::I16 | Ty::I32 | Ty::I64) => true,
            (Ty::U8, Ty::I16 | Ty::U16 | Ty::I32 | Ty::U32 | Ty::I64 | Ty::U64) => true,
            (Ty::I16, Ty::I32 | Ty::I64) => true,
            (Ty::U16, Ty::I32 | Ty::U32 | Ty::I64 | Ty::U64) => true,
            (Ty::I32, Ty::I64) => true,
            (Ty::U32, Ty::I64 | Ty::U64) => true,
            _ => false,
        },
        Lang::D => match (v.ty, to) {
            (Ty::Bool, t) if t.int().is_some() => true,
            (Ty::Char, Ty::U32 | Ty::I32 | Ty::I64 | Ty::U64) => true,
            (a, b) => match (a.int(), b.int()) {
                (Some((wa, _)), Some((wb, _))) => wb >= wa,
                _ => false,
            },
        },
    };
    if !allowed {
        return ill(format!(
            "{:?} value used where {:?} is required and {} has no such implicit conversion",
            v.ty,
            to,
            lang.backend()
        ));
    }
    convert_value(v, to)
}

/// value conversion used by legal implicit conversions and explicit integer casts: integers
/// wrap, bool -> 0/1, char <-> code
fn convert_value(v: Val, to: Ty) -> Result<Val, EvalErr> {
    match (v.ty, to) {
        (a, b) if a == b => Ok(v),
        (Ty::Bool, t) if t.int().is_some() => Ok(Val::wrap(t, v.bits as i128)),
        (Ty::Char, t) if t.int().is_some() => Ok(Val::wrap(t, v.bits as i128)),
        (a, Ty::Char) if a.int().is_some() || a == Ty::Lit => Ok(Val { ty: Ty::Char, bits: Val::wrap(Ty::U32, v.math()).bits }),
        (a, Ty::Bool) if a.int().is_some() => Ok(Val { ty: Ty::Bool, bits: (v.bits != 0) as u64 }),
        (a, t) if (a.int().is_some() || a == Ty::Lit) && t.int().is_some() => Ok(Val::wrap(t, v.math())),
        (a, b) => unsup(format!("conversion {:?} -> {:?} is outside the semantics table", a, b)),
    }
}

/// Explicit conversion `(T)e` / `T(e)` / `cast(T)(e)`.
pub fn cast(lang: Lang, v: Val, to: Ty) -> Result<Val, EvalErr> {
    if v.ty == to {
        return Ok(v);
    }
    let from_int = v.ty.int().is_some() || v.ty == Ty::Lit;
    match (v.ty, to) {
        (_, t) if from_int && t.int().is_some() => convert_value(v, to),
        (Ty::Bool, t) if t.int().is_some() => match lang {
            Lang::D => convert_value(v, to),
            _ => ill(format!("{} cannot convert bool to {:?}", lang.backend(), to)),
        },
        (_, Ty::Bool) if from_int => match lang {
            Lang::D => convert_value(v, to),
            _ => ill(format!("{} cannot convert an integer to bool", lang.backend())),
        },
        (Ty::Char, t) if t.int().is_some() => match lang {
            Lang::D => convert_value(v, to),
            _ => unsup(format!("cast Char -> {:?} in {}", to, lang.backend())),
        },
        (_, Ty::Char) if from_int => match lang {
            Lang::D => convert_value(v, to),
            _ => unsup(format!("cast to Char in {}", lang.backend())),
        },
        (a, b) => unsup(format!("cast {:?} -> {:?} is outside the semantics table", a, b)),
    }
}

/// Operand types of a binary operator after the language's promotions.
fn unify(lang: Lang, a: Val, b: Val) -> Result<(Val, Val), EvalErr> {
    if a.ty == Ty::Lit && b.ty == Ty::Lit {
        return Ok((a, b));
    }
    if a.ty == Ty::Lit {
        let a2 = coerce(lang, a, b.ty)?;
        return unify(lang, a2, b);
    }
    if b.ty == Ty::Lit {
        let b2 = coerce(lang, b, a.ty)?;
        return unify(lang, a, b2);
    }
    match lang {
        Lang::Go | Lang::MoonBit => {
            if a.ty == b.ty {
                Ok((a, b))
            } else {
                ill(format!("operands of different types {:?} and {:?}", a.ty, b.ty))
            }
        }
        Lang::CSharp | Lang::D => {
            let promote = |v: Val| -> Result<Val, EvalErr> {
                match v.ty.int() {
                    Some((w, _)) if w < 32 => convert_value(v, Ty::I32),
                    Some(_) => Ok(v),
                    None => {
                        if v.ty == Ty::Bool || v.ty == Ty::Char {
                            Ok(v)
                        } else {
                            unsup(format!("binary operator on {:?}", v.ty))
                        }
                    }
                }
            };
            let (a, b) = (promote(a)?, promote(b)?);
            if a.ty == b.ty {
                return Ok((a, b));
            }
            let target = match (lang, a.ty, b.ty) {
                (Lang::CSharp, Ty::I32, Ty::U32) | (Lang::CSharp, Ty::U32, Ty::I32) => Ty::I64,
                (Lang::D, Ty::I32, Ty::U32) | (Lang::D, Ty::U32, Ty::I32) => Ty::U32,
                (_, Ty::I32 | Ty::U32, Ty::I64) | (_, Ty::I64, Ty::I32 | Ty::U32) => Ty::I64,
                (_, Ty::U32, Ty::U64) | (_, Ty::U64, Ty::U32) => Ty::U64,
                (Lang::D, Ty::I32 | Ty::I64, Ty::U64) | (Lang::D, Ty::U64, Ty::I32 | Ty::I64) => Ty::U64,
                (_, x, y) => return unsup(format!("binary operator on {:?} and {:?}", x, y)),
            };
            Ok((convert_value(a, target)?, convert_value(b, target)?))
        }
    }
}

fn binop(lang: Lang, op: Op, a: Val, b: Val) -> Result<Val, EvalErr> {
    if matches!(op, Op::Shl | Op::Shr) {
        // shift count: literal or integer; result has the (promoted) left type
        let a = if a.ty == Ty::Lit { return unsup("shift of an untyped literal".into()) } else { a };
        let a = match (lang, a.ty.int()) {
            (Lang::CSharp | Lang::D, Some((w, _))) if w < 32 => convert_value(a, Ty::I32)?,
            (_, Some(_)) => a,
            _ => return unsup(format!("shift on {:?}", a.ty)),
        };
        let (w, signed) = a.ty.int().unwrap();
        let n = b.math();
        if n < 0 || n >= w as i128 {
            return unsup(format!("shift count {n} out of range"));
        }
        let n = n as u32;
        return Ok(match op {
            Op::Shl => Val::wrap(a.ty, a.math() << n),
            _ => {
                if signed {
                    Val::wrap(a.ty, a.math() >> n) // arithmetic
                } else {
                    Val::wrap(a.ty, ((a.bits as u128) >> n) as i128)
                }
            }
        });
    }
    let (a, b) = unify(lang, a, b)?;
    match op {
        Op::Ne | Op::Eq => {
            let eq = match a.ty {
                Ty::F32 | Ty::F64 => return unsup("comparison of floats".into()),
                _ => a.math() == b.math(),
            };
            Ok(Val { ty: Ty::Bool, bits: ((op == Op::Eq) == eq) as u64 })
        }
        Op::Sub | Op::Add | Op::And | Op::Or => {
            if a.ty == Ty::Lit {
                let r = match op {
                    Op::Sub => a.math() - b.math(),
                    Op::Add => a.math() + b.math(),
                    Op::And => a.math() & b.math(),
                    _ => a.math() | b.math(),
                };
                return Ok(Val { ty: Ty::Lit, bits: r as i64 as u64 });
            }
            if a.ty.int().is_none() {
                return unsup(format!("arithmetic on {:?}", a.ty));
            }
            let r = match op {
                Op::Sub => a.math() - b.math(),
                Op::Add => a.math() + b.math(),
                Op::And => (a.bits & b.bits) as i128,
                _ => (a.bits | b.bits) as i128,
            };
            Ok(Val::wrap(a.ty, r)) // two's complement wrap-around
        }
        Op::Shl | Op::Shr => unreachable!(),
    }
}

fn method(lang: Lang, recv: Val, name: &str, args: &[Val]) -> Result<Val, EvalErr> {
    if lang != Lang::MoonBit {
        return unsup(format!("method call .{name}() in {}", lang.backend()));
    }
    let recv = if recv.ty == Ty::Lit { coerce(lang, recv, Ty::I32)? } else { recv };
    match (recv.ty, name, args.len()) {
        (Ty::U8, "to_int", 0) => Ok(Val::wrap(Ty::I32, recv.math())),
        (Ty::Char, "to_int", 0) => Ok(Val::wrap(Ty::I32, recv.bits as i128)),
        (Ty::I32, "to_byte", 0) => Ok(Val::wrap(Ty::U8, recv.math())),
        (Ty::I32, "reinterpret_as_uint", 0) => Ok(Val { ty: Ty::U32, bits: recv.bits }),
        (Ty::U32, "reinterpret_as_int", 0) => Ok(Val { ty: Ty::I32, bits: recv.bits }),
        (Ty::I64, "reinterpret_as_uint64", 0) => Ok(Val { ty: Ty::U64, bits: recv.bits }),
        (Ty::U64, "reinterpret_as_int64", 0) => Ok(Val { ty: Ty::I64, bits: recv.bits }),
        (Ty::I32 | Ty::U32 | Ty::I64 | Ty::U64, "land" | "lor" | "lxor", 1) => {
            let b = coerce(lang, args[0], recv.ty)?;
            let r = match name {
                "land" => recv.bits & b.bits,
                "lor" => recv.bits | b.bits,
                _ => recv.bits ^ b.bits,
            };
            Ok(Val { ty: recv.ty, bits: r })
        }
        (t, n, k) => unsup(format!("MoonBit method {:?}.{n}/{k} is outside the semantics table", t)),
    }
}

fn intrinsic(lang: Lang, name: &str, args: &[Val]) -> Option<Result<Val, EvalErr>> {
    if lang != Lang::MoonBit {
        return None;
    }
    match name {
        "Int::unsafe_to_char" => Some((|| {
            if args.len() != 1 {
                return unsup("unsafe_to_char arity".into());
            }
            let a = coerce(lang, args[0], Ty::I32)?;
            Ok(Val { ty: Ty::Char, bits: a.bits })
        })()),
        _ => None,
    }
}

// ------------------------------------------------------------------------------------------
// evaluation

struct Env<'a> {
    lang: Lang,
    probe: &'a Probe,
    vars: Vec<(&'a str, Option<Ty>, Option<Val>)>,
    opaque_ret: Val,
    opaque_arg: Option<Val>,
    calls: u32,
}

impl<'a> Env<'a> {
    fn lookup(&self, n: &str) -> Result<Val, EvalErr> {
        for (name, _, v) in self.vars.iter().rev() {
            if *name == n {
                return v.ok_or_else(|| EvalErr::Unsupported(format!("read of unassigned variable {n}")));
            }
        }
        unsup(format!("unknown variable {n}"))
    }

    fn expr(&mut self, e: &'a Expr) -> Result<Val, EvalErr> {
        match e {
            Expr::Var(n) => self.lookup(n),
            Expr::Lit(m) => Ok(Val { ty: Ty::Lit, bits: *m as i64 as u64 }),
            Expr::BoolLit(b) => Ok(Val { ty: Ty::Bool, bits: *b as u64 }),
            Expr::Cast(t, inner) => {
                let v = self.expr(inner)?;
                cast(self.lang, v, *t)
            }
            Expr::Cond(c, a, b) => {
                let c = self.expr(c)?;
                if c.ty != Ty::Bool {
                    return ill(format!("condition of type {:?}", c.ty));
                }
                // both branches must type-check; only the taken one is evaluated for its value
                if c.bits != 0 {
                    self.expr(a)
                } else {
                    self.expr(b)
                }
            }
            Expr::Bin(op, a, b) => {
                let a = self.expr(a)?;
                let b = self.expr(b)?;
                binop(self.lang, *op, a, b)
            }
            Expr::Method(r, name, args) => {
                let r = self.expr(r)?;
                let mut vals = Vec::with_capacity(args.len());
                for a in args {
                    vals.push(self.expr(a)?);
                }
                method(self.lang, r, name, &vals)
            }
            Expr::Call(name, args) => {
                let mut vals = Vec::with_capacity(args.len());
                for a in args {
                    vals.push(self.expr(a)?);
                }
                if *name == self.probe.opaque {
                    if vals.len() != 1 || self.probe.opaque_sig.params.len() != 1 {
                        return unsup(format!("call of {name} with {} arguments", vals.len()));
                    }
                    if self.calls > 0 {
                        return unsup(format!("{name} called twice"));
                    }
                    // a failing argument conversion belongs to the part *before* the call
                    let a = coerce(self.lang, vals[0], self.probe.opaque_sig.params[0])?;
                    self.calls += 1;
                    self.opaque_arg = Some(a);
                    return Ok(self.opaque_ret);
                }
                if let Some(h) = self.probe.helpers.get(name.as_str()) {
                    return wasm::call(h, &vals);
                }
                if let Some(r) = intrinsic(self.lang, name, &vals) {
                    return r;
                }
                unsup(format!("call of unknown function {name}"))
            }
        }
    }

    /// returns Some(value) when a `return` was executed
    fn block(&mut self, stmts: &'a [Stmt]) -> Result<Option<Val>, EvalErr> {
        for s in stmts {
            match s {
                Stmt::Let { name, ty, init } => {
                    let v = match (ty, init) {
                        (Some(t), Some(e)) => {
                            let v = self.expr(e)?;
                            Some(coerce(self.lang, v, *t)?)
                        }
                        (Some(t), None) => match self.lang {
                            // Go zero-initialises; C# leaves the local unassigned
                            Lang::Go => Some(match t {
                                Ty::Bool | Ty::F32 | Ty::F64 | Ty::Char => Val { ty: *t, bits: 0 },
                                _ => Val::wrap(*t, 0),
                            }),
                            _ => None,
                        },
                        (None, Some(e)) => {
                            let v = self.expr(e)?;
                            if v.ty == Ty::Lit {
                                match self.lang {
                                    Lang::MoonBit | Lang::CSharp | Lang::D => Some(coerce(self.lang, v, Ty::I32)?),
                                    Lang::Go => return unsup("inferred type of an untyped constant (Go `int`)".into()),
                                }
                            } else {
                                Some(v)
                            }
                        }
                        (None, None) => return unsup(format!("declaration of {name} without type or value")),
                    };
                    let t = ty.or(v.map(|v| v.ty));
                    self.vars.push((name.as_str(), t, v));
                }
                Stmt::Assign(name, e) => {
                    let v = self.expr(e)?;
                    let lang = self.lang;
                    let slot = self
                        .vars
                        .iter_mut()
                        .rev()
                        .find(|(n, _, _)| *n == name.as_str())
                        .ok_or_else(|| EvalErr::Unsupported(format!("assignment to unknown {name}")))?;
                    let t = slot.1.ok_or_else(|| EvalErr::Unsupported("untyped slot".into()))?;
                    slot.2 = Some(coerce(lang, v, t)?);
                }
                Stmt::If(c, a, b) => {
                    let c = self.expr(c)?;
                    if c.ty != Ty::Bool {
                        return ill(format!("condition of type {:?}", c.ty));
                    }
                    let depth = self.vars.len();
                    let r = if c.bits != 0 { self.block(a)? } else { self.block(b)? };
                    self.vars.truncate(depth);
                    if r.is_some() {
                        return Ok(r);
                    }
                }
                Stmt::Return(e) => {
                    let v = self.expr(e)?;
                    return Ok(Some(coerce(self.lang, v, self.probe.func.ret)?));
                }
            }
        }
        Ok(None)
    }
}

/// Run the probe with parameter value `arg`; the opaque function returns `opaque_ret`.
/// The error carries whether the opaque function had already been reached.
pub fn eval(lang: Lang, probe: &Probe, arg: Val, opaque_ret: Val) -> Result<Outcome, (EvalErr, bool)> {
    if probe.func.params.len() != 1 {
        return Err((EvalErr::Unsupported(format!("{} has {} parameters", probe.func.name, probe.func.params.len())), false));
    }
    let (pn, pt) = &probe.func.params[0];
    if arg.ty != *pt || opaque_ret.ty != probe.opaque_sig.ret {
        return Err((EvalErr::Unsupported("harness passed a value of the wrong type".into()), false));
    }
    let mut env = Env {
        lang,
        probe,
        vars: vec![(pn.as_str(), Some(*pt), Some(arg))],
        opaque_ret,
        opaque_arg: None,
        calls: 0,
    };
    match env.block(&probe.func.body) {
        Ok(Some(ret)) => Ok(Outcome { ret, opaque_arg: env.opaque_arg }),
        Ok(None) => Err((EvalErr::Unsupported(format!("{} ends without return", probe.func.name)), env.calls > 0)),
        Err(e) => Err((e, env.calls > 0)),
    }
}
