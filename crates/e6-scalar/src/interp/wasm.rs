//! MoonBit `extern "wasm" fn name(p : T, ...) -> R = #|(func (param ..) (result ..) <instrs>)`
//! helpers found in the generated text are *interpreted*: a tiny stack machine with wasm
//! semantics for the straight-line instruction subset that can plausibly appear in scalar
//! helpers. A helper that uses anything else is only an error (machinery, exit 2) when a probe
//! body actually calls it.
use super::{EvalErr, Lang, Ty, Val};
use std::collections::BTreeMap;

#[derive(Clone, Copy, Debug, PartialEq)]
pub enum WTy {
    I32,
    I64,
    F32,
    F64,
}

#[derive(Clone, Copy, Debug, PartialEq)]
enum WV {
    I32(u32),
    I64(u64),
    F32(u32),
    F64(u64),
}

impl WV {
    fn ty(self) -> WTy {
        match self {
            WV::I32(_) => WTy::I32,
            WV::I64(_) => WTy::I64,
            WV::F32(_) => WTy::F32,
            WV::F64(_) => WTy::F64,
        }
    }
}

#[derive(Clone, Debug)]
pub struct Helper {
    pub name: String,
    pub params: Vec<Ty>,
    pub ret: Option<Ty>,
    pub wparams: Vec<WTy>,
    pub wresult: Option<WTy>,
    /// instruction words, or why the body is outside the subset
    pub code: Result<Vec<String>, String>,
    pub src: String,
}

pub type Helpers = BTreeMap<String, Helper>;

fn wty(s: &str) -> Option<WTy> {
    Some(match s {
        "i32" => WTy::I32,
        "i64" => WTy::I64,
        "f32" => WTy::F32,
        "f64" => WTy::F64,
        _ => return None,
    })
}

/// wasm type a MoonBit scalar type is passed as
fn wasm_of(t: Ty) -> Option<WTy> {
    Some(match t {
        Ty::Bool | Ty::U8 | Ty::I32 | Ty::U32 | Ty::Char => WTy::I32,
        Ty::I64 | Ty::U64 => WTy::I64,
        Ty::F32 => WTy::F32,
        Ty::F64 => WTy::F64,
        _ => return None,
    })
}

/// Find every `extern "wasm" fn` in a MoonBit source text.
pub fn discover(file: &str, text: &str, out: &mut Helpers) -> Result<(), String> {
    let lines: Vec<&str> = text.lines().collect();
    let mut i = 0;
    while i < lines.len() {
        let l = lines[i].trim();
        let Some(k) = l.find("extern \"wasm\" fn ") else {
            i += 1;
            continue;
        };
        // signature may span lines up to the `=`
        let mut sig = l[k + "extern \"wasm\" fn ".len()..].to_string();
        let mut j = i;
        while !sig.trim_end().ends_with('=') && j + 1 < lines.len() && !lines[j + 1].trim_start().starts_with("#|") {
            j += 1;
            sig.push(' ');
            sig.push_str(lines[j].trim());
        }
        let mut body = String::new();
        let mut b = j + 1;
        while b < lines.len() && lines[b].trim_start().starts_with("#|") {
            body.push_str(lines[b].trim_start().trim_start_matches("#|"));
            body.push(' ');
            b += 1;
        }
        i = b;
        let name: String = sig.chars().take_while(|c| c.is_ascii_alphanumeric() || *c == '_').collect();
        let err = |m: &str| format!("{file}: extern \"wasm\" fn {name}: {m}");
        let open = sig.find('(').ok_or(err("no parameter list"))?;
        let close = sig.find(')').ok_or(err("unterminated parameter list"))?;
        let mut params = Vec::new();
        let mut sig_ok = true;
        for p in sig[open + 1..close].split(',').map(|p| p.trim()).filter(|p| !p.is_empty()) {
            let ty = p.split(':').nth(1).map(|t| t.trim()).unwrap_or("");
            match super::langs::type_of(Lang::MoonBit, ty) {
                Some(t) => params.push(t),
                None => sig_ok = false,
            }
        }
        let after = sig[close + 1..].trim().trim_end_matches('=').trim();
        let ret = if let Some(r) = after.strip_prefix("->") {
            match super::langs::type_of(Lang::MoonBit, r.trim()) {
                Some(t) => Some(t),
                None => {
                    sig_ok = false;
                    None
                }
            }
        } else {
            None
        };
        // body: (func (param T)* (result T)? (local T)* instr*)
        let flat = body.replace('(', " ( ").replace(')', " ) ");
        let toks: Vec<&str> = flat.split_whitespace().collect();
        let mut wparams = Vec::new();
        let mut wresult = None;
        let mut code: Result<Vec<String>, String> = Ok(Vec::new());
        if !sig_ok {
            code = Err("signature uses a type outside the scalar table".into());
        }
        if toks.len() < 3 || toks[0] != "(" || toks[1] != "func" || toks[toks.len() - 1] != ")" {
            code = Err(format!("body is not `(func ...)`: {}", body.trim()));
        } else {
            let mut p = 2;
            let end = toks.len() - 1;
            while p < end {
                if toks[p] == "(" {
                    let close = (p..end).find(|&q| toks[q] == ")").unwrap_or(end);
                    let kind = toks.get(p + 1).copied().unwrap_or("");
                    let tys: Vec<Option<WTy>> = toks[p + 2..close].iter().map(|t| wty(t)).collect();
                    match kind {
                        "param" if tys.iter().all(|t| t.is_some()) => wparams.extend(tys.into_iter().flatten()),
                        "result" if tys.len() == 1 && tys[0].is_some() => wresult = tys[0],
                        _ => {
                            if code.is_ok() {
                                code = Err(format!("`({kind} ...)` is outside the interpreted subset"));
                            }
                        }
                    }
                    p = close + 1;
                } else {
                    if let Ok(c) = &mut code {
                        c.push(toks[p].to_string());
                    }
                    p += 1;
                }
            }
        }
        out.insert(
            name.clone(),
            Helper { name, params, ret, wparams, wresult, code, src: format!("{} {}", sig.trim(), body.trim()) },
        );
    }
    Ok(())
}

fn unsup<T>(m: String) -> Result<T, EvalErr> {
    Err(EvalErr::Unsupported(m))
}

/// Call a helper with MoonBit-level argument values.
pub fn call(h: &Helper, args: &[Val]) -> Result<Val, EvalErr> {
    let code = match &h.code {
        Ok(c) => c,
        Err(m) => return unsup(format!("wasm helper {}: {m}", h.name)),
    };
    if args.len() != h.params.len() || h.wparams.len() != h.params.len() {
        return unsup(format!("wasm helper {}: arity mismatch ({} args, {} params, {} wasm params)", h.name, args.len(), h.params.len(), h.wparams.len()));
    }
    let mut locals = Vec::new();
    for (k, a) in args.iter().enumerate() {
        let a = super::coerce(Lang::MoonBit, *a, h.params[k])?;
        let w = wasm_of(a.ty).ok_or_else(|| EvalErr::Unsupported(format!("wasm helper {}: parameter type {:?}", h.name, a.ty)))?;
        if w != h.wparams[k] {
            return unsup(format!("wasm helper {}: parameter {k} declared {:?} but wasm type is {:?}", h.name, a.ty, h.wparams[k]));
        }
        locals.push(match w {
            WTy::I32 => WV::I32(a.bits as u32),
            WTy::I64 => WV::I64(a.bits),
            WTy::F32 => WV::F32(a.bits as u32),
            WTy::F64 => WV::F64(a.bits),
        });
    }
    let mut st: Vec<WV> = Vec::new();
    let bad = |ins: &str, why: &str| EvalErr::Unsupported(format!("wasm helper {}: `{ins}`: {why}", h.name));
    let mut pc = 0;
    while pc < code.len() {
        let ins = code[pc].as_str();
        pc += 1;
        macro_rules! pop {
            ($v:ident) => {
                match st.pop() {
                    Some(WV::$v(x)) => x,
                    _ => return Err(bad(ins, "operand stack type mismatch")),
                }
            };
        }
        match ins {
            "local.get" => {
                let n: usize = code.get(pc).and_then(|s| s.parse().ok()).ok_or_else(|| bad(ins, "bad index"))?;
                pc += 1;
                st.push(*locals.get(n).ok_or_else(|| bad(ins, "no such local"))?);
            }
            "i32.const" | "i64.const" => {
                let t = code.get(pc).ok_or_else(|| bad(ins, "missing immediate"))?;
                pc += 1;
                let v: i128 = if let Some(hx) = t.strip_prefix("0x") {
                    i128::from_str_radix(hx, 16).map_err(|_| bad(ins, "bad immediate"))?
                } else if let Some(hx) = t.strip_prefix("-0x") {
                    -i128::from_str_radix(hx, 16).map_err(|_| bad(ins, "bad immediate"))?
                } else {
                    t.parse().map_err(|_| bad(ins, "bad immediate"))?
                };
                st.push(if ins == "i32.const" { WV::I32(v as u32) } else { WV::I64(v as u64) });
            }
            "i32.extend8_s" => {
                let x = pop!(I32);
                st.push(WV::I32(x as u8 as i8 as i32 as u32));
            }
            "i32.extend16_s" => {
                let x = pop!(I32);
                st.push(WV::I32(x as u16 as i16 as i32 as u32));
            }
            "i32.and" | "i32.or" | "i32.xor" | "i32.add" | "i32.sub" | "i32.shl" | "i32.shr_s" | "i32.shr_u" => {
                let b = pop!(I32);
                let a = pop!(I32);
                st.push(WV::I32(match ins {
                    "i32.and" => a & b,
                    "i32.or" => a | b,
                    "i32.xor" => a ^ b,
                    "i32.add" => a.wrapping_add(b),
                    "i32.sub" => a.wrapping_sub(b),
                    "i32.shl" => a.wrapping_shl(b & 31),
                    "i32.shr_s" => ((a as i32) >> (b & 31)) as u32,
                    _ => a >> (b & 31),
                }));
            }
            "i64.and" | "i64.or" | "i64.shl" | "i64.shr_s" | "i64.shr_u" => {
                let b = pop!(I64);
                let a = pop!(I64);
                st.push(WV::I64(match ins {
                    "i64.and" => a & b,
                    "i64.or" => a | b,
                    "i64.shl" => a.wrapping_shl((b & 63) as u32),
                    "i64.shr_s" => ((a as i64) >> (b & 63)) as u64,
                    _ => a >> (b & 63),
                }));
            }
            "i32.wrap_i64" => {
                let x = pop!(I64);
                st.push(WV::I32(x as u32));
            }
            "i64.extend_i32_s" => {
                let x = pop!(I32);
                st.push(WV::I64(x as i32 as i64 as u64));
            }
            "i64.extend_i32_u" => {
                let x = pop!(I32);
                st.push(WV::I64(x as u64));
            }
            "f32.reinterpret_i32" => {
                let x = pop!(I32);
                st.push(WV::F32(x));
            }
            "i32.reinterpret_f32" => {
                let x = pop!(F32);
                st.push(WV::I32(x));
            }
            "f64.reinterpret_i64" => {
                let x = pop!(I64);
                st.push(WV::F64(x));
            }
            "i64.reinterpret_f64" => {
                let x = pop!(F64);
                st.push(WV::I64(x));
            }
            other => return Err(bad(other, "instruction outside the interpreted subset")),
        }
    }
    let (Some(rt), Some(wr)) = (h.ret, h.wresult) else {
        return unsup(format!("wasm helper {}: no result", h.name));
    };
    if st.len() != 1 || st[0].ty() != wr || wasm_of(rt) != Some(wr) {
        return unsup(format!("wasm helper {}: leaves {:?} for declared result {:?}/{:?}", h.name, st, rt, wr));
    }
    let bits = match st[0] {
        WV::I32(x) | WV::F32(x) => x as u64,
        WV::I64(x) | WV::F64(x) => x,
    };
    match rt {
        Ty::Bool if bits > 1 => unsup(format!("wasm helper {}: i32 {bits:#x} returned as Bool", h.name)),
        Ty::U8 if bits > 0xFF => unsup(format!("wasm helper {}: i32 {bits:#x} returned as Byte", h.name)),
        _ => Ok(Val { ty: rt, bits }),
    }
}
