//! Tokenizer, per-language micro-grammars and probe-function discovery.
use super::*;
use crate::refabi::WTy;
use std::collections::BTreeMap;

#[derive(Clone, Debug, PartialEq)]
pub enum Tok {
    Id(String),
    Num(i128),
    P(&'static str),
    Str,
    Nl,
    Other(char),
}

#[derive(Clone, Debug)]
pub struct Token {
    pub t: Tok,
    pub at: usize,
}

const PUNCT: [&str; 25] = [
    ":=", "::", "->", "!=", "==", "<<", ">>", "(", ")", "{", "}", "[", "]", ",", ";", ":", "=", "?", "-", "+", ".", "&", "|",
    "!", "@",
];

pub fn tokenize(text: &str, newlines: bool) -> Vec<Token> {
    let b = text.as_bytes();
    let mut out = Vec::new();
    let mut i = 0;
    let mut depth = 0i32;
    let mut line_start = true;
    while i < b.len() {
        let c = b[i] as char;
        if c == '\n' {
            if newlines && depth == 0 {
                out.push(Token { t: Tok::Nl, at: i });
            }
            i += 1;
            line_start = true;
            continue;
        }
        if c.is_whitespace() {
            i += 1;
            continue;
        }
        // MoonBit attribute / multi-line string lines (`#doc(hidden)`, `#|...`)
        if c == '#' && line_start {
            while i < b.len() && b[i] != b'\n' {
                i += 1;
            }
            continue;
        }
        line_start = false;
        if text[i..].starts_with("//") {
            while i < b.len() && b[i] != b'\n' {
                i += 1;
            }
            continue;
        }
        if text[i..].starts_with("/*") || text[i..].starts_with("/+") {
            let close = if text[i..].starts_with("/*") { "*/" } else { "+/" };
            match text[i + 2..].find(close) {
                Some(k) => i += 2 + k + 2,
                None => i = b.len(),
            }
            continue;
        }
        if c == '"' || c == '`' {
            let q = b[i];
            let at = i;
            i += 1;
            while i < b.len() && b[i] != q {
                if b[i] == b'\\' && q == b'"' {
                    i += 1;
                }
                i += 1;
            }
            i += 1;
            out.push(Token { t: Tok::Str, at });
            continue;
        }
        if c.is_ascii_alphabetic() || c == '_' {
            let s = i;
            while i < b.len() && ((b[i] as char).is_ascii_alphanumeric() || b[i] == b'_') {
                i += 1;
            }
            out.push(Token { t: Tok::Id(text[s..i].to_string()), at: s });
            continue;
        }
        if c.is_ascii_digit() {
            let s = i;
            let (radix, ds) = if text[i..].starts_with("0x") || text[i..].starts_with("0X") { (16, i + 2) } else { (10, i) };
            i = ds;
            while i < b.len() && ((b[i] as char).is_digit(radix) || b[i] == b'_') {
                i += 1;
            }
            let digits: String = text[ds..i].chars().filter(|c| *c != '_').collect();
            // integer suffixes (u, U, L, UL ...) and float forms are not part of the grammar
            let v = i128::from_str_radix(&digits, radix).unwrap_or(-1);
            let suffix_or_float = i < b.len() && ((b[i] as char).is_ascii_alphabetic() || (b[i] == b'.' && i + 1 < b.len() && (b[i + 1] as char).is_ascii_digit()));
            if suffix_or_float || v < 0 {
                while i < b.len() && ((b[i] as char).is_ascii_alphanumeric() || b[i] == b'.') {
                    i += 1;
                }
                out.push(Token { t: Tok::Other('#'), at: s });
            } else {
                out.push(Token { t: Tok::Num(v), at: s });
            }
            continue;
        }
        if let Some(p) = PUNCT.iter().find(|p| text[i..].starts_with(**p)) {
            match *p {
                "(" | "[" => depth += 1,
                ")" | "]" => depth = (depth - 1).max(0),
                _ => {}
            }
            out.push(Token { t: Tok::P(p), at: i });
            i += p.len();
            continue;
        }
        let ch = text[i..].chars().next().unwrap();
        out.push(Token { t: Tok::Other(ch), at: i });
        i += ch.len_utf8();
    }
    out.push(Token { t: Tok::Nl, at: b.len() });
    out
}

pub fn type_of(lang: Lang, name: &str) -> Option<Ty> {
    Some(match (lang, name) {
        (Lang::Go, "bool") => Ty::Bool,
        (Lang::Go, "int8") => Ty::I8,
        (Lang::Go, "uint8" | "byte") => Ty::U8,
        (Lang::Go, "int16") => Ty::I16,
        (Lang::Go, "uint16") => Ty::U16,
        (Lang::Go, "int32" | "rune") => Ty::I32,
        (Lang::Go, "uint32") => Ty::U32,
        (Lang::Go, "int64") => Ty::I64,
        (Lang::Go, "uint64") => Ty::U64,
        (Lang::Go, "float32") => Ty::F32,
        (Lang::Go, "float64") => Ty::F64,
        (Lang::CSharp, "bool") => Ty::Bool,
        (Lang::CSharp, "sbyte") => Ty::I8,
        (Lang::CSharp, "byte") => Ty::U8,
        (Lang::CSharp, "short") => Ty::I16,
        (Lang::CSharp, "ushort") => Ty::U16,
        (Lang::CSharp, "int") => Ty::I32,
        (Lang::CSharp, "uint") => Ty::U32,
        (Lang::CSharp, "long") => Ty::I64,
        (Lang::CSharp, "ulong") => Ty::U64,
        (Lang::CSharp, "float") => Ty::F32,
        (Lang::CSharp, "double") => Ty::F64,
        (Lang::MoonBit, "Bool") => Ty::Bool,
        (Lang::MoonBit, "Byte") => Ty::U8,
        (Lang::MoonBit, "Int") => Ty::I32,
        (Lang::MoonBit, "UInt") => Ty::U32,
        (Lang::MoonBit, "Int64") => Ty::I64,
        (Lang::MoonBit, "UInt64") => Ty::U64,
        (Lang::MoonBit, "Float") => Ty::F32,
        (Lang::MoonBit, "Double") => Ty::F64,
        (Lang::MoonBit, "Char") => Ty::Char,
        (Lang::D, "bool") => Ty::Bool,
        (Lang::D, "byte") => Ty::I8,
        (Lang::D, "ubyte") => Ty::U8,
        (Lang::D, "short") => Ty::I16,
        (Lang::D, "ushort") => Ty::U16,
        (Lang::D, "int") => Ty::I32,
        (Lang::D, "uint") => Ty::U32,
        (Lang::D, "long") => Ty::I64,
        (Lang::D, "ulong") => Ty::U64,
        (Lang::D, "float") => Ty::F32,
        (Lang::D, "double") => Ty::F64,
        (Lang::D, "dchar") => Ty::Char,
        _ => return None,
    })
}

type PResult<T> = Result<T, String>;

struct Parser<'a> {
    lang: Lang,
    toks: &'a [Token],
    pos: usize,
    end: usize,
}

impl<'a> Parser<'a> {
    fn peek(&self) -> &Tok {
        if self.pos < self.end {
            &self.toks[self.pos].t
        } else {
            &Tok::Nl
        }
    }
    fn peek_at(&self, k: usize) -> &Tok {
        if self.pos + k < self.end {
            &self.toks[self.pos + k].t
        } else {
            &Tok::Nl
        }
    }
    fn at_end(&self) -> bool {
        self.pos >= self.end
    }
    fn bump(&mut self) -> Tok {
        let t = self.peek().clone();
        if self.pos < self.end {
            self.pos += 1;
        }
        t
    }
    fn is_p(&self, p: &str) -> bool {
        matches!(self.peek(), Tok::P(q) if *q == p)
    }
    fn is_id(&self, s: &str) -> bool {
        matches!(self.peek(), Tok::Id(q) if q == s)
    }
    fn eat_p(&mut self, p: &str) -> bool {
        if self.is_p(p) {
            self.pos += 1;
            true
        } else {
            false
        }
    }
    fn expect_p(&mut self, p: &str) -> PResult<()> {
        if self.eat_p(p) {
            Ok(())
        } else {
            Err(format!("expected `{p}`, found {:?}", self.peek()))
        }
    }
    fn ident(&mut self) -> PResult<String> {
        match self.bump() {
            Tok::Id(s) => Ok(s),
            t => Err(format!("expected identifier, found {:?}", t)),
        }
    }
    fn ty(&mut self) -> PResult<Ty> {
        let n = self.ident()?;
        type_of(self.lang, &n).ok_or(format!("unknown {} type `{n}`", self.lang.backend()))
    }
    fn skip_sep(&mut self) {
        while matches!(self.peek(), Tok::Nl) && !self.at_end() || self.is_p(";") {
            self.pos += 1;
        }
    }

    // ---------------- expressions
    fn expr(&mut self) -> PResult<Expr> {
        let c = self.binary()?;
        if matches!(self.lang, Lang::CSharp | Lang::D) && self.eat_p("?") {
            let a = self.expr()?;
            self.expect_p(":")?;
            let b = self.expr()?;
            return Ok(Expr::Cond(Box::new(c), Box::new(a), Box::new(b)));
        }
        Ok(c)
    }

    fn binop_here(&self) -> Option<(Op, u8)> {
        // class 0 comparison, 1 additive, 2 shift, 3 bitwise
        match self.peek() {
            Tok::P("!=") => Some((Op::Ne, 0)),
            Tok::P("==") => Some((Op::Eq, 0)),
            Tok::P("-") => Some((Op::Sub, 1)),
            Tok::P("+") => Some((Op::Add, 1)),
            Tok::P("<<") => Some((Op::Shl, 2)),
            Tok::P(">>") => Some((Op::Shr, 2)),
            Tok::P("&") => Some((Op::And, 3)),
            Tok::P("|") => Some((Op::Or, 3)),
            _ => None,
        }
    }

    /// flat `unary (op unary)*`; operator classes may not be mixed without parentheses except
    /// for one comparison at the outermost level (lowest precedence in all four languages)
    fn binary(&mut self) -> PResult<Expr> {
        let mut items = vec![self.unary()?];
        let mut ops = Vec::new();
        while let Some((op, class)) = self.binop_here() {
            self.pos += 1;
            ops.push((op, class));
            items.push(self.unary()?);
        }
        if ops.is_empty() {
            return Ok(items.pop().unwrap());
        }
        let cmp: Vec<usize> = ops.iter().enumerate().filter(|(_, o)| o.1 == 0).map(|(i, _)| i).collect();
        if cmp.len() > 1 {
            return Err("chained comparisons".into());
        }
        fn fold(items: &[Expr], ops: &[(Op, u8)]) -> PResult<Expr> {
            if ops.is_empty() {
                return Ok(items[0].clone());
            }
            let class = ops[0].1;
            if ops.iter().any(|o| o.1 != class) || (class == 2 && ops.len() > 1) {
                return Err("mixed binary operators without parentheses are outside the micro-grammar".into());
            }
            let mut e = items[0].clone();
            for (k, (op, _)) in ops.iter().enumerate() {
                e = Expr::Bin(*op, Box::new(e), Box::new(items[k + 1].clone()));
            }
            Ok(e)
        }
        if let Some(&k) = cmp.first() {
            let l = fold(&items[..=k], &ops[..k])?;
            let r = fold(&items[k + 1..], &ops[k + 1..])?;
            return Ok(Expr::Bin(ops[k].0, Box::new(l), Box::new(r)));
        }
        fold(&items, &ops)
    }

    fn args(&mut self) -> PResult<Vec<Expr>> {
        self.expect_p("(")?;
        let mut v = Vec::new();
        if self.eat_p(")") {
            return Ok(v);
        }
        loop {
            v.push(self.expr()?);
            if self.eat_p(",") {
                continue;
            }
            self.expect_p(")")?;
            return Ok(v);
        }
    }

    fn unary(&mut self) -> PResult<Expr> {
        if self.is_p("-") {
            // negative literal only
            if let Tok::Num(n) = self.peek_at(1).clone() {
                self.pos += 2;
                return Ok(Expr::Lit(-n));
            }
            return Err("unary minus".into());
        }
        // C# cast: '(' type ')' unary
        if self.lang == Lang::CSharp && self.is_p("(") {
            if let (Tok::Id(n), Tok::P(")")) = (self.peek_at(1).clone(), self.peek_at(2).clone()) {
                if let Some(t) = type_of(self.lang, &n) {
                    self.pos += 3;
                    let inner = self.unary()?;
                    return Ok(Expr::Cast(t, Box::new(inner)));
                }
            }
        }
        let mut e = self.primary()?;
        // MoonBit method calls
        while self.lang == Lang::MoonBit && self.is_p(".") {
            self.pos += 1;
            let m = self.ident()?;
            let a = self.args()?;
            e = Expr::Method(Box::new(e), m, a);
        }
        Ok(e)
    }

    fn primary(&mut self) -> PResult<Expr> {
        match self.peek().clone() {
            Tok::Num(n) => {
                self.pos += 1;
                Ok(Expr::Lit(n))
            }
            Tok::P("(") => {
                self.pos += 1;
                let e = self.expr()?;
                self.expect_p(")")?;
                Ok(e)
            }
            Tok::Id(id) => {
                self.pos += 1;
                match (self.lang, id.as_str()) {
                    (_, "true") => return Ok(Expr::BoolLit(true)),
                    (_, "false") => return Ok(Expr::BoolLit(false)),
                    (Lang::CSharp, "unchecked") => {
                        // unchecked(e): evaluation context marker; all casts already wrap
                        self.expect_p("(")?;
                        let e = self.expr()?;
                        self.expect_p(")")?;
                        return Ok(e);
                    }
                    (Lang::D, "cast") => {
                        self.expect_p("(")?;
                        let t = self.ty()?;
                        self.expect_p(")")?;
                        let inner = self.unary()?;
                        return Ok(Expr::Cast(t, Box::new(inner)));
                    }
                    (Lang::MoonBit, "if") => {
                        let c = self.expr()?;
                        self.expect_p("{")?;
                        let a = self.expr()?;
                        self.expect_p("}")?;
                        if !self.is_id("else") {
                            return Err("if without else".into());
                        }
                        self.pos += 1;
                        self.expect_p("{")?;
                        let b = self.expr()?;
                        self.expect_p("}")?;
                        return Ok(Expr::Cond(Box::new(c), Box::new(a), Box::new(b)));
                    }
                    _ => {}
                }
                // Go conversion T(x)
                if self.lang == Lang::Go && self.is_p("(") {
                    if let Some(t) = type_of(self.lang, &id) {
                        let a = self.args()?;
                        if a.len() != 1 {
                            return Err("conversion with != 1 operand".into());
                        }
                        return Ok(Expr::Cast(t, Box::new(a.into_iter().next().unwrap())));
                    }
                }
                // MoonBit `Int::unsafe_to_char(x)`
                if self.lang == Lang::MoonBit && self.is_p("::") {
                    self.pos += 1;
                    let m = self.ident()?;
                    let a = self.args()?;
                    return Ok(Expr::Call(format!("{id}::{m}"), a));
                }
                // qualified path a.b.c( ... ) in Go / C# / D: call of the last segment
                let mut last = id.clone();
                let mut qualified = false;
                if self.lang != Lang::MoonBit {
                    while self.is_p(".") {
                        if let Tok::Id(n) = self.peek_at(1).clone() {
                            self.pos += 2;
                            last = n;
                            qualified = true;
                        } else {
                            return Err("`.` not followed by a name".into());
                        }
                    }
                }
                if self.is_p("(") {
                    let a = self.args()?;
                    return Ok(Expr::Call(last, a));
                }
                if qualified {
                    return Err("member access is outside the micro-grammar".into());
                }
                Ok(Expr::Var(id))
            }
            t => Err(format!("unexpected token {:?} in expression", t)),
        }
    }

    // ---------------- statements
    fn block_until_end(&mut self) -> PResult<Vec<Stmt>> {
        let mut out = Vec::new();
        loop {
            self.skip_sep();
            if self.at_end() || self.is_p("}") {
                return Ok(out);
            }
            out.push(self.stmt()?);
        }
    }

    fn braced(&mut self) -> PResult<Vec<Stmt>> {
        self.expect_p("{")?;
        let b = self.block_until_end()?;
        self.expect_p("}")?;
        Ok(b)
    }

    fn end_stmt(&mut self) -> PResult<()> {
        match self.lang {
            Lang::CSharp | Lang::D => self.expect_p(";"),
            Lang::Go | Lang::MoonBit => {
                if self.is_p(";") || matches!(self.peek(), Tok::Nl) || self.is_p("}") {
                    Ok(())
                } else {
                    Err(format!("expected end of statement, found {:?}", self.peek()))
                }
            }
        }
    }

    fn stmt(&mut self) -> PResult<Stmt> {
        if self.is_id("return") {
            self.pos += 1;
            let e = self.expr()?;
            self.end_stmt()?;
            return Ok(Stmt::Return(e));
        }
        match self.lang {
            Lang::Go => {
                if self.is_id("var") {
                    self.pos += 1;
                    let name = self.ident()?;
                    let ty = self.ty()?;
                    let init = if self.eat_p("=") { Some(self.expr()?) } else { None };
                    self.end_stmt()?;
                    return Ok(Stmt::Let { name, ty: Some(ty), init });
                }
                if self.is_id("if") {
                    self.pos += 1;
                    let c = self.expr()?;
                    let a = self.braced()?;
                    let b = if self.is_id("else") {
                        self.pos += 1;
                        self.braced()?
                    } else {
                        vec![]
                    };
                    return Ok(Stmt::If(c, a, b));
                }
                let name = self.ident()?;
                if self.eat_p(":=") {
                    let e = self.expr()?;
                    self.end_stmt()?;
                    return Ok(Stmt::Let { name, ty: None, init: Some(e) });
                }
                self.expect_p("=")?;
                let e = self.expr()?;
                self.end_stmt()?;
                Ok(Stmt::Assign(name, e))
            }
            Lang::CSharp => {
                if let (Tok::Id(a), Tok::Id(b)) = (self.peek().clone(), self.peek_at(1).clone()) {
                    // `T x;` / `T x = e;` / `var x = e;`
                    let ty = if a == "var" { None } else { Some(type_of(self.lang, &a).ok_or(format!("unknown C# type `{a}`"))?) };
                    self.pos += 2;
                    let init = if self.eat_p("=") { Some(self.expr()?) } else { None };
                    self.end_stmt()?;
                    return Ok(Stmt::Let { name: b, ty, init });
                }
                let name = self.ident()?;
                self.expect_p("=")?;
                let e = self.expr()?;
                self.end_stmt()?;
                Ok(Stmt::Assign(name, e))
            }
            Lang::D => {
                if let (Tok::Id(a), Tok::Id(b)) = (self.peek().clone(), self.peek_at(1).clone()) {
                    let ty = if a == "auto" { None } else { Some(type_of(self.lang, &a).ok_or(format!("unknown D type `{a}`"))?) };
                    self.pos += 2;
                    let init = if self.eat_p("=") { Some(self.expr()?) } else { None };
                    self.end_stmt()?;
                    return Ok(Stmt::Let { name: b, ty, init });
                }
                let name = self.ident()?;
                self.expect_p("=")?;
                let e = self.expr()?;
                self.end_stmt()?;
                Ok(Stmt::Assign(name, e))
            }
            Lang::MoonBit => {
                if self.is_id("let") {
                    self.pos += 1;
                    let paren = self.eat_p("(");
                    let name = self.ident()?;
                    if paren {
                        self.expect_p(")")?;
                    }
                    let ty = if self.eat_p(":") {
                        let p2 = self.eat_p("(");
                        let t = self.ty()?;
                        if p2 {
                            self.expect_p(")")?;
                        }
                        Some(t)
                    } else {
                        None
                    };
                    self.expect_p("=")?;
                    let e = self.expr()?;
                    self.end_stmt()?;
                    return Ok(Stmt::Let { name, ty, init: Some(e) });
                }
                // trailing expression = the function's value
                let e = self.expr()?;
                self.end_stmt()?;
                self.skip_sep();
                if !self.at_end() {
                    return Err("expression statement that is not the last statement".into());
                }
                Ok(Stmt::Return(e))
            }
        }
    }
}

// ------------------------------------------------------------------------------------------
// function discovery

pub struct Source<'a> {
    pub lang: Lang,
    pub file: &'a str,
    pub text: &'a str,
    pub toks: Vec<Token>,
}

impl<'a> Source<'a> {
    pub fn new(lang: Lang, file: &'a str, text: &'a str) -> Self {
        let nl = matches!(lang, Lang::Go | Lang::MoonBit);
        Source { lang, file, text, toks: tokenize(text, nl) }
    }

    fn matching(&self, open: usize, o: &str, c: &str) -> Option<usize> {
        let mut d = 0;
        for i in open..self.toks.len() {
            match &self.toks[i].t {
                Tok::P(p) if *p == o => d += 1,
                Tok::P(p) if *p == c => {
                    d -= 1;
                    if d == 0 {
                        return Some(i);
                    }
                }
                _ => {}
            }
        }
        None
    }

    /// Find the declaration/definition of `name`; returns (params, ret, body token range)
    pub fn find(&self, name: &str) -> Result<(Vec<(String, Ty)>, Ty, Option<(usize, usize)>), String> {
        let lang = self.lang;
        let mut found = Vec::new();
        for i in 1..self.toks.len().saturating_sub(1) {
            if self.toks[i].t != Tok::Id(name.to_string()) || self.toks[i + 1].t != Tok::P("(") {
                continue;
            }
            let prev = &self.toks[i - 1].t;
            let ok = match lang {
                Lang::Go => *prev == Tok::Id("func".into()),
                Lang::MoonBit => *prev == Tok::Id("fn".into()),
                Lang::CSharp | Lang::D => matches!(prev, Tok::Id(p) if type_of(lang, p).is_some()),
            };
            if ok {
                found.push(i);
            }
        }
        if found.len() != 1 {
            return Err(format!("{}: expected exactly one declaration of `{name}`, found {}", self.file, found.len()));
        }
        let i = found[0];
        let close = self.matching(i + 1, "(", ")").ok_or("unbalanced parameter list")?;
        let mut p = Parser { lang, toks: &self.toks, pos: i + 2, end: close };
        let mut params = Vec::new();
        let mut anon = 0;
        while !p.at_end() {
            match lang {
                Lang::Go => {
                    let n = p.ident()?;
                    let t = p.ty()?;
                    params.push((n, t));
                }
                Lang::MoonBit => {
                    let n = p.ident()?;
                    p.expect_p(":")?;
                    let t = p.ty()?;
                    params.push((n, t));
                }
                Lang::CSharp | Lang::D => {
                    let t = p.ty()?;
                    let n = if let Tok::Id(_) = p.peek() {
                        p.ident()?
                    } else {
                        anon += 1;
                        format!("_anon{anon}")
                    };
                    params.push((n, t));
                }
            }
            if !p.at_end() {
                p.expect_p(",")?;
            }
        }
        // return type and body
        let mut q = Parser { lang, toks: &self.toks, pos: close + 1, end: self.toks.len() };
        let ret = match lang {
            Lang::Go => q.ty()?,
            Lang::MoonBit => {
                q.expect_p("->")?;
                q.ty()?
            }
            Lang::CSharp | Lang::D => match &self.toks[i - 1].t {
                Tok::Id(p) => type_of(lang, p).unwrap(),
                _ => unreachable!(),
            },
        };
        // D attributes between `)` and `{`
        while lang == Lang::D && (q.is_p("@") || matches!(q.peek(), Tok::Id(a) if ["trusted", "nothrow", "safe", "pure", "nogc", "system"].contains(&a.as_str()))) {
            q.pos += 1;
        }
        if lang == Lang::CSharp || lang == Lang::D {
            // allow a line break before `{`
        }
        while matches!(q.peek(), Tok::Nl) && lang == Lang::CSharp {
            q.pos += 1;
        }
        let body = if q.is_p("{") {
            let end = self.matching(q.pos, "{", "}").ok_or("unbalanced body")?;
            Some((q.pos + 1, end))
        } else {
            None
        };
        Ok((params, ret, body))
    }

    pub fn func(&self, name: &str) -> Result<Func, String> {
        let (params, ret, body) = self.find(name)?;
        let (s, e) = body.ok_or(format!("{}: `{name}` has no body", self.file))?;
        let mut p = Parser { lang: self.lang, toks: &self.toks, pos: s, end: e };
        let stmts = p
            .block_until_end()
            .map_err(|m| format!("{}: body of `{name}` is outside the micro-grammar: {m}", self.file))?;
        if !p.at_end() {
            return Err(format!("{}: trailing tokens in body of `{name}`: {:?}", self.file, p.peek()));
        }
        let a = self.toks[s - 1].at;
        let b = self.toks[e].at + 1;
        let src = self.text[a..b].split_whitespace().collect::<Vec<_>>().join(" ");
        Ok(Func { name: name.to_string(), params, ret, body: stmts, src })
    }

    pub fn sig(&self, name: &str) -> Result<Sig, String> {
        let (params, ret, _) = self.find(name)?;
        Ok(Sig { params: params.into_iter().map(|p| p.1).collect(), ret })
    }

    /// D: `alias <name> = R function(P x);`
    pub fn d_alias_sig(&self, name: &str) -> Result<Sig, String> {
        for i in 0..self.toks.len().saturating_sub(6) {
            if self.toks[i].t == Tok::Id(name.to_string()) && self.toks[i + 1].t == Tok::P("=") {
                let mut p = Parser { lang: self.lang, toks: &self.toks, pos: i + 2, end: self.toks.len() };
                let ret = p.ty()?;
                if !p.is_id("function") {
                    return Err(format!("alias {name}: expected `function`"));
                }
                p.pos += 1;
                p.expect_p("(")?;
                let t = p.ty()?;
                if let Tok::Id(_) = p.peek() {
                    p.pos += 1;
                }
                p.expect_p(")")?;
                return Ok(Sig { params: vec![t], ret });
            }
        }
        Err(format!("{}: alias `{name}` not found", self.file))
    }
}

/// (site, type) -> probe, for one backend. site: "imp" | "exp".
pub type Probes = BTreeMap<(&'static str, WTy), Probe>;

fn file<'a>(files: &'a BTreeMap<String, String>, name: &str) -> Result<&'a str, String> {
    // generators differ in how they spell paths (`a//b`, leading `./`): compare normalised
    let norm = |p: &str| p.split('/').filter(|s| !s.is_empty() && *s != ".").collect::<Vec<_>>().join("/");
    files
        .iter()
        .find(|(k, _)| norm(k) == norm(name))
        .map(|(_, s)| s.as_str())
        .ok_or(format!("generated output has no file `{name}` (has: {:?})", files.keys().collect::<Vec<_>>()))
}

pub fn discover(lang: Lang, files: &BTreeMap<String, String>) -> Result<Probes, String> {
    let mut out = Probes::new();
    let mut helpers = std::sync::Arc::new(super::wasm::Helpers::new());
    match lang {
        Lang::Go => {
            let imp_t = file(files, "wit_world/wit_bindings.go")?;
            let exp_t = file(files, "wit_exports.go")?;
            let stub_t = file(files, "export_wit_world/wit_bindings.go")?;
            let imp = Source::new(lang, "wit_world/wit_bindings.go", imp_t);
            let exp = Source::new(lang, "wit_exports.go", exp_t);
            let stub = Source::new(lang, "export_wit_world/wit_bindings.go", stub_t);
            for t in crate::refabi::ALL {
                let cam = t.camel();
                let core = format!("wasm_import_imp_{}", t.name());
                out.insert(("imp", t), Probe { func: imp.func(&format!("Imp{cam}"))?, opaque_sig: imp.sig(&core)?, opaque: core, helpers: helpers.clone() });
                let user = format!("Exp{cam}");
                out.insert(
                    ("exp", t),
                    Probe { func: exp.func(&format!("wasm_export_wit_world_exp_{}", t.name()))?, opaque_sig: stub.sig(&user)?, opaque: user, helpers: helpers.clone() },
                );
            }
        }
        Lang::CSharp => {
            let text = file(files, "Probe.cs")?;
            let src = Source::new(lang, "Probe.cs", text);
            for t in crate::refabi::ALL {
                let cam = t.camel();
                let core = format!("wasmImportImp{cam}");
                out.insert(("imp", t), Probe { func: src.func(&format!("Imp{cam}"))?, opaque_sig: src.sig(&core)?, opaque: core, helpers: helpers.clone() });
                let user = format!("Exp{cam}");
                out.insert(("exp", t), Probe { func: src.func(&format!("wasmExportExp{cam}"))?, opaque_sig: src.sig(&user)?, opaque: user, helpers: helpers.clone() });
            }
        }
        Lang::MoonBit => {
            let imp = Source::new(lang, "world/probe/import.mbt", file(files, "world/probe/import.mbt")?);
            let ffi_imp = Source::new(lang, "world/probe/ffi_import.mbt", file(files, "world/probe/ffi_import.mbt")?);
            let exp = Source::new(lang, "world/probe/ffi.mbt", file(files, "world/probe/ffi.mbt")?);
            let top = Source::new(lang, "world/probe/top.mbt", file(files, "world/probe/top.mbt")?);
            // the package's `extern "wasm"` helpers, interpreted from their inline wasm text
            let mut hs = super::wasm::Helpers::new();
            for (name, text) in files {
                let n: Vec<&str> = name.split('/').filter(|s| !s.is_empty() && *s != ".").collect();
                if n.len() == 3 && n[0] == "world" && n[1] == "probe" && n[2].ends_with(".mbt") {
                    super::wasm::discover(name, text, &mut hs)?;
                }
            }
            helpers = std::sync::Arc::new(hs);
            let root_ffi = file(files, "ffi.mbt")?;
            for t in crate::refabi::ALL {
                let cam = t.camel();
                let core = format!("wasmImportImp{cam}");
                out.insert(("imp", t), Probe { func: imp.func(&format!("imp_{}", t.name()))?, opaque_sig: ffi_imp.sig(&core)?, opaque: core, helpers: helpers.clone() });
                let user = format!("exp_{}", t.name());
                let glue = format!("wasmExportExp{cam}");
                out.insert(("exp", t), Probe { func: exp.func(&glue)?, opaque_sig: top.sig(&user)?, opaque: user, helpers: helpers.clone() });
                // the root package re-exports the glue through a forwarder without conversions
                let k = root_ffi.find(&format!("fn {glue}(")).ok_or(format!("ffi.mbt: no forwarder {glue}"))?;
                let o = root_ffi[k..].find('{').ok_or("forwarder without body")? + k;
                let c = root_ffi[o..].find('}').ok_or("forwarder without end")? + o;
                let body: String = root_ffi[o + 1..c].split_whitespace().collect();
                if body != format!("@probe.{glue}(p0)") {
                    return Err(format!("ffi.mbt: forwarder {glue} is not a plain forward: {body}"));
                }
            }
        }
        Lang::D => {
            let name = "wit/t/c14/probe/package.d";
            let src = Source::new(lang, name, file(files, name)?);
            for t in crate::refabi::ALL {
                let cam = t.camel();
                let core = format!("__import_imp{cam}");
                out.insert(("imp", t), Probe { func: src.func(&format!("imp{cam}"))?, opaque_sig: src.sig(&core)?, opaque: core, helpers: helpers.clone() });
                let user = format!("exp{cam}_Impl");
                out.insert(
                    ("exp", t),
                    Probe { func: src.func(&format!("__export_exp{cam}"))?, opaque_sig: src.d_alias_sig(&format!("exp{cam}_Sig"))?, opaque: user, helpers: helpers.clone() },
                );
            }
        }
    }
    Ok(out)
}
