//! Rust / C / C++: the generated file is compiled *whole and unmodified* with the real compiler
//! (rustc / gcc / g++) for the host; the imported core functions and the user-level export
//! implementations are defined by a small adapter that records the value it received and
//! returns a chosen one, so every scalar conversion is observed in isolation.
//! (Rust only: the `#[cfg(not(target_arch = "wasm32"))] ... { unreachable!() }` import shim is
//! redirected to the recording stub; the conversion code itself is untouched.)
use crate::refabi::{WTy, ALL};
use std::collections::{BTreeMap, VecDeque};
use std::io::Write;
use std::process::{Command, Stdio};
use std::sync::{Arc, Mutex};

pub const DRIVER_C: &str = include_str!("native/driver.c");

#[derive(Clone, Debug)]
pub struct Build {
    /// "c", "cpp", "rust-debug-assertions", "rust-release"
    pub name: String,
    /// backend for violation keys
    pub backend: &'static str,
    pub exe: String,
    /// never feed inputs on which the generated code has undefined behaviour
    pub valid_only: bool,
}

fn c_user(t: WTy) -> &'static str {
    match t {
        WTy::Bool => "bool",
        WTy::U8 => "uint8_t",
        WTy::S8 => "int8_t",
        WTy::U16 => "uint16_t",
        WTy::S16 => "int16_t",
        WTy::U32 => "uint32_t",
        WTy::S32 => "int32_t",
        WTy::U64 => "uint64_t",
        WTy::S64 => "int64_t",
        WTy::F32 => "float",
        WTy::F64 => "double",
        WTy::Char => "uint32_t",
    }
}
fn c_core(t: WTy) -> &'static str {
    match t {
        WTy::U64 | WTy::S64 => "int64_t",
        WTy::F32 => "float",
        WTy::F64 => "double",
        _ => "int32_t",
    }
}
fn c_user_of(t: WTy, e: &str) -> String {
    match t {
        WTy::Bool => format!("((({e}) & 1) != 0)"),
        WTy::F32 => format!("f32_of({e})"),
        WTy::F64 => format!("f64_of({e})"),
        _ => format!("(({})({e}))", c_user(t)),
    }
}
fn c_user_bits(t: WTy, e: &str) -> String {
    match t {
        WTy::F32 => format!("bits_f32({e})"),
        WTy::F64 => format!("bits_f64({e})"),
        WTy::S8 | WTy::S16 | WTy::S32 | WTy::S64 => format!("((uint64_t)(int64_t)({e}))"),
        _ => format!("((uint64_t)({e}))"),
    }
}
fn c_core_of(t: WTy, e: &str) -> String {
    match t {
        WTy::F32 => format!("f32_of({e})"),
        WTy::F64 => format!("f64_of({e})"),
        WTy::U64 | WTy::S64 => format!("((int64_t)({e}))"),
        _ => format!("((int32_t)(uint32_t)({e}))"),
    }
}
fn c_core_bits(t: WTy, e: &str) -> String {
    match t {
        WTy::F32 => format!("bits_f32({e})"),
        WTy::F64 => format!("bits_f64({e})"),
        WTy::U64 | WTy::S64 => format!("((uint64_t)({e}))"),
        _ => format!("((uint64_t)(uint32_t)({e}))"),
    }
}

const C_PRELUDE: &str = r#"
#include <stdint.h>
#include <stdbool.h>
#include <string.h>
static uint64_t g_seen, g_ret; static int g_called;
static inline float f32_of(uint64_t b) { uint32_t u = (uint32_t)b; float f; memcpy(&f, &u, 4); return f; }
static inline double f64_of(uint64_t b) { double f; memcpy(&f, &b, 8); return f; }
static inline uint64_t bits_f32(float f) { uint32_t u; memcpy(&u, &f, 4); return u; }
static inline uint64_t bits_f64(double f) { uint64_t u; memcpy(&u, &f, 8); return u; }
"#;

/// names: (import core symbol, import wrapper, export core symbol, export user impl)
fn adapter_c_like(cpp: bool) -> String {
    let mut s = String::new();
    if cpp {
        s.push_str("#include \"probe_cpp.h\"\n");
    } else {
        s.push_str("#include \"probe.h\"\n");
    }
    s.push_str(C_PRELUDE);
    if !cpp {
        s.push_str("void __component_type_object_force_link_probe(void) {}\n");
    }
    for t in ALL {
        let n = t.name();
        let cam = t.camel();
        let (imp_core, imp_wrap, exp_core, exp_impl) = if cpp {
            (
                format!("__wasm_import_imp_{n}"),
                format!("probe::Imp{cam}"),
                format!("__wasm_export_exp_{n}"),
                format!("exports::probe::Exp{cam}"),
            )
        } else {
            (
                format!("__wasm_import_probe_imp_{n}"),
                format!("probe_imp_{n}"),
                format!("__wasm_export_exports_probe_exp_{n}"),
                format!("exports_probe_exp_{n}"),
            )
        };
        let (u, c) = (c_user(t), c_core(t));
        let ext = if cpp { "extern \"C\" " } else { "" };
        s.push_str(&format!(
            "{ext}{c} {imp_core}({c} a) {{ g_called = 1; g_seen = {seen}; return {ret}; }}\n",
            seen = c_core_bits(t, "a"),
            ret = c_core_of(t, "g_ret"),
        ));
        s.push_str(&format!(
            "{ext}int glue_imp_{n}(uint64_t v, uint64_t c, uint64_t *out) {{ g_called = 0; g_seen = 0; g_ret = c; {u} r = {imp_wrap}({arg}); out[0] = g_seen; out[1] = {bits}; return g_called << 1; }}\n",
            arg = c_user_of(t, "v"),
            bits = c_user_bits(t, "r"),
        ));
        s.push_str(&format!("{ext}{c} {exp_core}({c});\n"));
        s.push_str(&format!(
            "{u} {exp_impl}({u} x) {{ g_called = 1; g_seen = {seen}; return {ret}; }}\n",
            seen = c_user_bits(t, "x"),
            ret = c_user_of(t, "g_ret"),
        ));
        s.push_str(&format!(
            "{ext}int glue_exp_{n}(uint64_t v, uint64_t c, uint64_t *out) {{ g_called = 0; g_seen = 0; g_ret = v; {c} r = {exp_core}({arg}); out[1] = g_seen; out[0] = {bits}; return g_called << 1; }}\n",
            arg = c_core_of(t, "c"),
            bits = c_core_bits(t, "r"),
        ));
    }
    if cpp {
        s.push_str("extern \"C\" int driver_main(int, char**);\nint main(int argc, char **argv) { return driver_main(argc, argv); }\n");
    } else {
        s.push_str("int driver_main(int, char**);\nint main(int argc, char **argv) { return driver_main(argc, argv); }\n");
    }
    s
}

fn r_user(t: WTy) -> &'static str {
    match t {
        WTy::Bool => "bool",
        WTy::U8 => "u8",
        WTy::S8 => "i8",
        WTy::U16 => "u16",
        WTy::S16 => "i16",
        WTy::U32 => "u32",
        WTy::S32 => "i32",
        WTy::U64 => "u64",
        WTy::S64 => "i64",
        WTy::F32 => "f32",
        WTy::F64 => "f64",
        WTy::Char => "char",
    }
}
fn r_core(t: WTy) -> &'static str {
    match t {
        WTy::U64 | WTy::S64 => "i64",
        WTy::F32 => "f32",
        WTy::F64 => "f64",
        _ => "i32",
    }
}
fn r_user_of(t: WTy, e: &str) -> String {
    match t {
        WTy::Bool => format!("(({e}) & 1 != 0)"),
        WTy::F32 => format!("f32::from_bits(({e}) as u32)"),
        WTy::F64 => format!("f64::from_bits({e})"),
        WTy::Char => format!("char::from_u32(({e}) as u32).unwrap()"),
        _ => format!("(({e}) as {})", r_user(t)),
    }
}
fn r_user_bits(t: WTy, e: &str) -> String {
    match t {
        WTy::F32 => format!("(({e}).to_bits() as u64)"),
        WTy::F64 => format!("({e}).to_bits()"),
        WTy::Char => format!("(({e}) as u32 as u64)"),
        WTy::S8 | WTy::S16 | WTy::S32 | WTy::S64 => format!("(({e}) as i64 as u64)"),
        _ => format!("(({e}) as u64)"),
    }
}
fn r_core_of(t: WTy, e: &str) -> String {
    match t {
        WTy::F32 => format!("f32::from_bits(({e}) as u32)"),
        WTy::F64 => format!("f64::from_bits({e})"),
        WTy::U64 | WTy::S64 => format!("(({e}) as i64)"),
        _ => format!("(({e}) as u32 as i32)"),
    }
}
fn r_core_bits(t: WTy, e: &str) -> String {
    match t {
        WTy::F32 => format!("(({e}).to_bits() as u64)"),
        WTy::F64 => format!("({e}).to_bits()"),
        WTy::U64 | WTy::S64 => format!("(({e}) as u64)"),
        _ => format!("(({e}) as u32 as u64)"),
    }
}

/// Redirect the non-wasm import shims of the generated Rust to the recording stubs.
fn rewrite_rust_shims(text: &str) -> Result<String, String> {
    let mut out = String::new();
    let mut n = 0;
    for line in text.lines() {
        if line.contains("fn wit_import") && line.contains("{ unreachable!() }") {
            let a = line.find("(_: ").ok_or("shim without `(_: `")?;
            let b = line[a..].find(", )").ok_or("shim without `, )`")? + a;
            let pty = line[a + 4..b].trim();
            let r = line.find("-> ").ok_or("shim without result")?;
            let e = line.find(" { unreachable!() }").unwrap();
            let rty = line[r + 3..e].trim();
            if pty != rty || !["i32", "i64", "f32", "f64"].contains(&pty) {
                return Err(format!("unexpected import shim signature: {line}"));
            }
            out.push_str(&line[..a]);
            out.push_str(&format!("(a: {pty}, ) -> {rty} {{ crate::h_stub_{pty}(a) }}\n"));
            n += 1;
        } else {
            out.push_str(line);
            out.push('\n');
        }
    }
    if n != 12 {
        return Err(format!("expected 12 non-wasm import shims in generated Rust, found {n}"));
    }
    Ok(out)
}

fn adapter_rust() -> String {
    let mut s = String::from(
        r#"
// ---- C14 adapter (not generated code) ----
mod wit_bindgen { pub mod rt { pub fn maybe_link_cabi_realloc() {} } }
static mut G_SEEN: u64 = 0; static mut G_RET: u64 = 0; static mut G_CALLED: i32 = 0;
#[inline(never)] pub fn h_stub_i32(a: i32) -> i32 { unsafe { G_CALLED = 1; G_SEEN = a as u32 as u64; G_RET as u32 as i32 } }
#[inline(never)] pub fn h_stub_i64(a: i64) -> i64 { unsafe { G_CALLED = 1; G_SEEN = a as u64; G_RET as i64 } }
#[inline(never)] pub fn h_stub_f32(a: f32) -> f32 { unsafe { G_CALLED = 1; G_SEEN = a.to_bits() as u64; f32::from_bits(G_RET as u32) } }
#[inline(never)] pub fn h_stub_f64(a: f64) -> f64 { unsafe { G_CALLED = 1; G_SEEN = a.to_bits(); f64::from_bits(G_RET) } }
struct Impl;
"#,
    );
    s.push_str("impl Guest for Impl {\n");
    for t in ALL {
        let n = t.name();
        let u = r_user(t);
        s.push_str(&format!(
            "  #[inline(never)] fn exp_{n}(x: {u}) -> {u} {{ unsafe {{ G_CALLED = 1; G_SEEN = {seen}; {ret} }} }}\n",
            seen = r_user_bits(t, "x"),
            ret = r_user_of(t, "G_RET"),
        ));
    }
    s.push_str("}\n");
    for t in ALL {
        let n = t.name();
        let c = r_core(t);
        s.push_str(&format!(
            r#"#[no_mangle] pub unsafe extern "C" fn glue_imp_{n}(v: u64, c: u64, out: *mut u64) -> i32 {{
  G_CALLED = 0; G_SEEN = 0; G_RET = c;
  let x = {arg};
  match std::panic::catch_unwind(move || imp_{n}(x)) {{
    Ok(r) => {{ *out = G_SEEN; *out.add(1) = {bits}; G_CALLED << 1 }}
    Err(_) => {{ *out = G_SEEN; (G_CALLED << 1) | 1 }}
  }}
}}
#[no_mangle] pub unsafe extern "C" fn glue_exp_{n}(v: u64, c: u64, out: *mut u64) -> i32 {{
  G_CALLED = 0; G_SEEN = 0; G_RET = v;
  let a: {c} = {carg};
  match std::panic::catch_unwind(move || unsafe {{ _export_exp_{n}_cabi::<Impl>(a) }}) {{
    Ok(r) => {{ *out = {cbits}; *out.add(1) = G_SEEN; G_CALLED << 1 }}
    Err(_) => {{ *out.add(1) = G_SEEN; (G_CALLED << 1) | 1 }}
  }}
}}
"#,
            arg = r_user_of(t, "v"),
            bits = r_user_bits(t, "r"),
            carg = r_core_of(t, "c"),
            cbits = r_core_bits(t, "r"),
        ));
    }
    s.push_str(
        r#"
extern "C" { fn driver_main(argc: i32, argv: *const *const std::os::raw::c_char) -> i32; }
fn main() {
  std::panic::set_hook(Box::new(|_| {}));
  let args: Vec<std::ffi::CString> = std::env::args().map(|a| std::ffi::CString::new(a).unwrap()).collect();
  let mut ptrs: Vec<*const std::os::raw::c_char> = args.iter().map(|a| a.as_ptr()).collect();
  ptrs.push(std::ptr::null());
  let rc = unsafe { driver_main(args.len() as i32, ptrs.as_ptr()) };
  std::process::exit(rc);
}
"#,
    );
    s
}

fn run(cmd: &mut Command, what: &str) -> Result<(), String> {
    let out = cmd.output().map_err(|e| format!("{what}: cannot start: {e}"))?;
    if !out.status.success() {
        let err = String::from_utf8_lossy(&out.stderr);
        let tail: String = err.lines().take(30).collect::<Vec<_>>().join("\n");
        return Err(format!("{what} failed:\n{tail}"));
    }
    Ok(())
}

/// Build every native probe program inside `dir`. Errors are machinery failures.
pub fn build_all(dir: &str, gens: &BTreeMap<String, BTreeMap<String, String>>) -> Result<Vec<Build>, String> {
    let w = |name: &str, text: &str| -> Result<(), String> {
        std::fs::write(format!("{dir}/{name}"), text).map_err(|e| format!("write {name}: {e}"))
    };
    w("driver.c", DRIVER_C)?;
    run(
        Command::new("gcc").args(["-O2", "-c", "driver.c", "-o", "driver.o"]).current_dir(dir),
        "gcc driver.c",
    )?;
    // C
    let c = gens.get("c").ok_or("no C output")?;
    w("probe.c", c.get("probe.c").ok_or("C backend did not produce probe.c")?)?;
    w("probe.h", c.get("probe.h").ok_or("C backend did not produce probe.h")?)?;
    w("adapter_c.c", &adapter_c_like(false))?;
    // C++
    let cpp = gens.get("cpp").ok_or("no C++ output")?;
    w("probe.cpp", cpp.get("probe.cpp").ok_or("C++ backend did not produce probe.cpp")?)?;
    w("probe_cpp.h", cpp.get("probe_cpp.h").ok_or("C++ backend did not produce probe_cpp.h")?)?;
    let helper = format!("{}/crates/cpp/helper-types", vcommon::repo_root());
    w("adapter_cpp.cpp", &adapter_c_like(true))?;
    // Rust
    let r = gens.get("rust").ok_or("no Rust output")?;
    let text = rewrite_rust_shims(r.get("probe.rs").ok_or("Rust backend did not produce probe.rs")?)?;
    w("probe_main.rs", &(text + &adapter_rust()))?;

    let dir_s = dir.to_string();
    let mut handles = Vec::new();
    {
        let d = dir_s.clone();
        handles.push(std::thread::spawn(move || {
            run(
                Command::new("gcc")
                    .args(["-O2", "-w", "-I.", "probe.c", "adapter_c.c", "driver.o", "-o", "probe_c"])
                    .current_dir(&d),
                "gcc (generated C)",
            )
        }));
    }
    {
        let d = dir_s.clone();
        handles.push(std::thread::spawn(move || {
            run(
                Command::new("g++")
                    .args(["-O2", "-w", "-std=c++20", "-I.", "-I", &helper, "probe.cpp", "adapter_cpp.cpp", "driver.o", "-o", "probe_cpp"])
                    .current_dir(&d),
                "g++ (generated C++)",
            )
        }));
    }
    for (dbg, out) in [("on", "probe_rust_dbg"), ("off", "probe_rust_rel")] {
        let d = dir_s.clone();
        handles.push(std::thread::spawn(move || {
            run(
                Command::new("rustc")
                    .args([
                        "--edition", "2021", "-A", "warnings", "-C", "opt-level=1",
                        "-C", &format!("debug-assertions={dbg}"), "-C", "overflow-checks=off",
                        "-C", "link-arg=driver.o", "--crate-name", out, "-o", out, "probe_main.rs",
                    ])
                    .env_remove("RUSTFLAGS")
                    .env_remove("CARGO_ENCODED_RUSTFLAGS")
                    .current_dir(&d),
                "rustc (generated Rust)",
            )
        }));
    }
    for h in handles {
        h.join().map_err(|_| "compiler thread panicked".to_string())??;
    }
    Ok(vec![
        Build { name: "c".into(), backend: "c", exe: format!("{dir}/probe_c"), valid_only: false },
        Build { name: "cpp".into(), backend: "cpp", exe: format!("{dir}/probe_cpp"), valid_only: false },
        Build { name: "rust-debug-assertions".into(), backend: "rust", exe: format!("{dir}/probe_rust_dbg"), valid_only: false },
        Build { name: "rust-release".into(), backend: "rust", exe: format!("{dir}/probe_rust_rel"), valid_only: true },
    ])
}

#[derive(Clone, Debug)]
pub struct Job {
    pub build: usize,
    pub exe: String,
    pub args: Vec<String>,
    pub stdin: Option<Arc<String>>,
    pub tag: String,
    /// may be skipped (result None) once the deadline has passed
    pub optional: bool,
}

/// Run jobs on `workers` threads; returns stdout per job (same order). Any failing child is
/// a machinery error. Optional jobs that have not been started when `deadline` passes are
/// skipped (None) — the caller reports the deepest completed bound.
pub fn run_jobs(jobs: Vec<Job>, workers: usize, deadline: Option<std::time::Instant>) -> Result<Vec<Option<String>>, String> {
    let n = jobs.len();
    let queue: Arc<Mutex<VecDeque<(usize, Job)>>> = Arc::new(Mutex::new(jobs.into_iter().enumerate().collect()));
    let results: Arc<Mutex<Vec<Option<Result<Option<String>, String>>>>> = Arc::new(Mutex::new((0..n).map(|_| None).collect()));
    let mut hs = Vec::new();
    for _ in 0..workers.max(1) {
        let q = queue.clone();
        let r = results.clone();
        hs.push(std::thread::spawn(move || loop {
            let next = q.lock().unwrap().pop_front();
            let Some((i, job)) = next else { break };
            let late = deadline.map_or(false, |d| std::time::Instant::now() >= d);
            let res = if job.optional && late { Ok(None) } else { run_one(&job).map(Some) };
            r.lock().unwrap()[i] = Some(res);
        }));
    }
    for h in hs {
        h.join().map_err(|_| "job thread panicked".to_string())?;
    }
    let mut out = Vec::new();
    for (i, r) in Arc::try_unwrap(results).unwrap().into_inner().unwrap().into_iter().enumerate() {
        out.push(r.ok_or(format!("job {i} lost"))??);
    }
    Ok(out)
}

fn run_one(job: &Job) -> Result<String, String> {
    let mut cmd = Command::new(&job.exe);
    cmd.args(&job.args).stdout(Stdio::piped()).stderr(Stdio::piped());
    cmd.stdin(if job.stdin.is_some() { Stdio::piped() } else { Stdio::null() });
    let mut child = cmd.spawn().map_err(|e| format!("{}: spawn: {e}", job.tag))?;
    let feeder = job.stdin.clone().map(|text| {
        let mut si = child.stdin.take().unwrap();
        std::thread::spawn(move || {
            let _ = si.write_all(text.as_bytes());
        })
    });
    let out = child.wait_with_output().map_err(|e| format!("{}: wait: {e}", job.tag))?;
    if let Some(f) = feeder {
        let _ = f.join();
    }
    if !out.status.success() {
        return Err(format!(
            "{}: probe program died ({:?}): {}",
            job.tag,
            out.status,
            String::from_utf8_lossy(&out.stderr).lines().take(5).collect::<Vec<_>>().join(" | ")
        ));
    }
    Ok(String::from_utf8_lossy(&out.stdout).into_owned())
}
