//! Per (engine, build, site, type) statistics, the judge shared by the interpreter path and the
//! native list path, and merging of sweep chunks.
use crate::refabi::{self, Lift, WTy};
use serde_json::{json, Value};

#[derive(Clone, Debug, Default)]
pub struct Bad {
    pub w: u64,
    pub input: u64,
    pub expected: u64,
    pub actual: u64,
}

#[derive(Clone, Debug)]
pub struct Cell {
    pub engine: &'static str,
    pub build: String,
    pub backend: String,
    pub site: String,
    pub t: WTy,
    pub evals: u64,
    pub lower_judged: u64,
    pub bad_lower: u64,
    pub first_bad_lower: Option<Bad>,
    pub lift_judged: u64,
    pub bad_lift: u64,
    pub first_bad_lift: Option<Bad>,
    pub bad_trap: u64,
    pub first_bad_trap: Option<Bad>,
    pub unj_trap: u64,
    pub unj_ret: u64,
    /// for bool: how unjudged inputs came out (true / false / trap), for the record only
    pub unj_true: u64,
    pub lo_or: u64,
    pub lo_and: u64,
    pub li_or: u64,
    pub li_and: u64,
    pub cls_lower: [(u64, u64); 4],
    pub cls_lift: [(u64, u64); 4],
    /// (direction, message, word)
    pub ill_typed: Option<(String, String, u64)>,
    pub body: Option<String>,
    pub exhaustive_32: bool,
    pub samples: Vec<Value>,
}

impl Cell {
    pub fn new(engine: &'static str, build: &str, backend: &str, site: &str, t: WTy) -> Cell {
        Cell {
            engine,
            build: build.to_string(),
            backend: backend.to_string(),
            site: site.to_string(),
            t,
            evals: 0,
            lower_judged: 0,
            bad_lower: 0,
            first_bad_lower: None,
            lift_judged: 0,
            bad_lift: 0,
            first_bad_lift: None,
            bad_trap: 0,
            first_bad_trap: None,
            unj_trap: 0,
            unj_ret: 0,
            unj_true: 0,
            lo_or: 0,
            lo_and: u64::MAX,
            li_or: 0,
            li_and: u64::MAX,
            cls_lower: [(0, 0); 4],
            cls_lift: [(0, 0); 4],
            ill_typed: None,
            body: None,
            exhaustive_32: false,
            samples: Vec::new(),
        }
    }

    /// Judge one observation. `lowered`: core container that crossed the boundary (None if the
    /// stub was not reached); `lifted`: user container (None if trapped before producing it).
    pub fn judge(&mut self, w: u64, v: u64, c: u64, trapped: bool, lowered: Option<u64>, lifted: Option<u64>) {
        let t = self.t;
        self.evals += 1;
        if self.samples.len() < 2 && matches!(w, 0x1FF | 0xFFFF_FF80 | 0x7FC0_0001 | 0x1_8000) {
            self.samples.push(json!({"backend": self.backend, "build": self.build, "site": self.site, "type": t.name(), "word": format!("0x{w:x}"),
                "user_in": show_user(t, v), "core_in": show_core(t, c), "lowered": lowered.map(|x| show_core(t, x)), "lifted": lifted.map(|x| show_user(t, x)), "trapped": trapped}));
        }
        if let Some(lo) = lowered {
            let er = refabi::ref_lower(t, v);
            self.lower_judged += 1;
            let k = refabi::class_of(t, v, false);
            self.cls_lower[k].0 += 1;
            if er != v {
                self.cls_lower[k].1 += 1;
            }
            self.lo_or |= lo;
            self.lo_and &= lo;
            if lo != er {
                self.bad_lower += 1;
                if self.first_bad_lower.as_ref().map_or(true, |b| w < b.w) {
                    self.first_bad_lower = Some(Bad { w, input: v, expected: er, actual: lo });
                }
            }
        }
        match refabi::ref_lift(t, c) {
            Lift::Value(el) => {
                self.lift_judged += 1;
                let k = refabi::class_of(t, c, true);
                self.cls_lift[k].0 += 1;
                if el != c {
                    self.cls_lift[k].1 += 1;
                }
                match lifted {
                    Some(li) if !trapped => {
                        self.li_or |= li;
                        self.li_and &= li;
                        if li != el {
                            self.bad_lift += 1;
                            if self.first_bad_lift.as_ref().map_or(true, |b| w < b.w) {
                                self.first_bad_lift = Some(Bad { w, input: c, expected: el, actual: li });
                            }
                        }
                    }
                    _ => {
                        self.bad_trap += 1;
                        if self.first_bad_trap.as_ref().map_or(true, |b| w < b.w) {
                            self.first_bad_trap = Some(Bad { w, input: c, expected: el, actual: 0 });
                        }
                    }
                }
            }
            Lift::Unjudged => {
                if trapped || lifted.is_none() {
                    self.unj_trap += 1;
                } else {
                    self.unj_ret += 1;
                    if lifted == Some(1) {
                        self.unj_true += 1;
                    }
                }
            }
        }
    }

    pub fn merge(&mut self, o: &Cell) {
        fn min_bad(a: &mut Option<Bad>, b: &Option<Bad>) {
            if let Some(b) = b {
                if a.as_ref().map_or(true, |x| b.w < x.w) {
                    *a = Some(b.clone());
                }
            }
        }
        self.evals += o.evals;
        self.lower_judged += o.lower_judged;
        self.bad_lower += o.bad_lower;
        min_bad(&mut self.first_bad_lower, &o.first_bad_lower);
        self.lift_judged += o.lift_judged;
        self.bad_lift += o.bad_lift;
        min_bad(&mut self.first_bad_lift, &o.first_bad_lift);
        self.bad_trap += o.bad_trap;
        min_bad(&mut self.first_bad_trap, &o.first_bad_trap);
        self.unj_trap += o.unj_trap;
        self.unj_ret += o.unj_ret;
        self.unj_true += o.unj_true;
        self.lo_or |= o.lo_or;
        self.lo_and &= o.lo_and;
        self.li_or |= o.li_or;
        self.li_and &= o.li_and;
        for k in 0..4 {
            self.cls_lower[k].0 += o.cls_lower[k].0;
            self.cls_lower[k].1 += o.cls_lower[k].1;
            self.cls_lift[k].0 += o.cls_lift[k].0;
            self.cls_lift[k].1 += o.cls_lift[k].1;
        }
        if self.ill_typed.is_none() {
            self.ill_typed = o.ill_typed.clone();
        }
        if self.body.is_none() {
            self.body = o.body.clone();
        }
        self.exhaustive_32 |= o.exhaustive_32;
        for x in &o.samples {
            if self.samples.len() < 2 {
                self.samples.push(x.clone());
            }
        }
    }

    /// Parse one `sweep` output line of the native driver.
    pub fn from_sweep_line(engine: &'static str, build: &str, backend: &str, site: &str, t: WTy, line: &str) -> Result<Cell, String> {
        let mut c = Cell::new(engine, build, backend, site, t);
        let hex = |s: &str| u64::from_str_radix(s, 16).map_err(|e| format!("bad hex {s}: {e}"));
        let dec = |s: &str| s.parse::<u64>().map_err(|e| format!("bad number {s}: {e}"));
        let mut seen = 0;
        let mut fbl = vec![];
        let mut fbi = vec![];
        let mut fbt = vec![];
        for kv in line.split_whitespace() {
            let Some((k, v)) = kv.split_once('=') else { continue };
            seen += 1;
            match k {
                "evals" => c.evals = dec(v)?,
                "skipped_invalid" => {}
                "lower_judged" => c.lower_judged = dec(v)?,
                "bad_lower" => c.bad_lower = dec(v)?,
                "lift_judged" => c.lift_judged = dec(v)?,
                "bad_lift" => c.bad_lift = dec(v)?,
                "bad_trap" => c.bad_trap = dec(v)?,
                "unj_trap" => c.unj_trap = dec(v)?,
                "unj_ret" => c.unj_ret = dec(v)?,
                "lo_or" => c.lo_or = hex(v)?,
                "lo_and" => c.lo_and = hex(v)?,
                "li_or" => c.li_or = hex(v)?,
                "li_and" => c.li_and = hex(v)?,
                "fbl" => fbl = v.split(':').map(hex).collect::<Result<Vec<_>, _>>()?,
                "fbi" => fbi = v.split(':').map(hex).collect::<Result<Vec<_>, _>>()?,
                "fbt" => fbt = v.split(':').map(hex).collect::<Result<Vec<_>, _>>()?,
                k if k.starts_with("clo") || k.starts_with("cli") => {
                    let idx: usize = k[3..].parse().map_err(|_| format!("bad class key {k}"))?;
                    let (a, b) = v.split_once(':').ok_or("bad class value")?;
                    let pair = (dec(a)?, dec(b)?);
                    if k.starts_with("clo") {
                        c.cls_lower[idx] = pair;
                    } else {
                        c.cls_lift[idx] = pair;
                    }
                }
                _ => return Err(format!("unknown key {k} in sweep output")),
            }
        }
        if seen < 20 {
            return Err(format!("short sweep output: {line}"));
        }
        if c.bad_lower > 0 {
            c.first_bad_lower = Some(Bad { w: fbl[0], input: fbl[1], expected: fbl[2], actual: fbl[3] });
        }
        if c.bad_lift > 0 {
            c.first_bad_lift = Some(Bad { w: fbi[0], input: fbi[1], expected: fbi[2], actual: fbi[3] });
        }
        if c.bad_trap > 0 {
            c.first_bad_trap = Some(Bad { w: fbt[0], input: fbt[1], expected: 0, actual: 0 });
        }
        Ok(c)
    }

    pub fn to_json(&self) -> Value {
        let bad = |b: &Option<Bad>| match b {
            Some(b) => json!([b.w, b.input, b.expected, b.actual]),
            None => Value::Null,
        };
        json!({
            "build": self.build, "backend": self.backend, "site": self.site, "t": self.t.idx(),
            "evals": self.evals, "lower_judged": self.lower_judged, "bad_lower": self.bad_lower, "fbl": bad(&self.first_bad_lower),
            "lift_judged": self.lift_judged, "bad_lift": self.bad_lift, "fbi": bad(&self.first_bad_lift),
            "bad_trap": self.bad_trap, "fbt": bad(&self.first_bad_trap),
            "unj_trap": self.unj_trap, "unj_ret": self.unj_ret, "unj_true": self.unj_true,
            "lo_or": self.lo_or, "lo_and": self.lo_and, "li_or": self.li_or, "li_and": self.li_and,
            "cls_lower": self.cls_lower.iter().map(|p| json!([p.0, p.1])).collect::<Vec<_>>(),
            "cls_lift": self.cls_lift.iter().map(|p| json!([p.0, p.1])).collect::<Vec<_>>(),
            "ill_typed": self.ill_typed.as_ref().map(|i| json!([i.0, i.1, i.2])),
            "body": self.body, "samples": self.samples,
        })
    }

    pub fn from_json(engine: &'static str, v: &Value) -> Cell {
        let mut c = Cell::new(
            engine,
            v["build"].as_str().unwrap(),
            v["backend"].as_str().unwrap(),
            v["site"].as_str().unwrap(),
            WTy::from_idx(v["t"].as_u64().unwrap() as usize),
        );
        let u = |k: &str| v[k].as_u64().unwrap();
        let bad = |k: &str| -> Option<Bad> {
            v[k].as_array().map(|a| Bad {
                w: a[0].as_u64().unwrap(),
                input: a[1].as_u64().unwrap(),
                expected: a[2].as_u64().unwrap(),
                actual: a[3].as_u64().unwrap(),
            })
        };
        c.evals = u("evals");
        c.lower_judged = u("lower_judged");
        c.bad_lower = u("bad_lower");
        c.first_bad_lower = bad("fbl");
        c.lift_judged = u("lift_judged");
        c.bad_lift = u("bad_lift");
        c.first_bad_lift = bad("fbi");
        c.bad_trap = u("bad_trap");
        c.first_bad_trap = bad("fbt");
        c.unj_trap = u("unj_trap");
        c.unj_ret = u("unj_ret");
        c.unj_true = u("unj_true");
        c.lo_or = u("lo_or");
        c.lo_and = u("lo_and");
        c.li_or = u("li_or");
        c.li_and = u("li_and");
        for k in 0..4 {
            c.cls_lower[k] = (v["cls_lower"][k][0].as_u64().unwrap(), v["cls_lower"][k][1].as_u64().unwrap());
            c.cls_lift[k] = (v["cls_lift"][k][0].as_u64().unwrap(), v["cls_lift"][k][1].as_u64().unwrap());
        }
        c.ill_typed = v["ill_typed"].as_array().map(|a| {
            (a[0].as_str().unwrap().to_string(), a[1].as_str().unwrap().to_string(), a[2].as_u64().unwrap())
        });
        c.body = v["body"].as_str().map(|s| s.to_string());
        c.samples = v["samples"].as_array().cloned().unwrap_or_default();
        c
    }
}

/// Human rendering of a user-level / core container.
pub fn show_user(t: WTy, v: u64) -> String {
    match t {
        WTy::Bool => format!("{}", v != 0),
        WTy::F32 | WTy::F64 => format!("bits 0x{v:x}"),
        WTy::Char => format!("U+{v:04X}"),
        _ => format!("{}", refabi::user_math(t, v)),
    }
}
pub fn show_core(t: WTy, c: u64) -> String {
    let k = if t.core_bits() == 64 { "i64" } else { "i32" };
    match t {
        WTy::F32 => format!("f32 bits 0x{c:08x}"),
        WTy::F64 => format!("f64 bits 0x{c:016x}"),
        _ => format!("{k} 0x{c:x}"),
    }
}
